//! F18: the GNU build-id note of a module read from PROCESS MEMORY is looked up at the note segment's
//! FILE offset (p_offset) instead of its virtual address (p_vaddr).  For an image whose PT_NOTE segment
//! lies in a segment with p_vaddr != p_offset the note is not found in memory, and the identifier
//! degrades to the text-section hash although the image carries a build id.
//!
//! The test builds one well-formed ELF64 shared object twice: as a file image and "as loaded" (every
//! PT_LOAD copied to base + p_vaddr), and compares what the crate reads from each with goblin's full parser.
use minidump_writer::module_reader::{BuildId, ProcessMemory, ProcessReader, ReadFromModule};

fn w16(v: &mut Vec<u8>, x: u16) { v.extend_from_slice(&x.to_le_bytes()); }
fn w32(v: &mut Vec<u8>, x: u32) { v.extend_from_slice(&x.to_le_bytes()); }
fn w64(v: &mut Vec<u8>, x: u64) { v.extend_from_slice(&x.to_le_bytes()); }

fn phdr(v: &mut Vec<u8>, ty: u32, flags: u32, off: u64, vaddr: u64, filesz: u64, memsz: u64, align: u64) {
    w32(v, ty); w32(v, flags); w64(v, off); w64(v, vaddr); w64(v, vaddr); w64(v, filesz); w64(v, memsz); w64(v, align);
}

const PT_LOAD: u32 = 1;
const PT_NOTE: u32 = 4;
const ID: [u8; 20] = [0xde, 0xad, 0xbe, 0xef, 1, 2, 3, 4, 5, 6, 7, 8, 9, 10, 11, 12, 13, 14, 15, 16];

/// file layout:  [0x0000 ehdr+phdrs | pad] [0x1000: text 0x100 bytes | note]   (second segment: offset 0x1000 -> vaddr `v2`)
fn file_image(v2: u64) -> Vec<u8> {
    let mut f = Vec::new();
    // e_ident
    f.extend_from_slice(&[0x7f, b'E', b'L', b'F', 2, 1, 1, 0, 0, 0, 0, 0, 0, 0, 0, 0]);
    w16(&mut f, 3); // ET_DYN
    w16(&mut f, 62); // EM_X86_64
    w32(&mut f, 1);
    w64(&mut f, v2); // e_entry
    w64(&mut f, 64); // e_phoff
    w64(&mut f, 0); // e_shoff: no section headers
    w32(&mut f, 0);
    w16(&mut f, 64); // e_ehsize
    w16(&mut f, 56); // e_phentsize
    w16(&mut f, 3); // e_phnum
    w16(&mut f, 64); // e_shentsize
    w16(&mut f, 0);
    w16(&mut f, 0);
    assert_eq!(f.len(), 64);
    let note_off = 0x1100u64;
    let note_len = 12 + 4 + 20;
    phdr(&mut f, PT_LOAD, 4, 0, 0, 64 + 3 * 56, 64 + 3 * 56, 0x1000);
    phdr(&mut f, PT_LOAD, 5, 0x1000, v2, 0x100 + note_len, 0x100 + note_len, 0x1000);
    phdr(&mut f, PT_NOTE, 4, note_off, v2 + 0x100, note_len, note_len, 4);
    f.resize(0x1000, 0);
    // text
    for i in 0..0x100u32 { f.push((i * 7 + 3) as u8); }
    // note: namesz=4 descsz=20 type=3 "GNU\0" desc
    w32(&mut f, 4); w32(&mut f, 20); w32(&mut f, 3);
    f.extend_from_slice(b"GNU\0");
    f.extend_from_slice(&ID);
    f
}

/// the same object as the dynamic loader would map it (each PT_LOAD at base + p_vaddr)
fn loaded_image(file: &[u8], v2: u64) -> Vec<u8> {
    let mut m = vec![0u8; (v2 as usize) + 0x1000];
    m[..64 + 3 * 56].copy_from_slice(&file[..64 + 3 * 56]);
    let seg2 = &file[0x1000..];
    m[v2 as usize..v2 as usize + seg2.len()].copy_from_slice(seg2);
    m
}

fn independent_build_id(file: &[u8]) -> Vec<u8> {
    let elf = goblin::elf::Elf::parse(file).expect("well-formed ELF");
    for n in elf.iter_note_headers(file).expect("has PT_NOTE") {
        let n = n.expect("well-formed note");
        if n.name == "GNU" && n.n_type == goblin::elf::note::NT_GNU_BUILD_ID {
            return n.desc.to_vec();
        }
    }
    panic!("no build id note found by the independent parser");
}

#[test]
fn build_id_note_is_found_in_a_loaded_image_whose_note_segment_is_not_identity_mapped() {
    let pid = std::process::id() as i32;
    let mut failures = Vec::new();
    // control (vaddr == offset) and the interesting case (second segment mapped one page further up)
    for v2 in [0x1000u64, 0x2000, 0x5000] {
        let file = file_image(v2);
        let want = independent_build_id(&file);
        assert_eq!(want, ID);
        let from_file = BuildId::read_from_module(ProcessMemory::Slice(&file)).map(|b| b.0);
        if from_file.as_ref().ok() != Some(&want) {
            failures.push(format!("v2={v2:#x}: file image: {from_file:?}"));
        }
        let mem = loaded_image(&file, v2);
        let start = mem.as_ptr() as usize;
        let from_mem = BuildId::read_from_module(ProcessMemory::Process(ProcessReader::new(pid, start))).map(|b| b.0);
        if from_mem.as_ref().ok() != Some(&want) {
            failures.push(format!("v2={v2:#x}: loaded image: got {from_mem:x?}, the image's build id is {want:x?}"));
        }
        drop(mem);
    }
    assert!(failures.is_empty(), "{}", failures.join("\n"));
}
