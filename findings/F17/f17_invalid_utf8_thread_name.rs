//! A target thread whose name is not valid UTF-8 (the kernel cuts comm at 15 bytes, here in the middle of a
//! two-byte character) must not make the dump fail.
use minidump_writer::minidump_writer::MinidumpWriter;
use std::io::{BufRead, BufReader, Write};
use std::process::{Command, Stdio};

const CHILD_ENV: &str = "F17_CHILD";

#[test]
fn f17_child_entry() {
    if std::env::var_os(CHILD_ENV).is_none() {
        return;
    }
    let t = std::thread::Builder::new()
        .spawn(|| {
            // 7 two-byte characters + "-1" = 16 bytes: the kernel keeps 15, cutting the last character
            let name = std::ffi::CString::new("Обработчик-1").unwrap();
            unsafe { libc::prctl(libc::PR_SET_NAME, name.as_ptr(), 0, 0, 0) };
            loop {
                std::thread::sleep(std::time::Duration::from_secs(3600));
            }
        })
        .unwrap();
    std::thread::sleep(std::time::Duration::from_millis(200));
    println!("ready");
    std::io::stdout().flush().unwrap();
    let _ = t.join();
}

#[test]
fn dump_of_target_with_non_utf8_thread_name_succeeds() {
    if std::env::var_os(CHILD_ENV).is_some() {
        return;
    }
    let exe = std::env::current_exe().unwrap();
    let mut child = Command::new(exe)
        .args(["f17_child_entry", "--exact", "--nocapture", "--test-threads=1"])
        .env(CHILD_ENV, "1")
        .stdout(Stdio::piped())
        .spawn()
        .unwrap();
    let mut out = BufReader::new(child.stdout.take().unwrap());
    let mut line = String::new();
    loop {
        line.clear();
        if out.read_line(&mut line).unwrap() == 0 || line.contains("ready") {
            break;
        }
    }
    let pid = child.id() as i32;
    // the scenario really is there: some comm of the target is not valid UTF-8
    let bad = std::fs::read_dir(format!("/proc/{pid}/task"))
        .unwrap()
        .filter_map(|e| e.ok())
        .any(|e| std::fs::read(e.path().join("comm")).map(|b| std::str::from_utf8(&b).is_err()).unwrap_or(false));
    let mut dest = std::io::Cursor::new(Vec::new());
    let res = MinidumpWriter::new(pid, pid).dump(&mut dest).map(|v| v.len()).map_err(|e| format!("{e:?}"));
    let _ = child.kill();
    let _ = child.wait();
    assert!(bad, "setup: no thread with an invalid UTF-8 name");
    assert!(res.is_ok(), "dump failed: {res:?}");
}
