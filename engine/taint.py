"""E5 — taint over origin expressions, panic-sink ledger, loop ledger, open-sink obligations.

Taint is leaf-based: an origin expression is tainted iff one of its sub-expressions is a tainted leaf
(a source call, a tainted field name, a tainted parameter of the enclosing function, an up-var of a
closure captured from a tainted value).  Parameter taint is an interprocedural fixpoint over call
sites (arguments of local calls, elements handed to closures by adaptor calls whose receiver is tainted).
"""
import json, os, re
from collections import defaultdict
from .mir import CalleeView, norm
from .origin import Origin, strip, core, nosite, show, walk, is_const
from .paths import conditions

VERIF = os.path.dirname(os.path.dirname(os.path.abspath(__file__)))


def load_tables():
    with open(os.path.join(VERIF, "tables", "taint.json")) as f:
        return json.load(f)


def rawseg(n):
    return n.split("::")[-1] if n else ""


def lastseg(n):
    """last segment with std meaning: crate functions are mangled (engine/names.py) — their name says nothing about what they do"""
    from .names import stdseg
    return stdseg(n)


class Taint:
    def __init__(self, prog, entries, tables=None):
        self.prog = prog
        self.t = tables or load_tables()
        self.entries = list(entries)
        self.reach = prog.reachable(self.entries)
        self.src_calls = set(self.t["source_calls"])
        self.src_suffix = tuple(self.t["source_call_suffixes"])
        self.tfields = set(self.t["tainted_fields"])
        self.clean_calls = set(self.t.get("clean_calls", []))
        self.clean_fns = set(self.t.get("clean_in_function", {}))
        self.params = set()      # (fn_short, param_index)
        self.upvars = set()      # (closure_short, upvar_index)
        self.closure_elems = set()  # closure_short whose non-env params are tainted
        self.ret = set()         # local fns whose return value is intrinsically tainted
        self._o = {}
        for f, ps in self.t.get("seed_params", {}).items():
            for p in ps:
                self.params.add((f, p))
        # trait methods entered from foreign generic code (serde's Serialize, Display, ...): no call site shows what they are handed,
        # and they are handed the writer's data (error values built from the target's state) — every parameter is tainted
        for f in getattr(prog, "callback_targets", ()):
            if f in self.reach:
                for b in prog.by_short.get(f, ()):
                    for p in range(1, b.argc + 1):
                        self.params.add((f, p))
        self._fix()

    def origin(self, body):
        k = id(body)
        if k not in self._o:
            self._o[k] = Origin(body)
        return self._o[k]

    # -------------------------------------------------------------- leaf test
    def is_source_call(self, name):
        return name in self.src_calls or name.endswith(self.src_suffix) or name in self.ret

    def tainted(self, e, fn, ignore_params=False, why=None, len_clean=False):
        """len_clean: lengths/counts of in-memory collections are treated as small (they cannot overflow when
        added to / multiplied by small constants) — used for Add/Mul overflow sinks only"""
        if fn in self.clean_fns or (fn.rsplit("::{closure", 1)[0] in self.clean_fns):
            return False
        if len_clean:
            e = _mask_lengths(e)
        for s in self._walk_clean(e):
            k = s[0]
            if k == "param":
                if not ignore_params:
                    if (fn, s[1]) in self.params:
                        if why is not None:
                            why.append("param %d of %s" % (s[1], fn.split("::")[-1]))
                        return True
                    if s[1] >= 2 and fn in self.closure_elems:
                        if why is not None:
                            why.append("closure element of %s" % fn.split("::")[-1])
                        return True
            elif k == "call":
                if self.is_source_call(s[1]):
                    if why is not None:
                        why.append("result of %s" % s[1])
                    return True
            elif k == "field":
                if s[2] in self.tfields:
                    if why is not None:
                        why.append("field .%s" % s[2])
                    return True
                if not ignore_params and s[1] == ("param", 1) and s[2].isdigit() and (fn, int(s[2])) in self.upvars:
                    if why is not None:
                        why.append("captured up-var %s" % s[2])
                    return True
            elif k in ("deep", "undef"):
                if why is not None:
                    why.append("unknown origin")
                return True
        return False

    def _walk_clean(self, e):
        """like walk(), but does not descend into the arguments of clean calls"""
        if isinstance(e, tuple):
            if e and isinstance(e[0], str):
                if e[0] == "call" and e[1] in self.clean_calls:
                    return
                if e[0] == "LEN":
                    return
                from .origin import KINDS
                if e[0] in KINDS:
                    yield e
                    if e[0] == "upd":
                        yield from self._walk_clean(e[1])
                        yield from self._walk_clean(e[3])
                        return
                    if e[0] in ("call", "icall"):
                        for a in e[2]:
                            yield from self._walk_clean(a)
                        return
                    for x in e[1:]:
                        yield from self._walk_clean(x)
                    return
            for x in e:
                yield from self._walk_clean(x)
        elif isinstance(e, frozenset):
            for x in e:
                yield from self._walk_clean(x)

    # -------------------------------------------------------------- fixpoint
    def _fix(self):
        prog = self.prog
        changed = True
        rounds = 0
        while changed and rounds < 30:
            changed = False
            rounds += 1
            for f in sorted(self.reach):
                for b in prog.by_short.get(f, ()):
                    o = self.origin(b)
                    # intrinsic return taint: the value returned on success (payload of Ok / plain value) contains a
                    # tainted leaf other than the function's own parameters
                    if f not in self.ret:
                        from .summ import return_origins
                        outs = return_origins(prog, f) or []
                        if any(self.tainted(e, f, ignore_params=True) for e in outs):
                            self.ret.add(f)
                            changed = True
                    for bi, t in b.calls():
                        cv = CalleeView(t["callee"])
                        tgt = cv.target if cv.target in prog.by_short else (cv.short if cv.short in prog.by_short else None)
                        args = o.call_args(bi)
                        targs = [self.tainted(a, f) for a in args]
                        if tgt is not None:
                            for i, ta in enumerate(targs):
                                if ta and (tgt, i + 1) not in self.params:
                                    self.params.add((tgt, i + 1))
                                    changed = True
                        # closures passed as arguments
                        for i, a in enumerate(args):
                            for s in walk(a):
                                if s[0] == "closure":
                                    cname = s[1]
                                    for k, cap in enumerate(s[2]):
                                        if self.tainted(cap, f) and (cname, k) not in self.upvars:
                                            self.upvars.add((cname, k))
                                            changed = True
                                    others = [targs[j] for j in range(len(args)) if j != i]
                                    if any(others) and cname not in self.closure_elems:
                                        self.closure_elems.add(cname)
                                        changed = True
                    # closures created and called later (not passed directly): captures
                    for bi, blk in enumerate(b.blocks):
                        for si, st in enumerate(blk["stmts"]):
                            if st["k"] == "assign" and st["r"]["k"] == "agg" and st["r"].get("ak") == "closure":
                                e = o._rvalue(st["r"], (bi, si), 0)
                                for k, cap in enumerate(e[2]):
                                    if self.tainted(cap, f) and (e[1], k) not in self.upvars:
                                        self.upvars.add((e[1], k))
                                        changed = True
        self.rounds = rounds


def _mask_lengths(e):
    if isinstance(e, tuple):
        if e and e[0] == "len":
            return ("LEN",)
        if e and e[0] == "call" and lastseg(e[1]) in ("len", "count", "capacity") and isinstance(e[2], tuple):
            return ("LEN",)
        return tuple(_mask_lengths(x) for x in e)
    if isinstance(e, frozenset):
        return frozenset(_mask_lengths(x) for x in e)
    return e


# ------------------------------------------------------------------------------------ sinks
PANIC_CALL_EXACT = {
    "std::option::Option::unwrap", "std::option::Option::expect", "std::result::Result::unwrap", "std::result::Result::expect",
    "std::result::Result::unwrap_err", "std::result::Result::expect_err",
    "core::panicking::panic", "core::panicking::panic_fmt", "core::panicking::panic_explicit", "core::panicking::assert_failed",
    "core::panicking::panic_display", "core::panicking::unreachable_display", "core::panicking::panic_nounwind", "std::rt::begin_panic",
    "std::process::abort", "std::process::exit",
    "goblin::elf64::program_header::ProgramHeader::from_bytes", "goblin::elf32::program_header::ProgramHeader::from_bytes",
    "std::vec::Vec::remove", "std::vec::Vec::insert", "std::vec::Vec::swap_remove", "std::vec::Vec::drain", "std::vec::Vec::split_off",
    "std::string::String::remove", "std::string::String::insert", "std::string::String::insert_str", "std::string::String::drain",
    "std::string::String::truncate", "std::string::String::split_off",
    "std::time::Duration::from_secs_f64", "std::time::Duration::from_secs_f32", "std::time::Duration::mul_f64",
}
PANIC_LASTSEG = {"copy_from_slice", "clone_from_slice", "split_at", "split_at_mut", "swap", "chunks", "chunks_mut", "chunks_exact",
                 "chunks_exact_mut", "rchunks", "rchunks_mut", "rchunks_exact", "rchunks_exact_mut", "windows", "step_by",
                 "copy_within", "rotate_left", "rotate_right", "swap_with_slice", "abs", "pow", "div_euclid", "rem_euclid",
                 "next_power_of_two", "ilog2", "ilog10", "isqrt"}
CONST_ARG_OK = {"chunks", "chunks_mut", "chunks_exact", "chunks_exact_mut", "rchunks", "rchunks_mut", "rchunks_exact", "rchunks_exact_mut", "windows", "step_by"}


# allocation requests: a size the target controls panics on capacity overflow and aborts on allocation failure
ALLOC_SIZE_ARG = {"std::vec::Vec::with_capacity": 0, "std::vec::from_elem": 1, "std::vec::Vec::resize": 1, "std::vec::Vec::reserve": 1,
                  "std::vec::Vec::reserve_exact": 1, "std::string::String::with_capacity": 0, "std::string::String::reserve": 1,
                  "std::vec::Vec::resize_with": 1, "std::collections::VecDeque::with_capacity": 0,
                  "std::collections::HashMap::with_capacity": 0, "std::str::<impl str>::repeat": 1, "std::slice::<impl [T]>::repeat": 1}
ALLOC_LIMIT = 1 << 32


def sink_kind_of_call(cv):
    n = cv.target or cv.short
    if n is None:
        return None
    if n in PANIC_CALL_EXACT:
        return rawseg(n)
    if n in ALLOC_SIZE_ARG:
        return "alloc_" + rawseg(n)
    ls = lastseg(n)
    if ls in ("index", "index_mut") and ("ops::Index" in n):
        return ls
    if ls in ("add", "sub", "add_assign", "sub_assign") and ("std::time::Instant" in n or "std::time::SystemTime" in n or "std::time::Duration" in n):
        return "time-" + ls
    if ls in PANIC_LASTSEG and ("core::slice" in n or "core::num" in n or "std::slice" in n or "std::iter" in n or "alloc::slice" in n):
        return ls
    return None


class Sink:
    __slots__ = ("fn", "body", "block", "kind", "ops", "where", "desc", "exp", "tys")

    def __init__(self, fn, body, block, kind, ops, where, desc, exp, tys=None):
        self.fn, self.body, self.block, self.kind, self.ops, self.where, self.desc, self.exp = fn, body, block, kind, ops, where, desc, exp
        self.tys = tys or []


def collect_sinks(taint, skip_fn=lambda f: False):
    prog = taint.prog
    out = []
    for f in sorted(taint.reach):
        if skip_fn(f):
            continue
        for b in prog.by_short.get(f, ()):
            o = taint.origin(b)
            for bi, blk in enumerate(b.blocks):
                if blk["cleanup"]:
                    continue
                t = blk["term"]
                if t["k"] == "assert":
                    m = t["msg"]
                    k = m["k"]
                    if k == "Overflow":
                        ops = [o.operand(m["a"], (bi, "term")), o.operand(m["b"], (bi, "term"))]
                        tys = [(m[x]["p"]["ty"] if m[x]["k"] in ("copy", "move") else m[x].get("ty")) for x in ("a", "b")]
                        out.append(Sink(f, b, bi, "Overflow:" + m["op"], ops, b.where(bi), "%s(%s, %s)" % (m["op"], show(ops[0])[:80], show(ops[1])[:80]), t.get("exp"), tys))
                    elif k == "BoundsCheck":
                        ops = [o.operand(m["len"], (bi, "term")), o.operand(m["index"], (bi, "term"))]
                        out.append(Sink(f, b, bi, "BoundsCheck", ops, b.where(bi), "index %s < len %s" % (show(ops[1])[:80], show(ops[0])[:80]), t.get("exp")))
                    elif k in ("DivisionByZero", "RemainderByZero"):
                        # the message carries the dividend; the divisor is the operand compared with 0 in the condition
                        c = core(o.operand(t["cond"], (bi, "term")))
                        if is_const(c):
                            ops = [c]   # `x % 4096`: the comparison with 0 was folded, the divisor is a non-zero constant
                        else:
                            ops = [c[2] if (c[0] == "bin" and c[1] == "Eq" and is_const(core(c[3]))) else (c[3] if c[0] == "bin" and c[1] == "Eq" else o.operand(m["a"], (bi, "term")))]
                        out.append(Sink(f, b, bi, k, ops, b.where(bi), "%s(divisor %s)" % (k, show(ops[0])[:80]), t.get("exp")))
                    elif k in ("OverflowNeg",):
                        ops = [o.operand(m["a"], (bi, "term"))]
                        out.append(Sink(f, b, bi, k, ops, b.where(bi), "%s(%s)" % (k, show(ops[0])[:80]), t.get("exp")))
                elif t["k"] == "call":
                    cv = CalleeView(t["callee"])
                    kind = sink_kind_of_call(cv)
                    if kind:
                        ops = o.call_args(bi)
                        out.append(Sink(f, b, bi, "call:" + kind, ops, b.where(bi), "%s(%s)" % (rawseg(cv.target or cv.short), ", ".join(show(a)[:70] for a in ops)), t.get("exp")))
    return out


_LOOPID = re.compile(r"loop\(\d+\)")


def canon_key(e):
    """stable textual key of an operand: call sites and local numbers erased, truncated"""
    return _LOOPID.sub("loop", show(nosite(e)))[:140]


# ------------------------------------------------------------------------------------ guards
def _same(a, b):
    return nosite(core(a)) == nosite(core(b))


def guarded_sub(sink, taint):
    """Sub(a,b) is safe when every path carries a >= b"""
    a, b = sink.ops
    body = sink.body
    o = taint.origin(body)
    dnf = conditions(body, sink.block, origin=o, relevant=lambda at: at[0] == "bin" and at[1] in ("Lt", "Le", "Gt", "Ge"))
    if not dnf:
        return False

    def lit_ok(at, v):
        x, y, op = at[2], at[3], at[1]
        if _same(x, a) and _same(y, b):
            return (op in ("Ge", "Gt") and v == 1) or (op in ("Lt",) and v == 0)
        if _same(x, b) and _same(y, a):
            return (op in ("Le", "Lt") and v == 1) or (op in ("Gt",) and v == 0)
        return False
    return all(any(lit_ok(at, v) for (at, v) in c) for c in dnf)


def guarded_index(sink, taint):
    ln, idx = sink.ops
    body = sink.body
    o = taint.origin(body)
    dnf = conditions(body, sink.block, origin=o, relevant=lambda at: at[0] == "bin" and at[1] in ("Lt", "Le", "Gt", "Ge"))
    if not dnf:
        return False

    def lit_ok(at, v):
        x, y, op = at[2], at[3], at[1]
        if _same(x, idx) and _same(y, ln):
            return (op == "Lt" and v == 1) or (op == "Ge" and v == 0)
        if _same(x, ln) and _same(y, idx):
            return (op == "Gt" and v == 1) or (op == "Le" and v == 0)
        return False
    return all(any(lit_ok(at, v) for (at, v) in c) for c in dnf)


def guard_fingerprint(sink, taint):
    """canonical text of the comparison literals that hold on EVERY path to the sink and mention a sub-expression of its operands.
    Part of the review key: a reviewed reason usually leans on such guards, so weakening or removing one must re-open the site."""
    body = sink.body
    o = taint.origin(body)
    subs = set()
    for op in sink.ops:
        for x in walk(op):
            if isinstance(x, tuple) and x and x[0] in ("field", "call", "param", "len", "index", "upvar"):
                subs.add(nosite(core(x)))

    def mentions(at):
        return any(nosite(core(x)) in subs for side in (at[2], at[3]) for x in walk(side) if isinstance(x, tuple) and x)
    try:
        dnf = conditions(body, sink.block, origin=o, relevant=lambda at: at[0] == "bin" and at[1] in ("Lt", "Le", "Gt", "Ge", "Eq", "Ne") and mentions(at), cap=2000)
    except Exception:
        dnf = None
    if not dnf:
        return ""

    def canon(at, v):
        op, a, b = at[1], canon_key(core(at[2]))[:120], canon_key(core(at[3]))[:120]
        if isinstance(v, tuple):
            return None
        if op in ("Eq", "Ne"):
            a, b = sorted((a, b))
            return "%s%s%s" % (a, "==" if (op == "Eq") == (v == 1) else "!=", b)
        table = {("Lt", 1): (a, "<", b), ("Lt", 0): (b, "<=", a), ("Le", 1): (a, "<=", b), ("Le", 0): (b, "<", a),
                 ("Gt", 1): (b, "<", a), ("Gt", 0): (a, "<=", b), ("Ge", 1): (b, "<=", a), ("Ge", 0): (a, "<", b)}
        t = table.get((op, v))
        return "%s%s%s" % t if t else None
    per = []
    for c in dnf:
        per.append({canon(at, v) for (at, v) in c} - {None})
    common = set.intersection(*per) if per else set()
    return ";".join(sorted(common))[:900]


def guarded_from_bytes(sink, taint):
    """goblin ProgramHeader::from_bytes(bytes, count) panics unless bytes holds count whole headers: every path to the call must
    carry len(bytes) == count * SIZEOF (or >=), SIZEOF being the header size of the ELF class in the callee's path"""
    if len(sink.ops) < 2:
        return False
    body = sink.body
    o = taint.origin(body)
    t = body.term(sink.block)
    name = (CalleeView(t["callee"]).target or CalleeView(t["callee"]).short or "")
    size = 56 if "elf64" in name else (32 if "elf32" in name else None)
    if size is None:
        return False
    data, count = sink.ops[0], sink.ops[1]

    def is_len_of_data(e):
        e = core(e)
        inner = e[1] if e[0] == "len" else (e[2][0] if e[0] == "call" and lastseg(e[1]) == "len" and e[2] else None)
        return inner is not None and _same(inner, data)

    def is_count_times(e):
        e = core(e)
        while e[0] == "call" and lastseg(e[1]) in ("ok_or", "ok_or_else", "unwrap_or") and e[2]:
            e = core(e[2][0])
        parts = None
        if e[0] == "call" and lastseg(e[1]) in ("checked_mul", "saturating_mul") and len(e[2]) == 2:
            parts = [core(e[2][0]), core(e[2][1])]
        elif e[0] == "bin" and e[1] == "Mul":
            parts = [core(e[2]), core(e[3])]
        if not parts:
            return False
        for x, y in ((parts[0], parts[1]), (parts[1], parts[0])):
            if is_const(x) and x[1] >= size and _same(y, count):
                return True
        return False
    dnf = conditions(body, sink.block, origin=o, relevant=lambda at: at[0] == "bin" and at[1] in ("Eq", "Ne", "Lt", "Le", "Gt", "Ge"))
    if not dnf:
        return False

    def lit_ok(at, v):
        op, x, y = at[1], at[2], at[3]
        if is_len_of_data(x) and is_count_times(y):
            return (op == "Eq" and v == 1) or (op == "Ne" and v == 0) or (op == "Ge" and v == 1) or (op == "Lt" and v == 0)
        if is_len_of_data(y) and is_count_times(x):
            return (op == "Eq" and v == 1) or (op == "Ne" and v == 0) or (op == "Le" and v == 1) or (op == "Gt" and v == 0)
        return False
    return all(any(lit_ok(at, v) for (at, v) in c) for c in dnf)


def guarded_unwrap(sink, taint):
    """unwrap/expect on x is safe when every path carries is_some(x)/is_ok(x) or discr(x) == Some/Ok"""
    x = sink.ops[0]
    body = sink.body
    o = taint.origin(body)

    def rel(at):
        if at[0] == "call" and lastseg(at[1]) in ("is_some", "is_ok", "is_none", "is_err"):
            return True
        if at[0] == "discr":
            return True
        return False
    dnf = conditions(body, sink.block, origin=o, relevant=rel)
    if not dnf:
        return False

    def lit_ok(at, v):
        if at[0] == "call" and at[2] and _same(at[2][0], x):
            ls = lastseg(at[1])
            return (ls in ("is_some", "is_ok") and v == 1) or (ls in ("is_none", "is_err") and v == 0)
        if at[0] == "discr" and _same(at[1], x):
            return (v == 1 and "Option" in sink.desc) or False
        return False
    return all(any(lit_ok(at, v) for (at, v) in c) for c in dnf)


# ------------------------------------------------------------------------------------ value ranges
TYPE_MAX = {"u8": 255, "u16": 65535, "u32": (1 << 32) - 1, "u64": (1 << 64) - 1, "usize": (1 << 64) - 1, "u128": (1 << 128) - 1,
            "i8": 127, "i16": 32767, "i32": (1 << 31) - 1, "i64": (1 << 63) - 1, "isize": (1 << 63) - 1, "bool": 1, "char": 0x10FFFF}
LEN_MAX = (1 << 63) - 1


def maxval(e, bounds=None):
    """an upper bound of the (non-negative) value of an origin expression, or None when unknown.
    bounds: optional dict nosite(core(expr)) -> upper bound derived from dominating guards"""
    e0 = e
    e = strip(e)
    if bounds:
        k = nosite(core(e))
        if k in bounds:
            inner = maxval_raw(e, bounds)
            return bounds[k] if inner is None else min(inner, bounds[k])
    return maxval_raw(e, bounds)


def maxval_raw(e, bounds):
    k = e[0]
    if k == "const" and isinstance(e[1], int):
        return e[1] if e[1] >= 0 else None
    if k == "cast":
        inner = maxval(e[1], bounds)
        lim = min(TYPE_MAX.get(e[2], 1 << 128), TYPE_MAX.get(e[3], 1 << 128))
        if e[2].startswith("i"):
            # a negative source could become huge; only the target type bounds it
            lim = TYPE_MAX.get(e[3], 1 << 128)
            return lim if lim < (1 << 128) else None
        return lim if inner is None else min(inner, lim)
    if k == "len":
        return LEN_MAX
    if k == "bin":
        op = e[1]
        a, b = maxval(e[2], bounds), maxval(e[3], bounds)
        if op == "BitAnd":
            c = [x for x in (a, b) if x is not None]
            return min(c) if c else None
        if op in ("Shr", "ShrUnchecked") and a is not None and is_const(strip(e[3])):
            return a >> strip(e[3])[1]
        if op == "Rem" and b is not None:
            return max(b - 1, 0)
        if op in ("Add", "AddUnchecked") and a is not None and b is not None:
            return a + b
        if op in ("Mul", "MulUnchecked") and a is not None and b is not None:
            return a * b
        if op in ("Sub", "SubUnchecked") and a is not None:
            return a
        if op == "Div" and a is not None:
            return a
        if op in ("Eq", "Ne", "Lt", "Le", "Gt", "Ge"):
            return 1
        return None
    if k == "call":
        ls = lastseg(e[1])
        if ls in ("len", "count", "capacity"):
            if e[2] and strip(e[2][0])[0] == "array":
                return len(strip(e[2][0])[1])
            return LEN_MAX
        if ls == "min" and len(e[2]) == 2:
            c = [x for x in (maxval(e[2][0], bounds), maxval(e[2][1], bounds)) if x is not None]
            return min(c) if c else None
        if ls == "max" and len(e[2]) == 2:
            a, b = maxval(e[2][0], bounds), maxval(e[2][1], bounds)
            return None if a is None or b is None else max(a, b)
        if ls in ("saturating_sub", "wrapping_sub") and e[2]:
            return maxval(e[2][0], bounds)
        if ls == "size_of" or ls == "size_with" or ls == "size_of_val":
            return 4096
        return None
    if k == "phi":
        vs = [maxval(x, bounds) for x in e[1] if x[0] != "loop"]
        if vs and all(v is not None for v in vs) and not any(x[0] == "loop" for x in e[1]):
            return max(vs)
        return None
    return None


def guard_bounds(sink, taint):
    """upper bounds on expressions implied by comparisons against constants that hold on every path to the sink"""
    body = sink.body
    o = taint.origin(body)
    dnf = conditions(body, sink.block, origin=o, relevant=lambda at: at[0] == "bin" and at[1] in ("Lt", "Le", "Gt", "Ge"), cap=4000)
    if not dnf:
        return {}
    per = []
    for c in dnf:
        d = {}
        for (at, v) in c:
            op, x, y = at[1], strip(at[2]), strip(at[3])
            for (lhs, rhs, o2) in ((x, y, op), (y, x, {"Lt": "Gt", "Le": "Ge", "Gt": "Lt", "Ge": "Le"}[op])):
                m = maxval(rhs)
                if m is None:
                    continue
                ub = None
                if o2 == "Lt" and v == 1:
                    ub = m - 1
                elif o2 == "Le" and v == 1:
                    ub = m
                elif o2 == "Ge" and v == 0:
                    ub = m - 1
                elif o2 == "Gt" and v == 0:
                    ub = m
                if ub is not None:
                    k = nosite(core(lhs))
                    d[k] = min(d.get(k, ub), ub)
        per.append(d)
    keys = set(per[0])
    for d in per[1:]:
        keys &= set(d)
    return {k: max(d[k] for d in per) for k in keys}


def region_extent(base, taint):
    """if `base` is the start of a region returned by a function listed under region_sums (start, length) — start + length
    is the end address of an existing mapping, so it is representable — return the origin expression of that length"""
    e = core(base)
    if e[0] == "field" and e[2] == "0":
        c = core(e[1])
        if c[0] == "call" and any(c[1] == n or c[1].endswith("::" + n) for n in taint.t.get("region_sums", {})):
            return ("field", e[1], "1")
    return None


def le_sym(k, B):
    """k <= B by shape: B itself, B - x, x % B' with B' <= B, min with one such operand, 0, or a join of such values"""
    k = core(k)
    if _same(k, B):
        return True
    if is_const(k) and k[1] == 0:
        return True
    if k[0] == "bin" and k[1] in ("Sub", "SubUnchecked") and le_sym(k[2], B):
        return True
    if k[0] == "call" and lastseg(k[1]) == "saturating_sub" and k[2] and le_sym(k[2][0], B):
        return True
    if k[0] == "call" and lastseg(k[1]) == "min" and len(k[2]) == 2:
        return le_sym(k[2][0], B) or le_sym(k[2][1], B)
    if k[0] == "phi":
        return all(x[0] != "loop" and le_sym(x, B) for x in k[1])
    return False


def range_discharge(sink, taint, op_types):
    """discharge by value ranges (type widths, masks, constant-compared guards)"""
    kind = sink.kind
    try:
        bounds = guard_bounds(sink, taint)
    except Exception:
        bounds = {}
    if kind in ("Overflow:Add", "Overflow:Mul"):
        a, b = maxval(sink.ops[0], bounds), maxval(sink.ops[1], bounds)
        lim = TYPE_MAX.get(op_types[0] or "usize", (1 << 64) - 1)
        if a is not None and b is not None:
            r = a + b if kind.endswith("Add") else a * b
            if r <= lim:
                return True
        if kind == "Overflow:Mul":
            # (x / y) * y <= x
            for q, m in ((sink.ops[0], sink.ops[1]), (sink.ops[1], sink.ops[0])):
                cq = core(q)
                if cq[0] == "bin" and cq[1] == "Div" and _same(cq[3], m):
                    return True
            return False
        # A + k with k <= B where A + B is the end address of an existing region (tables/taint.json: region_sums)
        for base, k in ((sink.ops[0], sink.ops[1]), (sink.ops[1], sink.ops[0])):
            B = region_extent(base, taint)
            if B is not None and le_sym(k, B):
                return True
        return False
    if kind.startswith("call:alloc_"):
        name = next((n for n in ALLOC_SIZE_ARG if kind == "call:alloc_" + rawseg(n) and len(sink.ops) > ALLOC_SIZE_ARG[n]), None)
        if name is None:
            return False
        size = sink.ops[ALLOC_SIZE_ARG[name]]
        m = maxval(size, bounds)
        if m is not None and m <= ALLOC_LIMIT:
            return True
        # the same amount was obtained by a fallible reservation on the same (fresh) vector and the failure branch left
        if ALLOC_SIZE_ARG[name] == 1:
            body = sink.body
            o = taint.origin(body)
            recv = sink.ops[0]

            def is_try(e):
                return e[0] == "call" and lastseg(e[1]) in ("try_reserve_exact", "try_reserve") and len(e[2]) == 2 and _same(e[2][1], size) and _same(e[2][0], recv)
            dnf = conditions(body, sink.block, origin=o, relevant=lambda at: at[0] == "discr" and any(is_try(x) for x in walk(at[1])))
            if dnf and all(any(v == 0 for (at, v) in c) for c in dnf):
                return True
        return False
    if kind in ("Overflow:Shl", "Overflow:Shr"):
        b = maxval(sink.ops[1], bounds)
        bits = {"u8": 8, "i8": 8, "u16": 16, "i16": 16, "u32": 32, "i32": 32, "u128": 128, "i128": 128}.get(op_types[0] or "usize", 64)
        return b is not None and b < bits
    if kind == "BoundsCheck":
        ln, idx = sink.ops
        lnc = strip(ln)
        i = maxval(idx, bounds)
        if is_const(lnc) and i is not None:
            return i < lnc[1]
        inner = lnc[1] if lnc[0] == "len" else (lnc[2][0] if lnc[0] == "call" and lastseg(lnc[1]) == "len" and lnc[2] else None)
        if inner is not None and i is not None:
            n = _static_len(inner)
            return n is not None and i < n
        return False
    if kind in ("call:index", "call:index_mut"):
        base, ix = strip(sink.ops[0]), strip(sink.ops[1])
        n = None
        if base[0] == "call" and lastseg(base[1]) == "from_elem" and is_const(strip(base[2][1])):
            n = strip(base[2][1])[1]
        if base[0] == "array":
            n = len(base[1])
        if ix[0] == "agg" and ix[1].endswith("RangeFull"):
            return True
        if ix[0] != "agg":
            i = maxval(ix, bounds)
            return n is not None and i is not None and i < n
        return slice_ok(base, ix, sink, taint, bounds)
    if kind == "call:copy_from_slice":
        return copy_len_equal(sink.ops[0], sink.ops[1])
    if kind == "DivisionByZero" or kind == "RemainderByZero":
        # divisor > 0 on every path
        body = sink.body
        o = taint.origin(body)
        dnf = conditions(body, sink.block, origin=o, relevant=lambda at: at[0] == "bin" and at[1] in ("Lt", "Le", "Gt", "Ge", "Eq", "Ne"))
        d = sink.ops[0]
        def ok(at, v):
            x, y, op = at[2], at[3], at[1]
            if _same(x, d) and is_const(core(y)) and core(y)[1] == 0:
                return (op in ("Gt", "Ne") and v == 1) or (op in ("Eq", "Le") and v == 0)
            return False
        return bool(dnf) and all(any(ok(at, v) for (at, v) in c) for c in dnf)
    if kind == "Overflow:Sub":
        a, b = strip(sink.ops[0]), strip(sink.ops[1])
        # x - x % m
        cb = core(b)
        if cb[0] == "bin" and cb[1] == "Rem" and _same(cb[2], a):
            return True
        # x - min(x, ..) / x - saturating..
        if cb[0] == "call" and lastseg(cb[1]) == "min" and any(_same(z, a) for z in cb[2]):
            return True
        # max(b, ..) - b
        ca = core(a)
        if ca[0] == "call" and lastseg(ca[1]) == "max" and any(_same(z, b) for z in ca[2]):
            return True
        return False
    return False


def _len_of(base):
    return lambda e: (strip(e)[0] == "len" and _same(strip(e)[1], base)) or (strip(e)[0] == "call" and lastseg(strip(e)[1]) == "len" and strip(e)[2] and _same(strip(e)[2][0], base))


def _clamped_to_len(e, base):
    """e <= len(base) structurally: e is len(base), or min(.., len(base)..), or min of clamped things"""
    e = strip(core(e))
    is_len = _len_of(base)
    if is_len(e):
        return True
    if e[0] == "call" and lastseg(e[1]) == "min" and len(e[2]) >= 2:
        return any(_clamped_to_len(z, base) for z in e[2])
    return False


def slice_ok(base, rng, sink, taint, bounds):
    name = rng[1].split("::")[-1]
    d = dict(rng[3])
    start = d.get("start")
    end = d.get("end")
    okend = True
    if end is not None:
        okend = _clamped_to_len(end, base)
    okstart = True
    if start is not None:
        s0 = strip(core(start))
        if is_const(s0) and s0[1] == 0:
            okstart = True
        elif end is not None:
            okstart = _same(start, end) or (is_const(s0) and maxval(end) is not None and False)
        else:
            okstart = _clamped_to_len(start, base) or start_guarded(start, base, sink, taint)
    return okend and okstart


def start_guarded(start, base, sink, taint):
    """RangeFrom start: every path carries start <= len(base) - c or start < len(base) or start <= len(base)"""
    body = sink.body
    o = taint.origin(body)
    dnf = conditions(body, sink.block, origin=o, relevant=lambda at: at[0] == "bin" and at[1] in ("Lt", "Le", "Gt", "Ge"))
    if not dnf:
        return False
    is_len = _len_of(base)

    def rhs_ok(y):
        y = strip(core(y))
        if is_len(y):
            return True
        if y[0] == "bin" and y[1] == "Sub" and is_len(y[2]):
            return True
        if y[0] == "call" and lastseg(y[1]) in ("saturating_sub", "wrapping_sub") and is_len(y[2][0]):
            return lastseg(y[1]) == "saturating_sub"
        return False

    def ok(at, v):
        x, y, op = at[2], at[3], at[1]
        if _same(x, start) and rhs_ok(y):
            return (op in ("Lt", "Le") and v == 1) or (op in ("Gt",) and v == 0)
        if _same(y, start) and rhs_ok(x):
            return (op in ("Gt", "Ge") and v == 1) or (op in ("Lt",) and v == 0)
        return False
    return all(any(ok(at, v) for (at, v) in c) for c in dnf)


INT_BYTES = {"u8": 1, "i8": 1, "u16": 2, "i16": 2, "u32": 4, "i32": 4, "u64": 8, "i64": 8, "usize": 8, "isize": 8, "u128": 16, "i128": 16}


def _static_len(e):
    """length of a slice-valued expression when statically known"""
    e = strip(e)
    if e[0] == "call":
        ls = lastseg(e[1])
        if ls in ("to_ne_bytes", "to_le_bytes", "to_be_bytes"):
            for t, n in INT_BYTES.items():
                if "<impl %s>" % t in e[1]:
                    return n
        if ls == "next":
            for s in walk(e):
                if s[0] == "call" and lastseg(s[1]) in ("chunks_exact_mut", "chunks_exact", "rchunks_exact", "rchunks_exact_mut", "windows") and is_const(strip(s[2][1])):
                    return strip(s[2][1])[1]
    if e[0] == "array":
        return len(e[1])
    if e[0] == "field" and e[2] in ("0", "1"):
        # item component of zip / enumerate over chunks_exact(_, n)
        base = strip(e[1])
        if base[0] == "call" and lastseg(base[1]) == "next" and base[2]:
            it = strip(base[2][0])
            while it[0] == "call" and lastseg(it[1]) in ("into_iter", "by_ref") and it[2]:
                it = strip(it[2][0])
            src = None
            if it[0] == "call" and lastseg(it[1]) == "zip" and len(it[2]) == 2:
                src = strip(it[2][int(e[2])])
            elif it[0] == "call" and lastseg(it[1]) == "enumerate" and e[2] == "1" and it[2]:
                src = strip(it[2][0])
            if src is not None and src[0] == "call" and lastseg(src[1]) in ("chunks_exact", "chunks_exact_mut") and is_const(strip(src[2][1])):
                return strip(src[2][1])[1]
    return None


def copy_len_equal(dst, src):
    a, b = _static_len(dst), _static_len(src)
    if a is not None and a == b:
        return True
    d, s2 = strip(dst), strip(src)
    # both are x[..n] with the same n
    if d[0] == "call" and s2[0] == "call" and lastseg(d[1]) in ("index", "index_mut") and lastseg(s2[1]) in ("index", "index_mut"):
        r1, r2 = strip(d[2][1]), strip(s2[2][1])
        if r1[0] == "agg" and r2[0] == "agg" and r1[1] == r2[1]:
            d1, d2 = dict(r1[3]), dict(r2[3])
            if set(d1) == set(d2) and all(_same(d1[k], d2[k]) for k in d1):
                return True
    return False
