"""E5 — taint over origin expressions, panic-sink ledger, loop ledger, open-sink obligations.

Taint is leaf-based: an origin expression is tainted iff one of its sub-expressions is a tainted leaf
(a source call, a tainted field name, a tainted parameter of the enclosing function, an up-var of a
closure captured from a tainted value).  Parameter taint is an interprocedural fixpoint over call
sites (arguments of local calls, elements handed to closures by adaptor calls whose receiver is tainted).
"""
import json, os
from collections import defaultdict
from .mir import CalleeView, norm
from .origin import Origin, strip, core, nosite, show, walk, is_const
from .paths import conditions

VERIF = os.path.dirname(os.path.dirname(os.path.abspath(__file__)))


def load_tables():
    with open(os.path.join(VERIF, "tables", "taint.json")) as f:
        return json.load(f)


def lastseg(n):
    return n.split("::")[-1] if n else ""


class Taint:
    def __init__(self, prog, entries, tables=None):
        self.prog = prog
        self.t = tables or load_tables()
        self.entries = list(entries)
        self.reach = prog.reachable(self.entries)
        self.src_calls = set(self.t["source_calls"])
        self.src_suffix = tuple(self.t["source_call_suffixes"])
        self.tfields = set(self.t["tainted_fields"])
        self.clean_calls = set(self.t.get("clean_calls", []))
        self.params = set()      # (fn_short, param_index)
        self.upvars = set()      # (closure_short, upvar_index)
        self.closure_elems = set()  # closure_short whose non-env params are tainted
        self.ret = set()         # local fns whose return value is intrinsically tainted
        self._o = {}
        for f, ps in self.t.get("seed_params", {}).items():
            for p in ps:
                self.params.add((f, p))
        self._fix()

    def origin(self, body):
        k = id(body)
        if k not in self._o:
            self._o[k] = Origin(body)
        return self._o[k]

    # -------------------------------------------------------------- leaf test
    def is_source_call(self, name):
        return name in self.src_calls or name.endswith(self.src_suffix) or name in self.ret

    def tainted(self, e, fn, ignore_params=False, why=None, len_clean=False):
        """len_clean: lengths/counts of in-memory collections are treated as small (they cannot overflow when
        added to / multiplied by small constants) — used for Add/Mul overflow sinks only"""
        if len_clean:
            e = _mask_lengths(e)
        for s in self._walk_clean(e):
            k = s[0]
            if k == "param":
                if not ignore_params:
                    if (fn, s[1]) in self.params:
                        if why is not None:
                            why.append("param %d of %s" % (s[1], fn.split("::")[-1]))
                        return True
                    if s[1] >= 2 and fn in self.closure_elems:
                        if why is not None:
                            why.append("closure element of %s" % fn.split("::")[-1])
                        return True
            elif k == "call":
                if self.is_source_call(s[1]):
                    if why is not None:
                        why.append("result of %s" % s[1])
                    return True
            elif k == "field":
                if s[2] in self.tfields:
                    if why is not None:
                        why.append("field .%s" % s[2])
                    return True
                if not ignore_params and s[1] == ("param", 1) and s[2].isdigit() and (fn, int(s[2])) in self.upvars:
                    if why is not None:
                        why.append("captured up-var %s" % s[2])
                    return True
            elif k in ("deep", "undef"):
                if why is not None:
                    why.append("unknown origin")
                return True
        return False

    def _walk_clean(self, e):
        """like walk(), but does not descend into the arguments of clean calls"""
        if isinstance(e, tuple):
            if e and isinstance(e[0], str):
                if e[0] == "call" and e[1] in self.clean_calls:
                    return
                if e[0] == "LEN":
                    return
                from .origin import KINDS
                if e[0] in KINDS:
                    yield e
                    if e[0] == "upd":
                        yield from self._walk_clean(e[1])
                        yield from self._walk_clean(e[3])
                        return
                    if e[0] in ("call", "icall"):
                        for a in e[2]:
                            yield from self._walk_clean(a)
                        return
                    for x in e[1:]:
                        yield from self._walk_clean(x)
                    return
            for x in e:
                yield from self._walk_clean(x)
        elif isinstance(e, frozenset):
            for x in e:
                yield from self._walk_clean(x)

    # -------------------------------------------------------------- fixpoint
    def _fix(self):
        prog = self.prog
        changed = True
        rounds = 0
        while changed and rounds < 30:
            changed = False
            rounds += 1
            for f in sorted(self.reach):
                for b in prog.by_short.get(f, ()):
                    o = self.origin(b)
                    # intrinsic return taint
                    if f not in self.ret:
                        for bi, blk in enumerate(b.blocks):
                            if blk["cleanup"]:
                                continue
                            if blk["term"]["k"] == "return":
                                e = o.place({"l": 0, "proj": []}, (bi, "term"))
                                if self.tainted(e, f, ignore_params=True):
                                    self.ret.add(f)
                                    changed = True
                                    break
                    for bi, t in b.calls():
                        cv = CalleeView(t["callee"])
                        tgt = cv.target if cv.target in prog.by_short else (cv.short if cv.short in prog.by_short else None)
                        args = o.call_args(bi)
                        targs = [self.tainted(a, f) for a in args]
                        if tgt is not None:
                            for i, ta in enumerate(targs):
                                if ta and (tgt, i + 1) not in self.params:
                                    self.params.add((tgt, i + 1))
                                    changed = True
                        # closures passed as arguments
                        for i, a in enumerate(args):
                            for s in walk(a):
                                if s[0] == "closure":
                                    cname = s[1]
                                    for k, cap in enumerate(s[2]):
                                        if self.tainted(cap, f) and (cname, k) not in self.upvars:
                                            self.upvars.add((cname, k))
                                            changed = True
                                    others = [targs[j] for j in range(len(args)) if j != i]
                                    if any(others) and cname not in self.closure_elems:
                                        self.closure_elems.add(cname)
                                        changed = True
                    # closures created and called later (not passed directly): captures
                    for bi, blk in enumerate(b.blocks):
                        for si, st in enumerate(blk["stmts"]):
                            if st["k"] == "assign" and st["r"]["k"] == "agg" and st["r"].get("ak") == "closure":
                                e = o._rvalue(st["r"], (bi, si), 0)
                                for k, cap in enumerate(e[2]):
                                    if self.tainted(cap, f) and (e[1], k) not in self.upvars:
                                        self.upvars.add((e[1], k))
                                        changed = True
        self.rounds = rounds


def _mask_lengths(e):
    if isinstance(e, tuple):
        if e and e[0] == "len":
            return ("LEN",)
        if e and e[0] == "call" and lastseg(e[1]) in ("len", "count", "capacity") and isinstance(e[2], tuple):
            return ("LEN",)
        return tuple(_mask_lengths(x) for x in e)
    if isinstance(e, frozenset):
        return frozenset(_mask_lengths(x) for x in e)
    return e


# ------------------------------------------------------------------------------------ sinks
PANIC_CALL_EXACT = {
    "std::option::Option::unwrap", "std::option::Option::expect", "std::result::Result::unwrap", "std::result::Result::expect",
    "std::result::Result::unwrap_err", "std::result::Result::expect_err",
    "core::panicking::panic", "core::panicking::panic_fmt", "core::panicking::panic_explicit", "core::panicking::assert_failed",
    "core::panicking::panic_display", "core::panicking::unreachable_display", "core::panicking::panic_nounwind", "std::rt::begin_panic",
    "std::process::abort", "std::process::exit",
    "goblin::elf64::program_header::ProgramHeader::from_bytes", "goblin::elf32::program_header::ProgramHeader::from_bytes",
    "std::vec::Vec::remove", "std::vec::Vec::insert", "std::vec::Vec::swap_remove", "std::vec::Vec::drain", "std::vec::Vec::split_off",
    "std::string::String::remove", "std::string::String::insert", "std::string::String::insert_str", "std::string::String::drain",
    "std::string::String::truncate", "std::string::String::split_off",
    "std::time::Duration::from_secs_f64", "std::time::Duration::from_secs_f32", "std::time::Duration::mul_f64",
}
PANIC_LASTSEG = {"copy_from_slice", "clone_from_slice", "split_at", "split_at_mut", "swap", "chunks", "chunks_mut", "chunks_exact",
                 "chunks_exact_mut", "rchunks", "rchunks_mut", "rchunks_exact", "rchunks_exact_mut", "windows", "step_by",
                 "copy_within", "rotate_left", "rotate_right", "swap_with_slice", "abs", "pow", "div_euclid", "rem_euclid",
                 "next_power_of_two", "ilog2", "ilog10", "isqrt"}
CONST_ARG_OK = {"chunks", "chunks_mut", "chunks_exact", "chunks_exact_mut", "rchunks", "rchunks_mut", "rchunks_exact", "rchunks_exact_mut", "windows", "step_by"}


def sink_kind_of_call(cv):
    n = cv.target or cv.short
    if n is None:
        return None
    if n in PANIC_CALL_EXACT:
        return lastseg(n)
    ls = lastseg(n)
    if ls in ("index", "index_mut") and ("ops::Index" in n):
        return ls
    if ls in ("add", "sub", "add_assign", "sub_assign") and ("std::time::Instant" in n or "std::time::SystemTime" in n or "std::time::Duration" in n):
        return "time-" + ls
    if ls in PANIC_LASTSEG and ("core::slice" in n or "core::num" in n or "std::slice" in n or "std::iter" in n or "alloc::slice" in n):
        return ls
    return None


class Sink:
    __slots__ = ("fn", "body", "block", "kind", "ops", "where", "desc", "exp")

    def __init__(self, fn, body, block, kind, ops, where, desc, exp):
        self.fn, self.body, self.block, self.kind, self.ops, self.where, self.desc, self.exp = fn, body, block, kind, ops, where, desc, exp


def collect_sinks(taint, skip_fn=lambda f: False):
    prog = taint.prog
    out = []
    for f in sorted(taint.reach):
        if skip_fn(f):
            continue
        for b in prog.by_short.get(f, ()):
            o = taint.origin(b)
            for bi, blk in enumerate(b.blocks):
                if blk["cleanup"]:
                    continue
                t = blk["term"]
                if t["k"] == "assert":
                    m = t["msg"]
                    k = m["k"]
                    if k == "Overflow":
                        ops = [o.operand(m["a"], (bi, "term")), o.operand(m["b"], (bi, "term"))]
                        out.append(Sink(f, b, bi, "Overflow:" + m["op"], ops, b.where(bi), "%s(%s, %s)" % (m["op"], show(ops[0])[:80], show(ops[1])[:80]), t.get("exp")))
                    elif k == "BoundsCheck":
                        ops = [o.operand(m["len"], (bi, "term")), o.operand(m["index"], (bi, "term"))]
                        out.append(Sink(f, b, bi, "BoundsCheck", ops, b.where(bi), "index %s < len %s" % (show(ops[1])[:80], show(ops[0])[:80]), t.get("exp")))
                    elif k in ("DivisionByZero", "RemainderByZero", "OverflowNeg"):
                        ops = [o.operand(m["a"], (bi, "term"))]
                        out.append(Sink(f, b, bi, k, ops, b.where(bi), "%s(%s)" % (k, show(ops[0])[:80]), t.get("exp")))
                elif t["k"] == "call":
                    cv = CalleeView(t["callee"])
                    kind = sink_kind_of_call(cv)
                    if kind:
                        ops = o.call_args(bi)
                        out.append(Sink(f, b, bi, "call:" + kind, ops, b.where(bi), "%s(%s)" % (lastseg(cv.target or cv.short), ", ".join(show(a)[:70] for a in ops)), t.get("exp")))
    return out


def canon_key(e):
    """stable textual key of an operand (call sites erased, truncated)"""
    return show(nosite(e))[:140]


# ------------------------------------------------------------------------------------ guards
def _same(a, b):
    return nosite(core(a)) == nosite(core(b))


def guarded_sub(sink, taint):
    """Sub(a,b) is safe when every path carries a >= b"""
    a, b = sink.ops
    body = sink.body
    o = taint.origin(body)
    dnf = conditions(body, sink.block, origin=o, relevant=lambda at: at[0] == "bin" and at[1] in ("Lt", "Le", "Gt", "Ge"))
    if not dnf:
        return False

    def lit_ok(at, v):
        x, y, op = at[2], at[3], at[1]
        if _same(x, a) and _same(y, b):
            return (op in ("Ge", "Gt") and v == 1) or (op in ("Lt",) and v == 0)
        if _same(x, b) and _same(y, a):
            return (op in ("Le", "Lt") and v == 1) or (op in ("Gt",) and v == 0)
        return False
    return all(any(lit_ok(at, v) for (at, v) in c) for c in dnf)


def guarded_index(sink, taint):
    ln, idx = sink.ops
    body = sink.body
    o = taint.origin(body)
    dnf = conditions(body, sink.block, origin=o, relevant=lambda at: at[0] == "bin" and at[1] in ("Lt", "Le", "Gt", "Ge"))
    if not dnf:
        return False

    def lit_ok(at, v):
        x, y, op = at[2], at[3], at[1]
        if _same(x, idx) and _same(y, ln):
            return (op == "Lt" and v == 1) or (op == "Ge" and v == 0)
        if _same(x, ln) and _same(y, idx):
            return (op == "Gt" and v == 1) or (op == "Le" and v == 0)
        return False
    return all(any(lit_ok(at, v) for (at, v) in c) for c in dnf)


def guarded_unwrap(sink, taint):
    """unwrap/expect on x is safe when every path carries is_some(x)/is_ok(x) or discr(x) == Some/Ok"""
    x = sink.ops[0]
    body = sink.body
    o = taint.origin(body)

    def rel(at):
        if at[0] == "call" and lastseg(at[1]) in ("is_some", "is_ok", "is_none", "is_err"):
            return True
        if at[0] == "discr":
            return True
        return False
    dnf = conditions(body, sink.block, origin=o, relevant=rel)
    if not dnf:
        return False

    def lit_ok(at, v):
        if at[0] == "call" and at[2] and _same(at[2][0], x):
            ls = lastseg(at[1])
            return (ls in ("is_some", "is_ok") and v == 1) or (ls in ("is_none", "is_err") and v == 0)
        if at[0] == "discr" and _same(at[1], x):
            return (v == 1 and "Option" in sink.desc) or False
        return False
    return all(any(lit_ok(at, v) for (at, v) in c) for c in dnf)
