"""E6 — length algebra over origin expressions.

Abstract lengths:
  ('LenOf', X)                 number of elements of collection X (origin expr, call sites erased)
  ('Const', n)
  ('Sum', (a, b, ...))
  ('CountFiltered', L, pred)   number of elements of a collection of length L satisfying pred
  ('Unknown', why)
pred is a canonical predicate descriptor (see closure_pred).
Indices:
  ('EnumIdx', L)   field 0 of the item of Enumerate<..>::next over an iterator of abstract length L
"""
from .origin import Origin, nosite, strip, core, show, is_const
from .mir import norm


LENGTH_CHANGING = {"filter_map", "take", "skip", "step_by", "flat_map", "flatten", "take_while", "skip_while",
                   "zip", "chunks", "chunks_exact", "windows", "split", "lines", "dedup", "map_while", "scan", "fuse",
                   "cycle", "filter"}


KNOWN_ADAPTORS = {"iter", "iter_mut", "into_iter", "drain", "enumerate", "map", "inspect", "rev", "by_ref", "cloned", "copied", "peekable", "chain", "filter",
                  "take_while", "encode_utf16"}


LOCAL_ROOTS = ("linux", "mem_writer", "dir_section", "serializers", "minidump_format", "minidump_cpu", "error_list", "errors", "mac", "windows")
_LOCAL_RE = __import__("re").compile(r"(^|<|&| as |impl |mut )(%s)::" % "|".join(LOCAL_ROOTS))


def _is_std(name):
    """not a function of THIS crate (std, core, alloc or another dependency)"""
    return not _LOCAL_RE.search(name)


def last(name):
    from .names import stdseg
    return stdseg(name)


def alen_iter(e, prog):
    """abstract number of items an iterator / iterable origin expression yields"""
    e = strip(e)
    if e[0] == "call":
        name, args = e[1], e[2]
        l = last(name)
        if not _is_std(name) and name.split("::")[-1] in KNOWN_ADAPTORS:
            # a function of THIS crate that merely carries the name of a std adaptor (an extension trait's `iter`, a wrapper's `take`) yields
            # whatever it likes
            return ("Unknown", "%s is not the std function of that name" % name)
        if l in ("iter", "iter_mut", "into_iter", "drain") and args:
            return alen_coll(args[0], prog)
        if l in ("enumerate", "map", "inspect", "rev", "by_ref", "cloned", "copied", "peekable") and args:
            return alen_iter(args[0], prog)
        if l == "chain" and len(args) == 2:
            return sum_len([alen_iter(args[0], prog), alen_iter(args[1], prog)])
        if l == "filter" and len(args) == 2:
            return ("CountFiltered", alen_iter(args[0], prog), closure_pred(args[1], prog))
        if l == "take_while" and len(args) == 2:
            # the leading run only: at most the filtered count, and less as soon as a rejected element precedes an accepted one
            return ("CountLeadingRun", alen_iter(args[0], prog), closure_pred(args[1], prog))
        if l in LENGTH_CHANGING:
            return ("Unknown", "length-changing adaptor %s" % name)
        if l in ("encode_utf16",):
            return ("LenOf", ("utf16", args[0]))
    # a collection used as IntoIterator (into_iter is transparent in origin)
    return alen_coll(e, prog)


def alen_coll(e, prog):
    e = strip(e)
    if e[0] == "call":
        name, args = e[1], e[2]
        l = last(name)
        if l in ("to_ne_bytes", "to_le_bytes", "to_be_bytes") and args:
            return ("SizeOfVal", nosite(args[0]))
    if e[0] == "array":
        return ("Const", len(e[1]))
    # call-site identities are kept: two different `Vec::new()` are different collections
    return ("LenOf", e)


def alen(e, prog):
    """abstract value of a usize expression that is meant to be a length"""
    e = core(e)
    if e[0] == "const" and isinstance(e[1], int):
        return ("Const", e[1])
    if e[0] == "len":
        return alen_coll(e[1], prog)
    if e[0] == "call":
        name, args = e[1], e[2]
        l = last(name)
        if l == "len" and args:
            # ExactSizeIterator::len on an iterator vs len() of a collection
            a0 = strip(args[0])
            if "ExactSizeIterator" in name or (a0[0] == "call" and last(a0[1]) in (
                    "iter", "map", "enumerate", "into_iter", "chain", "filter")):
                return alen_iter(a0, prog)
            return alen_coll(a0, prog)
        if l == "count" and args:
            return alen_iter(args[0], prog)
        if l in ("size_of_val",) and args:
            return ("SizeOfVal", nosite(args[0]))
    if e[0] == "bin" and e[1] in ("Add", "AddUnchecked"):
        return sum_len([alen(e[2], prog), alen(e[3], prog)])
    return ("Unknown", show(e)[:80])


def sum_len(parts):
    flat = []
    for p in parts:
        if p[0] == "Sum":
            flat.extend(p[1])
        else:
            flat.append(p)
    return ("Sum", tuple(sorted(flat, key=repr)))


def closure_pred(e, prog):
    """canonical descriptor of a predicate closure: the origin of its return value with the
    element parameter abstracted"""
    e = strip(e)
    if e[0] != "closure":
        return ("opaque", nosite(e))
    bodies = prog.by_short.get(e[1])
    if not bodies:
        return ("opaque", e[1])
    b = bodies[0]
    o = Origin(b)
    outs = set()
    for bi, blk in enumerate(b.blocks):
        if blk["term"]["k"] == "return":
            outs.add(nosite(o.place({"l": 0, "proj": []}, (bi, "term"))))
    if e[2]:
        # captures make the predicate depend on the environment: keep identity of the closure
        return ("closure_with_captures", e[1], tuple(nosite(c) for c in e[2]))
    return ("pred", frozenset(outs))


def index_form(e, prog):
    """classify an index origin expression"""
    e0 = strip(e)
    # some(next(ITER)).0  — field "0" of tuple item of Enumerate
    if e0[0] == "field" and e0[2] == "0":
        inner = e0[1]
        if inner[0] == "some":
            nx = strip(inner[1])
            if nx[0] == "call" and last(nx[1]) == "next" and nx[2]:
                it = strip(nx[2][0])
                if it[0] == "call" and last(it[1]) == "enumerate":
                    return ("EnumIdx", alen_iter(it[2][0], prog))
    if e0[0] == "const" and isinstance(e0[1], int):
        return ("ConstIdx", e0[1])
    return ("UnknownIdx", show(e0)[:120])


def show_len(l):
    k = l[0]
    if k == "LenOf":
        return "len(%s)" % show(l[1])
    if k == "Const":
        return str(l[1])
    if k == "Sum":
        return " + ".join(show_len(x) for x in l[1])
    if k == "CountFiltered":
        return "count{x in %s | %s}" % (show_len(l[1]), show_pred(l[2]))
    if k == "CountLeadingRun":
        return "leading-run{x in %s | %s}" % (show_len(l[1]), show_pred(l[2]))
    if k == "SizeOfVal":
        return "size_of_val(%s)" % show(l[1])
    return "%s(%s)" % (k, l[1] if len(l) > 1 else "")


def show_pred(p):
    if p[0] == "pred":
        return " | ".join(sorted(show(x) for x in p[1]))
    return str(p[:2])
