"""E2 — provenance engine: canonical origin expressions of MIR operands.

An origin expression is a nested, hashable tuple describing where a value comes
from in terms of parameters, constants, field reads, calls and operators.  It is
computed by a backward walk over reaching definitions (field-sensitive for
partial assignments).  References/derefs are transparent (the expression names
the referenced value).  Nothing is evaluated except constant folding.
"""
from .mir import CalleeView, norm
import sys
sys.setrecursionlimit(20000)

MASK = {8: 0xFF, 16: 0xFFFF, 32: 0xFFFFFFFF, 64: (1 << 64) - 1, 128: (1 << 128) - 1}
INT_BITS = {"u8": 8, "u16": 16, "u32": 32, "u64": 64, "u128": 128, "usize": 64,
            "i8": 8, "i16": 16, "i32": 32, "i64": 64, "i128": 128, "isize": 64, "bool": 8, "char": 32}

# calls whose result is (a view of / a copy of / a checked conversion of) argument 0
TRANSPARENT = {
    "std::ops::Deref::deref", "std::ops::DerefMut::deref_mut", "std::clone::Clone::clone",
    "std::convert::AsRef::as_ref", "std::borrow::Borrow::borrow", "std::convert::AsMut::as_mut",
    "std::option::Option::as_ref", "std::option::Option::as_deref", "std::option::Option::as_mut",
    "std::option::Option::cloned", "std::option::Option::copied",
    "std::vec::Vec::as_slice", "std::vec::Vec::as_mut_slice", "std::string::String::as_str",
    "std::string::String::as_bytes", "core::str::<impl str>::as_bytes", "std::borrow::ToOwned::to_owned",
    "core::slice::<impl [T]>::to_vec", "alloc::slice::<impl [T]>::to_vec", "std::slice::<impl [T]>::to_vec",
    "std::iter::IntoIterator::into_iter", "std::borrow::BorrowMut::borrow_mut",
    "std::convert::identity", "std::path::Path::new", "std::ffi::OsStr::new",
}
# value conversions kept as ('conv', x): same mathematical value when it succeeds
CONVERSIONS = {"std::convert::Into::into", "std::convert::From::from", "std::convert::TryInto::try_into",
               "std::convert::TryFrom::try_from"}


def is_const(e):
    return isinstance(e, tuple) and e and e[0] == "const"


class Origin:
    def __init__(self, body, prog=None, max_depth=220):
        self.b = body
        self.prog = prog or body.prog
        self.max_depth = max_depth
        self._memo = {}
        self.phi_sites = {}  # phi expression -> {(defining block | None, alternative)}
        self._active = set()
        self._loop_hits = 0

    # ------------------------------------------------------------ public
    def operand(self, op, at):
        """at = (block, stmt_index | 'term'): the program point of the *use*."""
        k = op["k"]
        if k in ("copy", "move"):
            return self.place(op["p"], at)
        return self.const(op)

    def const(self, op):
        if "fn" in op:
            return ("fn", norm(op["fn"]))
        if "v" in op:
            return ("const", op["v"] if "sv" not in op else op["sv"], op["ty"])
        if "str" in op:
            return ("str", op["str"])
        if "pv" in op and op["ty"].startswith("&") and not op["ty"].startswith("&[") and "str" not in op["ty"]:
            # reference to a small constant (promoted `&CONST`): the pointee's little-endian value
            return ("const", op["pv"], op["ty"].lstrip("&").strip())
        if "bytes" in op:
            return ("str", op["bytes"])
        if op["ty"] == "()":
            return ("unit",)
        if "named" in op:
            return ("named", norm(op["named"]), op["ty"])
        return ("constof", op["ty"])

    def place(self, p, at, depth=0):
        # derefs are transparent (an expression names the referenced value), so they are dropped
        path = tuple(k for k in (self._proj_key(e, at, depth) for e in p["proj"]) if k[0] != "deref")
        return self._resolve(p["l"], path, at, depth)

    # ------------------------------------------------------------ internals
    def _proj_key(self, e, at, depth):
        k = e["k"]
        if k == "deref":
            return ("deref",)
        if k == "field":
            return ("field", e["n"])
        if k == "downcast":
            return ("variant", e["n"])
        if k == "index":
            return ("index", self._resolve(e["l"], (), at, depth + 1))
        if k == "cindex":
            return ("index", ("const", -e["off"] if e["from_end"] else e["off"], "usize"))
        if k == "subslice":
            return ("subslice", e["from"], e["to"], e["from_end"])
        return (k,)

    def _apply_path(self, base, path):
        e = base
        for p in path:
            e = self._apply(e, p)
        return e

    def _apply(self, e, p):
        k = p[0]
        if k == "deref":
            return e  # refs are transparent
        if k == "field":
            name = p[1]
            # field of a known aggregate
            if e[0] == "agg":
                for fn, fe in e[3]:
                    if fn == name:
                        return fe
            if e[0] == "tuple" and name.isdigit() and int(name) < len(e[1]):
                return e[1][int(name)]
            if e[0] == "upd":
                # ('upd', base, path, value)
                upath = e[2]
                if upath and upath[0] == p:
                    if len(upath) == 1:
                        return e[3]
                    return ("upd", self._apply(e[1], p), upath[1:], e[3])
                return self._apply(e[1], p)
            if e[0] == "bin" and e[1].endswith("WithOverflow"):
                base = e[1][: -len("WithOverflow")]
                if name == "0":
                    return fold(("bin", base, e[2], e[3], e[4] if len(e) > 4 else None))
                return ("ovf", base, e[2], e[3])
            if e[0] == "variant":
                # payload of enum variant
                inner, vname = e[1], e[2]
                if inner[0] == "agg" and inner[2] == vname:
                    for fn, fe in inner[3]:
                        if fn == name:
                            return fe
                if inner[0] == "try" and vname == "Continue" and name == "0":
                    return ("okval", inner[1])
                if inner[0] == "try" and vname == "Break" and name == "0":
                    return ("residual", inner[1])
                if vname == "Some" and name == "0":
                    return ("some", inner)
                if vname == "Ok" and name == "0":
                    return ("okval", inner)
                if vname == "Err" and name == "0":
                    return ("errval", inner)
            return ("field", e, name)
        if k == "variant":
            return ("variant", e, p[1])
        if k == "index":
            if e[0] == "array" and is_const(p[1]) and 0 <= p[1][1] < len(e[1]):
                return e[1][p[1][1]]
            return ("index", e, p[1])
        if k == "subslice":
            return ("subslice", e, p[1], p[2], p[3])
        return ("proj", e, k)

    def _resolve(self, local, path, at, depth):
        key = (local, path, at)
        if key in self._memo:
            v = self._memo[key]
            if v[0] == "loop" and key in self._active:
                self._loop_hits += 1
            return v
        if depth > self.max_depth:
            return ("deep", local)
        self._memo[key] = ("loop", local)  # recursion guard (loop-carried value)
        self._active.add(key)
        hits0 = self._loop_hits
        res = self._resolve_uncached(local, path, at, depth)
        self._active.discard(key)
        if self._loop_hits != hits0 and self._active:
            # the value was computed while an enclosing query was in progress and refers to it through a
            # loop placeholder: it is context dependent, so it must not be cached
            del self._memo[key]
        else:
            self._memo[key] = res
        return res

    def _resolve_uncached(self, local, path, at, depth):
        b = self.b
        defs = self._reaching(local, path, at)
        outs = []
        for d in defs:
            kind = d[0]
            if kind == "param":
                outs.append(self._apply_path(("param", local), path))
            elif kind == "uninit":
                outs.append(("uninit", local))
            elif kind == "full":
                _, bi, si, st = d
                val = self._rvalue(st["r"], (bi, si), depth + 1)
                outs.append(self._apply_path(val, path))
            elif kind == "call":
                _, bi, t = d
                val = self._call(t, bi, depth + 1)
                outs.append(self._apply_path(val, path))
            elif kind == "partial":
                # ('partial', bi, si, st, qpath, rest): assignment to local.qpath, we want local.path
                _, bi, si, st, q = d
                if st["k"] == "setdiscr":
                    outs.append(("setdiscr", st["v"]))
                    continue
                val = self._rvalue(st["r"], (bi, si), depth + 1)
                if len(q) <= len(path):
                    outs.append(self._apply_path(val, path[len(q):]))
                else:
                    # reading an enclosing place after an inner field was updated
                    base = self._resolve(local, path, (bi, si), depth + 1)
                    outs.append(("upd", base, q[len(path):], val))
            elif kind == "callpartial":
                _, bi, t, q = d
                val = self._call(t, bi, depth + 1)
                if len(q) <= len(path):
                    outs.append(self._apply_path(val, path[len(q):]))
                else:
                    base = self._resolve(local, path, (bi, "term"), depth + 1)
                    outs.append(("upd", base, q[len(path):], val))
        sites = [(d[1] if d[0] in ("full", "call", "partial", "callpartial") else None) for d in defs]
        pairs = list(zip(sites, outs)) if len(sites) == len(outs) else []
        outs = list(dict.fromkeys(outs))
        if not outs:
            return ("undef", local)
        if len(outs) == 1:
            return outs[0]
        phi = ("phi", frozenset(outs))
        if pairs:
            self.phi_sites.setdefault(phi, set()).update(pairs)
        return phi

    def _reaching(self, local, path, at):
        """Backward search for the definitions of local(.path) reaching program point `at`."""
        b = self.b
        res = []
        seen = set()
        bi0, si0 = at
        work = [(bi0, si0, True)]
        # statement-level filter for path: strip derefs for comparison
        want = tuple(p for p in path if p[0] != "deref")

        def related(q):
            qq = tuple(x for x in q if x[0] != "deref")
            n = min(len(qq), len(want))
            return qq[:n] == want[:n], qq

        while work:
            bi, si, first = work.pop()
            blk = b.blocks[bi]
            stmts = blk["stmts"]
            if si == "term":
                idx = len(stmts) - 1
            elif si == "after_term":
                idx = len(stmts) - 1
            else:
                idx = si - 1
            stopped = False
            while idx >= 0:
                st = stmts[idx]
                if st["k"] == "assign" and st["p"]["l"] == local:
                    q = tuple(self._proj_key(e, (bi, idx), 0) for e in st["p"]["proj"])
                    if not q:
                        res.append(("full", bi, idx, st))
                        stopped = True
                        break
                    # a store through a deref of a pointer local (*_x).f = v : local is a pointer
                    rel, qq = related(q)
                    if rel:
                        # either a definition of (a prefix of) the wanted place, or an overlay on it whose
                        # base value is resolved recursively from this point: stop this path in both cases
                        res.append(("partial", bi, idx, st, qq))
                        stopped = True
                        break
                elif st["k"] == "setdiscr" and st["p"]["l"] == local and not want:
                    res.append(("partial", bi, idx, st, ()))
                idx -= 1
            if stopped:
                continue
            # go to predecessors
            if bi == 0:
                if 1 <= local <= b.argc:
                    res.append(("param",))
                else:
                    res.append(("uninit",))
            for p in b.preds.get(bi, ()):
                t = b.blocks[p]["term"]
                # definition by the call terminator on the normal-return edge
                if t["k"] == "call" and t["dest"]["l"] == local and t.get("t") == bi:
                    q = tuple(self._proj_key(e, (p, "term"), 0) for e in t["dest"]["proj"])
                    if not q:
                        res.append(("call", p, t))
                        continue
                    rel, qq = related(q)
                    if rel:
                        res.append(("callpartial", p, t, qq))
                        continue
                if (p, local) in seen:
                    continue
                seen.add((p, local))
                work.append((p, "after_term", False))
        # dedupe uninit when other defs exist (e.g. cleanup paths)
        real = [r for r in res if r[0] != "uninit"]
        return real if real else res[:1]

    def _rvalue(self, r, at, depth):
        k = r["k"]
        if k == "use":
            o = r["o"]
            if o["k"] in ("copy", "move"):
                return self.place(o["p"], at, depth)
            return self.const(o)
        if k in ("ref", "rawptr"):
            return self.place(r["p"], at, depth)
        if k == "cast":
            inner = self._op(r["o"], at, depth)
            ck = r["ck"]
            if ck in ("PtrToPtr", "PointerCoercion", "Transmute", "Subtype") :
                if ck == "Transmute":
                    return ("transmute", inner, r["ty"])
                return inner
            return fold(("cast", inner, r["from"], r["ty"]))
        if k == "binop":
            return fold(("bin", r["op"], self._op(r["a"], at, depth), self._op(r["b"], at, depth), r.get("ty")))
        if k == "unop":
            if r["op"] == "PtrMetadata":
                return ("len", self._op(r["o"], at, depth))
            return fold(("un", r["op"], self._op(r["o"], at, depth)))
        if k == "discr":
            return ("discr", self.place(r["p"], at, depth))
        if k == "agg":
            ak = r["ak"]
            ops = tuple(self._op(o, at, depth) for o in r["ops"])
            if ak == "adt":
                fs = r.get("fields") or []
                if len(fs) != len(ops):
                    fs = [str(i) for i in range(len(ops))]
                return ("agg", norm(r["adt"]), r["vname"], tuple(zip(fs, ops)))
            if ak == "tuple":
                return ("tuple", ops) if ops else ("unit",)
            if ak == "array":
                return ("array", ops)
            if ak == "closure":
                return ("closure", norm(r["closure"]), ops)
            return ("aggother", ak, ops)
        if k == "repeat":
            return ("repeat", self._op(r["o"], at, depth), r["n"])
        if k == "tlref":
            return ("tls", r["def"])
        return ("other", r.get("dbg", "")[:40])

    def _op(self, o, at, depth):
        if o["k"] in ("copy", "move"):
            return self.place(o["p"], at, depth)
        return self.const(o)

    def call_expr(self, bi):
        """origin expression of the value produced by the call terminating block bi"""
        return self._call(self.b.blocks[bi]["term"], bi, 0)

    def call_args(self, bi):
        t = self.b.blocks[bi]["term"]
        return [self._op(a, (bi, "term"), 0) for a in t["args"]]

    def _call(self, t, bi, depth):
        cv = CalleeView(t["callee"])
        args = tuple(self._op(a, (bi, "term"), depth) for a in t["args"])
        if cv.indirect:
            return ("icall", self._op(t["callee"]["op"], (bi, "term"), depth), args, (self.b.short, bi))
        name = cv.short
        if name in TRANSPARENT or (cv.resolved in TRANSPARENT):
            return args[0] if args else ("unit",)
        if name in CONVERSIONS:
            return ("conv", args[0], cv.targs[0] if name.endswith("from") or name.endswith("try_from") else (cv.targs[1] if len(cv.targs) > 1 else "?"))
        if name == "std::ops::Try::branch":
            return ("try", args[0])
        if name == "std::ops::FromResidual::from_residual":
            return ("fromresidual", args[0])
        tgt = cv.target
        if "layout_value" in t["callee"]:
            return ("const", t["callee"]["layout_value"], "usize")
        if name in ("std::mem::size_of", "core::mem::size_of", "std::mem::align_of") and cv.targs and cv.targs[0] in INT_BITS:
            return ("const", INT_BITS[cv.targs[0]] // 8, "usize")
        return ("call", tgt, args, (self.b.short, bi))


def _tobits(v, ty):
    bits = INT_BITS.get(ty)
    if bits is None:
        return None
    return v & MASK[bits]


def _fromraw(raw, ty):
    bits = INT_BITS.get(ty)
    if bits is None:
        return raw
    raw &= MASK[bits]
    if ty.startswith("i") and raw >> (bits - 1):
        return raw - (1 << bits)
    return raw


def fold(e):
    """constant folding for bin/un/cast on constants (wrapping semantics noted by 'ovf' separately)"""
    k = e[0]
    if k == "bin":
        op, a, b = e[1], e[2], e[3]
        ty = e[4] if len(e) > 4 else None
        if is_const(a) and is_const(b) and isinstance(a[1], int) and isinstance(b[1], int):
            x, y = a[1], b[1]
            rty = a[2]
            try:
                if op in ("Add", "AddUnchecked"):
                    return ("const", _fromraw(x + y, rty), rty)
                if op in ("Sub", "SubUnchecked"):
                    return ("const", _fromraw(x - y, rty), rty)
                if op in ("Mul", "MulUnchecked"):
                    return ("const", _fromraw(x * y, rty), rty)
                if op == "Div" and y:
                    return ("const", _fromraw(int(x / y) if (x < 0) != (y < 0) else x // y, rty), rty)
                if op == "Rem" and y:
                    return ("const", _fromraw(x - y * int(x / y), rty), rty)
                if op == "BitAnd":
                    return ("const", _fromraw(_tobits(x, rty) & _tobits(y, rty), rty), rty)
                if op == "BitOr":
                    return ("const", _fromraw(_tobits(x, rty) | _tobits(y, rty), rty), rty)
                if op == "BitXor":
                    return ("const", _fromraw(_tobits(x, rty) ^ _tobits(y, rty), rty), rty)
                if op in ("Shl", "ShlUnchecked"):
                    return ("const", _fromraw(_tobits(x, rty) << y, rty), rty)
                if op in ("Shr", "ShrUnchecked"):
                    return ("const", _fromraw(x >> y, rty), rty)
                if op in ("Eq", "Ne", "Lt", "Le", "Gt", "Ge"):
                    r = {"Eq": x == y, "Ne": x != y, "Lt": x < y, "Le": x <= y, "Gt": x > y, "Ge": x >= y}[op]
                    return ("const", int(r), "bool")
            except Exception:
                pass
        return ("bin", op, a, b) if ty is None else ("bin", op, a, b, ty)
    if k == "un":
        op, a = e[1], e[2]
        if is_const(a) and isinstance(a[1], int):
            if op == "Not":
                if a[2] == "bool":
                    return ("const", 1 - a[1], "bool")
                bits = INT_BITS.get(a[2])
                if bits:
                    return ("const", _fromraw(~_tobits(a[1], a[2]), a[2]), a[2])
            if op == "Neg":
                return ("const", _fromraw(-a[1], a[2]), a[2])
        return e
    if k == "cast":
        a, fr, to = e[1], e[2], e[3]
        if is_const(a) and isinstance(a[1], int) and to in INT_BITS:
            return ("const", _fromraw(a[1], to), to)
        return e
    return e


# ---------------------------------------------------------------- expression utilities
def walk(e):
    """pre-order traversal of all sub-expressions (tuples whose head is a KINDS tag)"""
    if isinstance(e, tuple):
        if e and isinstance(e[0], str) and e[0] in KINDS:
            yield e
            if e[0] == "upd":
                yield from walk(e[1])
                yield from walk(e[3])
                return
            if e[0] in ("call", "icall"):
                if isinstance(e[1], tuple):
                    yield from walk(e[1])
                for a in e[2]:
                    yield from walk(a)
                return
            for x in e[1:]:
                yield from walk(x)
        else:
            for x in e:
                yield from walk(x)
    elif isinstance(e, frozenset):
        for x in e:
            yield from walk(x)


KINDS = {"param", "const", "str", "fn", "unit", "named", "constof", "field", "variant", "index", "subslice",
         "call", "icall", "bin", "un", "cast", "discr", "len", "agg", "tuple", "array", "closure", "phi", "loop",
         "upd", "try", "okval", "residual", "some", "errval", "conv", "ovf", "transmute", "repeat", "undef",
         "uninit", "deep", "other", "fromresidual", "setdiscr", "proj", "aggother", "tls"}


def root(e):
    """identity of the object an expression denotes, looking through field updates and agreeing phis"""
    while isinstance(e, tuple) and e:
        if e[0] == "upd":
            e = e[1]
        elif e[0] == "phi":
            rs = {root(x) for x in e[1]}
            if len(rs) == 1:
                return list(rs)[0]
            return e
        else:
            return e
    return e


def alts(e):
    """alternatives of a phi (or the expression itself)"""
    e = strip(e)
    if e[0] == "phi":
        out = []
        for x in e[1]:
            out.extend(alts(x))
        return out
    return [e]


def unupd(e):
    """base value under field updates"""
    e = strip(e)
    while e[0] == "upd":
        e = strip(e[1])
    return e


def field_of(e, name):
    """value of field `name` of a struct-valued origin expression, honouring updates; None if unknown"""
    e = strip(e)
    if e[0] == "upd":
        if e[2] and e[2][0] == ("field", name):
            if len(e[2]) == 1:
                return e[3]
            base = field_of(e[1], name)
            return ("upd", base, e[2][1:], e[3]) if base is not None else None
        return field_of(e[1], name)
    if e[0] == "agg":
        return dict(e[3]).get(name)
    if e[0] == "phi":
        # a join of struct values: the field is the join of the alternatives' fields (one value if they all agree)
        vals = [field_of(x, name) for x in e[1] if not (isinstance(x, tuple) and x and x[0] == "loop")]
        if vals and all(v is not None for v in vals):
            uniq = {nosite(v) for v in vals}
            return vals[0] if len(uniq) == 1 else ("phi", frozenset(vals))
    return ("field", e, name)


def strip(e):
    """remove value-preserving wrappers: okval/some/conv/cast-widening/try"""
    while isinstance(e, tuple) and e and e[0] in ("okval", "some", "conv", "try"):
        e = e[1]
    return e


def core(e):
    """strip() plus integer casts (used for relational 'same source' comparisons)"""
    while isinstance(e, tuple) and e:
        if e[0] in ("okval", "some", "conv", "try"):
            e = e[1]
        elif e[0] == "cast":
            e = e[1]
        else:
            break
    return e


def nosite(e):
    """erase call-site identities so that two calls of the same pure getter compare equal"""
    if isinstance(e, tuple):
        if e and e[0] in ("call", "icall"):
            return (e[0], nosite(e[1]) if isinstance(e[1], tuple) else e[1], tuple(nosite(a) for a in e[2]))
        return tuple(nosite(x) for x in e)
    if isinstance(e, frozenset):
        return frozenset(nosite(x) for x in e)
    return e


def calls_in(e, name_pred=None):
    for s in walk(e):
        if isinstance(s, tuple) and s and s[0] == "call":
            if name_pred is None or name_pred(s[1]):
                yield s


def leaves(e):
    """atomic sources of an expression: params, consts, calls(with args recursed), fields of params"""
    for s in walk(e):
        if isinstance(s, tuple) and s and s[0] in ("param", "const", "str", "named", "uninit", "undef", "loop", "deep"):
            yield s


def show(e, depth=0):
    """compact human-readable rendering"""
    if not isinstance(e, tuple) or not e:
        return repr(e)
    k = e[0]
    if k == "param":
        return "arg%d" % e[1]
    if k == "const":
        return "%s%s" % (e[1], e[2])
    if k == "str":
        return repr(e[1])
    if k == "field":
        return "%s.%s" % (show(e[1]), e[2])
    if k == "variant":
        return "(%s as %s)" % (show(e[1]), e[2])
    if k == "index":
        return "%s[%s]" % (show(e[1]), show(e[2]))
    if k == "call":
        return "%s(%s)@bb%s" % (e[1].split("::")[-1] if depth else e[1], ", ".join(show(a, 1) for a in e[2]), e[3][1] if len(e) > 3 else "?")
    if k == "bin":
        return "%s(%s, %s)" % (e[1], show(e[2], 1), show(e[3], 1))
    if k == "un":
        return "%s(%s)" % (e[1], show(e[2], 1))
    if k == "cast":
        return "(%s as %s)" % (show(e[1], 1), e[3])
    if k in ("okval", "some", "try", "conv", "discr", "len", "residual", "errval", "fromresidual"):
        return "%s(%s)" % (k, show(e[1], 1))
    if k == "agg":
        return "%s::%s{%s}" % (e[1].split("::")[-1], e[2], ", ".join("%s: %s" % (f, show(x, 1)) for f, x in e[3]))
    if k == "tuple":
        return "(%s)" % ", ".join(show(x, 1) for x in e[1])
    if k == "phi":
        return "phi{%s}" % " | ".join(sorted(show(x, 1) for x in e[1]))
    if k == "upd":
        return "%s{%s := %s}" % (show(e[1], 1), ".".join(str(p[1]) if len(p) > 1 else p[0] for p in e[2]), show(e[3], 1))
    if k == "closure":
        return "closure(%s)" % e[1]
    if k == "fn":
        return "fn(%s)" % e[1]
    return "%s(%s)" % (k, ", ".join(show(x, 1) if isinstance(x, tuple) else str(x) for x in e[1:]))
