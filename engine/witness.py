"""E8 — compile-fail witnesses: `cargo +nightly test --doc` in /verif/witnesses against the current /repo."""
import os, re, shutil, tempfile
from . import run as R

VERIF = os.path.dirname(os.path.dirname(os.path.abspath(__file__)))


def run(ctx, prop):
    wdir = os.path.join(VERIF, "witnesses")
    tmp = tempfile.mkdtemp(prefix="mdwwit.")
    try:
        work = os.path.join(tmp, "w")
        shutil.copytree(wdir, work, ignore=shutil.ignore_patterns("target", "Cargo.lock"))
        # path-dependency on the repo under analysis
        ct = open(os.path.join(work, "Cargo.toml")).read().replace('path = "/repo"', 'path = "%s"' % ctx.repo)
        open(os.path.join(work, "Cargo.toml"), "w").write(ct)
        lock = os.path.join(ctx.repo, "Cargo.lock")
        if os.path.exists(lock):
            shutil.copy(lock, os.path.join(work, "Cargo.lock"))
        env = R.base_env()
        env["CARGO_TARGET_DIR"] = os.path.join(tmp, "target")
        r = R.sh(["cargo", "+nightly", "test", "--doc", "--offline"], cwd=work, env=env)
        out = r.stdout
        tests = re.findall(r"test (src/lib\.rs - \S+ \(line \d+\)(?: - compile fail| - compile)?) \.\.\. (\w+)", out)
        n_cf = sum(1 for t, v in tests if "compile fail" in t)
        n_tw = len(tests) - n_cf
        rule = "%s/witness" % prop
        if r.returncode != 0 or not tests:
            ctx.violated(rule, "doctests", None, "compile-fail witnesses or their twins failed:\n" + out[-1500:])
        for t, v in tests:
            ctx.check(v == "ok", rule, t.replace("src/lib.rs - ", ""), "witnesses/src/lib.rs",
                      "witness holds" if "compile fail" in t else "compiling twin builds", "witness/twin result: %s" % v, nontrivial="compile fail" in t)
        ctx.floor(rule, "compile_fail witnesses", n_cf, 10)
        ctx.floor(rule, "compiling twins", n_tw, 8)
        return {"witnesses": {"compile_fail": n_cf, "twins": n_tw}}
    finally:
        shutil.rmtree(tmp, ignore_errors=True)
