"""Rule context: collects rule-instance verdicts, floors, samples; applies known findings."""
import json, os, time
from .mir import AnchorMissing

VERIF = os.path.dirname(os.path.dirname(os.path.abspath(__file__)))


class Ctx:
    def __init__(self, prog, prop, tier, prog_test=None, repo="/repo"):
        self.prog = prog
        self.prog_test = prog_test
        self.prop = prop
        self.tier = tier
        self.repo = repo
        self.results = []      # dicts
        self.analysed = {}
        self.notes = []
        self.config = "prod"

    # ---- verdicts
    def _add(self, verdict, rule, key, where, msg, nontrivial, detail):
        if isinstance(key, (tuple, list)):
            key = "|".join(str(k) for k in key)
        rec = {"rule": rule, "key": "%s|%s" % (rule, key), "verdict": verdict, "where": where, "msg": msg,
               "nontrivial": bool(nontrivial), "config": self.config}
        if detail is not None:
            rec["detail"] = detail
        self.results.append(rec)
        return rec

    def ok(self, rule, key, where=None, msg="", nontrivial=True, detail=None):
        return self._add("ok", rule, key, where, msg, nontrivial, detail)

    def violated(self, rule, key, where, msg, detail=None):
        return self._add("violated", rule, key, where, msg, True, detail)

    def unproven(self, rule, key, where, msg, detail=None):
        return self._add("unproven", rule, key, where, msg, True, detail)

    def check(self, cond, rule, key, where, msg_ok, msg_bad, detail=None, nontrivial=True, unproven=False):
        if cond:
            return self.ok(rule, key, where, msg_ok, nontrivial, detail)
        if unproven:
            return self.unproven(rule, key, where, msg_bad, detail)
        return self.violated(rule, key, where, msg_bad, detail)

    def floor(self, rule, what, count, minimum):
        """fail closed when a rule matches fewer anchored instances than were confirmed by hand"""
        if count < minimum:
            self.violated(rule, ("floor", what), None,
                          "anchor lost: %s — found %d instance(s), reviewed floor is %d" % (what, count, minimum))
        else:
            self.ok(rule, ("floor", what), None, "%s: %d instance(s) (floor %d)" % (what, count, minimum), nontrivial=False)

    def anchor(self, rule, fn):
        """run fn(); a missing anchor becomes a fail-closed violation of `rule`"""
        try:
            return fn()
        except AnchorMissing as e:
            self.violated(rule, ("anchor", str(e)), None, "anchor missing: %s" % e)
            return None

    def body(self, rule, suffix):
        try:
            return self.prog.body(suffix)
        except AnchorMissing as e:
            self.violated(rule, ("anchor", suffix), None, "anchor missing: %s" % e)
            return None


def load_known():
    p = os.path.join(VERIF, "known_findings.json")
    if not os.path.exists(p):
        return {"findings": [], "fixed": []}
    with open(p) as f:
        return json.load(f)
