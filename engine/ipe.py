"""E4 — interval-predicate evaluation.

A predicate that touches its subject only through comparisons against constants / symbolic
bounds is piecewise constant over the order types of the subject relative to those bounds.
We evaluate the *predicate expression* (a DNF of branch literals over origin expressions, not
the program) on one representative per order type — every constant c contributes c-1, c, c+1 in
both the unsigned and the two's-complement reading, plus the type extremes — and compare the
resulting truth set with the specification's.  Anything outside the comparison/arithmetic
fragment raises Unsupported and the rule reports `unproven`.
"""
from .origin import walk, strip, core, is_const, show, INT_BITS

M64 = (1 << 64) - 1


class Unsupported(Exception):
    pass


def signed(v, bits=64):
    v &= (1 << bits) - 1
    return v - (1 << bits) if v >> (bits - 1) else v


def is_signed_ty(ty):
    return isinstance(ty, str) and ty.startswith("i")


def bits_of(ty):
    return INT_BITS.get(ty, 64)


def range_of(e):
    """(lo, hi, inclusive) for a Range / RangeInclusive valued origin expression, else None"""
    e = strip(e)
    if e[0] == "agg" and e[1].endswith("ops::Range"):
        d = dict(e[3])
        return d["start"], d["end"], False
    if e[0] == "call" and e[1].split("::")[-1] == "new" and "RangeInclusive" in e[1] and len(e[2]) == 2:
        return e[2][0], e[2][1], True
    if e[0] == "agg" and e[1].endswith("ops::RangeInclusive"):
        d = dict(e[3])
        return d["start"], d["end"], True
    return None


def is_cmp_atom(a):
    """comparison atoms of the interval-predicate fragment: binary comparisons and Range(Inclusive)::contains"""
    if a[0] == "bin" and a[1] in ("Lt", "Le", "Gt", "Ge", "Eq", "Ne"):
        return True
    if a[0] == "call" and a[1].split("::")[-1] == "contains" and len(a[2]) == 2 and range_of(a[2][0]) is not None:
        return True
    return False


class Eval:
    """evaluates origin expressions over an environment {leaf expr -> raw 64-bit pattern};
    `atoms` maps opaque boolean atoms (e.g. calls) to truth values supplied by the rule."""

    def __init__(self, env, opaque=None, leaf=None):
        self.env = env
        self.opaque = opaque or {}
        self.leaf = leaf

    def val(self, e):
        """returns (raw_bits, type_string)"""
        if self.leaf is not None:
            r = self.leaf(e)
            if r is not None:
                return (r & M64, "usize") if not isinstance(r, tuple) else r
        if e in self.env:
            v = self.env[e]
            return (v[0], v[1]) if isinstance(v, tuple) else (v & M64, "usize")
        k = e[0]
        if k == "const":
            ty = e[2]
            b = bits_of(ty)
            return (e[1] & ((1 << b) - 1), ty)
        if k in ("okval", "some", "conv", "try"):
            return self.val(e[1])
        if k == "cast":
            raw, fty = self.val(e[1])
            to = e[3]
            fb, tb = bits_of(fty), bits_of(to)
            if is_signed_ty(fty):
                raw = signed(raw, fb) & ((1 << max(tb, fb)) - 1)
            return (raw & ((1 << tb) - 1), to)
        if k == "call":
            nm = e[1]
            last = nm.split("::")[-1]
            if last in ("from_ne_bytes", "from_le_bytes"):
                raw, _ = self.val(e[2][0])
                ty = "isize" if "isize" in nm else ("usize" if "usize" in nm else ("i64" if "i64" in nm else "u64"))
                return (raw & M64, ty)
            if last in ("saturating_sub",):
                (a, ta), (b, tb) = self.val(e[2][0]), self.val(e[2][1])
                return (max(0, a - b), ta)
            if last in ("saturating_add",):
                (a, ta), (b, tb) = self.val(e[2][0]), self.val(e[2][1])
                return (min((1 << bits_of(ta)) - 1, a + b), ta)
            if last in ("wrapping_sub",):
                (a, ta), (b, tb) = self.val(e[2][0]), self.val(e[2][1])
                return ((a - b) & ((1 << bits_of(ta)) - 1), ta)
            if last in ("checked_add",):
                (a, ta), (b, tb) = self.val(e[2][0]), self.val(e[2][1])
                if a + b > (1 << bits_of(ta)) - 1:
                    raise Unsupported("checked_add overflow (None)")
                return (a + b, ta)
            if last in ("wrapping_abs", "abs", "unsigned_abs") and e[2]:
                (a, ta) = self.val(e[2][0])
                bits = bits_of(ta)
                sa = signed(a, bits)
                if last == "abs" and sa == -(1 << (bits - 1)):
                    raise Unsupported("abs overflow")
                r = (-sa if sa < 0 else sa) & ((1 << bits) - 1)     # wrapping_abs(MIN) == MIN (same bit pattern)
                return (r, ta if last != "unsigned_abs" else ta.replace("i", "u", 1))
            if last in ("ok_or", "ok_or_else", "unwrap_or", "unwrap"):
                return self.val(e[2][0])
            if last in ("wrapping_add",):
                (a, ta), (b, tb) = self.val(e[2][0]), self.val(e[2][1])
                return ((a + b) & ((1 << bits_of(ta)) - 1), ta)
            if last == "contains" and len(e[2]) == 2 and range_of(e[2][0]) is not None:
                lo, hi, incl = range_of(e[2][0])
                (x, tx) = self.val(e[2][1])
                (l, _), (h, _) = self.val(lo), self.val(hi)
                if is_signed_ty(tx):
                    x, l, h = signed(x, bits_of(tx)), signed(l, bits_of(tx)), signed(h, bits_of(tx))
                return (int(l <= x and (x <= h if incl else x < h)), "bool")
            if last == "max" or last == "min":
                (a, ta), (b, tb) = self.val(e[2][0]), self.val(e[2][1])
                return ((max if last == "max" else min)(a, b), ta)
            raise Unsupported("call %s" % nm)
        if k == "bin":
            op = e[1]
            (a, ta), (b, tb) = self.val(e[2]), self.val(e[3])
            bits = bits_of(ta)
            mask = (1 << bits) - 1
            if op in ("Add", "AddUnchecked"):
                return ((a + b) & mask, ta)
            if op in ("Sub", "SubUnchecked"):
                return ((a - b) & mask, ta)
            if op in ("Mul", "MulUnchecked"):
                return ((a * b) & mask, ta)
            if op == "BitAnd":
                return (a & b, ta)
            if op == "BitOr":
                return (a | b, ta)
            if op == "BitXor":
                return (a ^ b, ta)
            if op in ("Shr", "ShrUnchecked"):
                if is_signed_ty(ta):
                    return ((signed(a, bits) >> b) & mask, ta)
                return (a >> b, ta)
            if op in ("Shl", "ShlUnchecked"):
                return ((a << b) & mask, ta)
            if op in ("Eq", "Ne", "Lt", "Le", "Gt", "Ge"):
                if is_signed_ty(ta):
                    a, b = signed(a, bits), signed(b, bits_of(tb))
                r = {"Eq": a == b, "Ne": a != b, "Lt": a < b, "Le": a <= b, "Gt": a > b, "Ge": a >= b}[op]
                return (int(r), "bool")
            raise Unsupported("binop %s" % op)
        if k == "un":
            raw, ty = self.val(e[2])
            if e[1] == "Not":
                if ty == "bool":
                    return (1 - raw, ty)
                return ((~raw) & ((1 << bits_of(ty)) - 1), ty)
            if e[1] == "Neg":
                return ((-raw) & ((1 << bits_of(ty)) - 1), ty)
        raise Unsupported("expression %s" % show(e)[:80])

    def lit(self, atom, value):
        """truth of literal (atom == value)"""
        if atom in self.opaque:
            v = int(self.opaque[atom])
        else:
            v = self.val(atom)[0]
        if isinstance(value, tuple):  # ('not', vals)
            return v not in value[1]
        return v == value

    def dnf(self, dnf):
        return any(all(self.lit(a, v) for (a, v) in conj) for conj in dnf)


def boundary_values(consts, bits=64):
    """representatives of all order types of a 64-bit word relative to the given constants (both readings)"""
    mask = (1 << bits) - 1
    s = {0, 1, mask, mask - 1, (1 << (bits - 1)) - 1, 1 << (bits - 1), (1 << (bits - 1)) + 1}
    for c in consts:
        for d in (-1, 0, 1):
            s.add((c + d) & mask)
            s.add((-c + d) & mask)
    return sorted(s)


def consts_in(dnf):
    out = set()
    for conj in dnf:
        for (a, v) in conj:
            for s in walk(a):
                if is_const(s) and isinstance(s[1], int):
                    out.add(abs(s[1]))
    return out


def range_membership(dnf, subject, lo, hi, opaque=None, extra_env=None):
    """Evaluate a DNF whose atoms compare `subject` with symbolic bounds lo < hi.
    Returns dict order_type -> bool over the partition {x<lo-1?, lo-1, lo, lo+1, mid, hi-1, hi, hi+1, >hi}"""
    configs = [(1000, 2000), (1000, 1001), (1000, 1002), (0, 4096), (1 << 40, (1 << 40) + 4096), (M64 - 5000, M64 - 1)]
    result = {}
    for (l, h) in configs:
        pts = {"lo-1": l - 1, "lo": l, "lo+1": l + 1, "mid": (l + h) // 2, "hi-1": h - 1, "hi": h, "hi+1": h + 1, "zero": 0, "max": M64}
        for name, x in pts.items():
            if x < 0 or x > M64:
                continue
            env = {subject: x, lo: l, hi: h}
            if extra_env:
                env.update(extra_env(l, h))
            ev = Eval(env, opaque)
            val = ev.dnf(dnf)
            # classify x relative to [l, h)
            if x < l:
                cls = "below"
            elif x == l:
                cls = "=lo"
            elif x < h - 1:
                cls = "inside"
            elif x == h - 1:
                cls = "=hi-1" if h - 1 > l else "=lo"
            elif x == h:
                cls = "=hi"
            else:
                cls = "above"
            result.setdefault(cls, set()).add(val)
    return result


def form_of(table):
    """name the membership form of a range_membership table"""
    def only(c, v):
        return table.get(c, {v}) == {v}
    if not all(len(v) == 1 for v in table.values()):
        return "not an interval predicate of the subject: %s" % {k: sorted(v) for k, v in table.items()}
    t = {k: list(v)[0] for k, v in table.items()}
    inside = t.get("inside", t.get("=lo"))
    pat = (t.get("below"), t.get("=lo"), t.get("inside", t.get("=lo")), t.get("=hi-1", t.get("=lo")), t.get("=hi"), t.get("above"))
    names = {
        (False, True, True, True, False, False): "[lo,hi)",
        (False, True, True, True, True, False): "[lo,hi]",
        (False, False, True, True, False, False): "(lo,hi)",
        (False, False, True, True, True, False): "(lo,hi]",
        (True, False, False, False, True, True): "not [lo,hi)",
        (True, False, False, False, False, True): "not [lo,hi]",
        (True, True, False, False, True, True): "not (lo,hi)",
    }
    return names.get(pat, "pattern %s" % (pat,))
