"""Fact-base loader and core program representation (E1).

Loads the JSON fact file written by the mdwlint driver (type-checked MIR with
resolved callees / field names / evaluated constants) and provides CFG
utilities: successors, dominators, post-dominators, loops, def-use, call-site
lookup, call graph, reachability.  Nothing here executes the program.
"""
import json, re, sys
from collections import defaultdict

_GEN = re.compile(r"::<(?!impl )[^<>]*(?:<[^<>]*(?:<[^<>]*>[^<>]*)*>[^<>]*)*>")


def norm(path):
    """Strip generic argument lists: `a::B::<'a, W>::f` -> `a::B::f`; keeps `<T as Trait>::f` heads."""
    if path is None:
        return None
    prev = None
    s = path
    while prev != s:
        prev = s
        s = _GEN.sub("", s)
    from . import names
    return names.mangle(s)


def norm_raw(path):
    prev = None
    s = path
    while prev != s:
        prev = s
        s = _GEN.sub("", s)
    return s


class Body:
    def __init__(self, j, prog):
        self.j = j
        self.prog = prog
        self.name = j["def"]
        self.short = norm(j["def"])
        self.kind = j["kind"]
        self.parent = norm(j["parent"]) if j.get("parent") else None
        self.file = j["file"]
        self.line = j["line"]
        self.argc = j["argc"]
        self.locals = j["locals"]
        self.blocks = j["blocks"]
        self.n = len(self.blocks)
        self._succ = None
        self._pred = None
        self._dom = None
        self._defs = None
        self._loops = None

    # ---------------------------------------------------------------- CFG
    def term(self, b):
        return self.blocks[b]["term"]

    def succ_edges(self, b):
        """list of (target, label). label: ('goto',), ('sw', value) / ('sw','otherwise',[vals]),
        ('ret',) normal call/drop/assert return, ('unwind',)"""
        t = self.blocks[b]["term"]
        k = t["k"]
        out = []
        if k == "goto":
            out.append((t["t"], ("goto",)))
        elif k == "switch":
            vals = []
            for v, tb in t["targets"]:
                out.append((tb, ("sw", v)))
                vals.append(v)
            out.append((t["otherwise"], ("sw", "otherwise", tuple(vals))))
        elif k in ("call", "drop", "assert"):
            if t.get("t") is not None:
                out.append((t["t"], ("ret",)))
            if isinstance(t.get("unwind"), int):
                out.append((t["unwind"], ("unwind",)))
        return out

    def succs(self, b, unwind=True):
        return [t for t, l in self.succ_edges(b) if unwind or l != ("unwind",)]

    @property
    def preds(self):
        if self._pred is None:
            p = defaultdict(list)
            for b in range(self.n):
                for s in self.succs(b):
                    p[s].append(b)
            self._pred = p
        return self._pred

    def reachable_from(self, b, unwind=True, stop=None):
        seen = set()
        st = [b]
        while st:
            x = st.pop()
            if x in seen:
                continue
            seen.add(x)
            if stop and x in stop and x != b:
                continue
            for s in self.succs(x, unwind):
                if s not in seen:
                    st.append(s)
        return seen

    def rpo(self, unwind=True):
        seen = set()
        order = []
        # iterative DFS postorder
        st = [(0, iter(self.succs(0, unwind)))]
        seen.add(0)
        while st:
            b, it = st[-1]
            adv = False
            for s in it:
                if s not in seen:
                    seen.add(s)
                    st.append((s, iter(self.succs(s, unwind))))
                    adv = True
                    break
            if not adv:
                order.append(b)
                st.pop()
        order.reverse()
        return order

    def dominators(self):
        """immediate dominator map over blocks reachable from entry (all edges)."""
        if self._dom is not None:
            return self._dom
        order = self.rpo()
        idx = {b: i for i, b in enumerate(order)}
        idom = {0: 0}
        changed = True
        preds = self.preds
        while changed:
            changed = False
            for b in order[1:]:
                new = None
                for p in preds[b]:
                    if p in idom:
                        if new is None:
                            new = p
                        else:
                            a, c = p, new
                            while a != c:
                                while idx[a] > idx[c]:
                                    a = idom[a]
                                while idx[c] > idx[a]:
                                    c = idom[c]
                            new = a
                if new is not None and idom.get(b) != new:
                    idom[b] = new
                    changed = True
        self._dom = idom
        return idom

    def dominates(self, a, b):
        idom = self.dominators()
        if b not in idom or a not in idom:
            return False
        x = b
        while True:
            if x == a:
                return True
            if x == 0:
                return False
            x = idom[x]

    def back_edges(self):
        res = []
        for b in self.dominators():
            for s in self.succs(b):
                if self.dominates(s, b):
                    res.append((b, s))
        return res

    def loops(self):
        """natural loops: header -> set(blocks)"""
        if self._loops is not None:
            return self._loops
        loops = defaultdict(set)
        preds = self.preds
        for (t, h) in self.back_edges():
            body = {h, t}
            st = [t]
            while st:
                x = st.pop()
                if x == h:
                    continue
                for p in preds[x]:
                    if p not in body and self.dominates(h, p):
                        body.add(p)
                        st.append(p)
            loops[h] |= body
        self._loops = dict(loops)
        return self._loops

    def in_cycle_blocks(self):
        """blocks that lie on some CFG cycle (SCC based; catches irreducible loops too)."""
        # Tarjan SCC
        index = {}
        low = {}
        onst = set()
        st = []
        res = set()
        counter = [0]
        sys.setrecursionlimit(10000)

        def sc(v):
            index[v] = low[v] = counter[0]
            counter[0] += 1
            st.append(v)
            onst.add(v)
            for w in self.succs(v):
                if w not in index:
                    sc(w)
                    low[v] = min(low[v], low[w])
                elif w in onst:
                    low[v] = min(low[v], index[w])
            if low[v] == index[v]:
                comp = []
                while True:
                    w = st.pop()
                    onst.discard(w)
                    comp.append(w)
                    if w == v:
                        break
                if len(comp) > 1 or v in self.succs(v):
                    res.update(comp)

        for b in self.rpo():
            if b not in index:
                sc(b)
        return res

    # ---------------------------------------------------------------- defs
    @property
    def defs(self):
        """local -> list of (block, stmt_index or 'term', kind, payload)"""
        if self._defs is None:
            d = defaultdict(list)
            for bi, blk in enumerate(self.blocks):
                for si, st in enumerate(blk["stmts"]):
                    if st["k"] == "assign":
                        p = st["p"]
                        d[p["l"]].append((bi, si, "assign" if not p["proj"] else "partial", st))
                    elif st["k"] == "setdiscr":
                        d[st["p"]["l"]].append((bi, si, "partial", st))
                t = blk["term"]
                if t["k"] == "call":
                    p = t["dest"]
                    d[p["l"]].append((bi, "term", "call" if not p["proj"] else "partial", t))
            self._defs = d
        return self._defs

    def calls(self, pred=None):
        """yield (block, term) for call terminators whose callee matches pred(callee_info)"""
        for bi, blk in enumerate(self.blocks):
            t = blk["term"]
            if t["k"] == "call":
                if pred is None or pred(CalleeView(t["callee"])):
                    yield bi, t

    def local_name(self, l):
        n = self.locals[l].get("name")
        return n if n else "_%d" % l

    def where(self, bi, si=None):
        blk = self.blocks[bi]
        if si is None or si == "term":
            ln = blk["term"].get("line")
        else:
            ln = blk["stmts"][si].get("line")
        return "%s:%s" % (self.file, ln)


class CalleeView:
    """Uniform view over a callee record."""

    def __init__(self, c):
        self.c = c
        self.defp = c.get("def")
        self.short = norm(c.get("def")) if c.get("def") else None
        self.inst = c.get("inst")
        self.resolved = norm(c.get("resolved")) if c.get("resolved") else None
        self.local = bool(c.get("local")) or bool(c.get("resolved_local"))
        self.trait = c.get("trait")
        self.indirect = bool(c.get("indirect"))
        self.targs = c.get("targs") or []

    @property
    def target(self):
        """best name of the function that will run: resolved impl if known else declared item"""
        return self.resolved or self.short

    def is_(self, *names):
        return self.short in names or self.resolved in names

    def endswith(self, suffix):
        return (self.short or "").endswith(suffix) or (self.resolved or "").endswith(suffix)

    def __repr__(self):
        return "Callee(%s -> %s)" % (self.inst, self.resolved)


class Program:
    def __init__(self, path):
        with open(path) as f:
            self.j = json.load(f)
        from . import names as _names
        _names.configure([norm_raw(b["def"]) for b in self.j["bodies"]])   # colliding crate functions are renamed from here on (engine/names.py)
        self.bodies = [Body(b, self) for b in self.j["bodies"]]
        self.by_short = defaultdict(list)
        for b in self.bodies:
            self.by_short[b.short].append(b)
        from . import names
        names.register(self)
        self.adts = {norm(a["name"]): a for a in self.j["adts"]}
        self.impls = self.j["impls"]
        self.statics = self.j["statics"]
        self._cg = None

    def body(self, suffix, unique=True):
        """find body whose normalised def path equals or ends with `::suffix`"""
        hits = [b for b in self.bodies if b.short == suffix or b.short.endswith("::" + suffix)]
        if unique:
            if len(hits) != 1:
                raise AnchorMissing("body %r: %d matches" % (suffix, len(hits)))
            return hits[0]
        return hits

    def closures_of(self, body):
        return [b for b in self.bodies if b.kind == "Closure" and b.parent == body.short]

    # call graph over local bodies (by short name); closures are linked to their parent
    def callgraph(self):
        if self._cg is not None:
            return self._cg
        cg = defaultdict(set)
        foreign = defaultdict(set)
        self.callback_targets = set()   # entered from foreign generic code: their arguments come from no visible call site
        for b in self.bodies:
            for bi, t in b.calls():
                cv = CalleeView(t["callee"])
                tgt = cv.target
                if tgt is None:
                    foreign[b.short].add("<indirect>")
                    continue
                if tgt in self.by_short:
                    cg[b.short].add(tgt)
                elif cv.short in self.by_short:
                    cg[b.short].add(cv.short)
                else:
                    foreign[b.short].add(tgt)
                    # a trait method called on a generic parameter (`<T as Trait>::m`) stays unresolved in generic MIR:
                    # class-hierarchy edges to every implementation of that method in this crate
                    m = _GENERIC_SELF.match(cv.inst or "")
                    if m:
                        for d in self.trait_impl_items().get((norm(m.group(2)), tgt.split("::")[-1]), ()):
                            if d in self.by_short:
                                cg[b.short].add(d)
                    # callbacks: foreign generic code instantiated with a type of this crate (`serde_json::to_string_pretty::<ErrorList<WriterError>>`,
                    # `Vec<MappingInfo>::clone`, `format!("{}", x)`) may call any trait method that type implements
                    if not cv.local and "<" in (cv.inst or ""):
                        ni = cv.inst
                        for base, items in self.local_type_impl_items().items():
                            if base in ni:
                                for d in items:
                                    if d in self.by_short:
                                        cg[b.short].add(d)
                                        self.callback_targets.add(d)
            # function items used as values (`iter.find(is_executable_section)`, `.map(Self::helper)`): the callee will call them
            for blk in b.blocks:
                ops = []
                t_ = blk["term"]
                if t_["k"] == "call":
                    ops += t_["args"]
                for st in blk["stmts"]:
                    if st["k"] == "assign":
                        r_ = st["r"]
                        ops += [r_[k_] for k_ in ("o", "a", "b") if isinstance(r_.get(k_), dict)] + list(r_.get("ops", []))
                for op in ops:
                    if isinstance(op, dict) and op.get("k") == "const" and op.get("fn"):
                        fn = norm(op["fn"])
                        if fn in self.by_short:
                            cg[b.short].add(fn)
            # closures created here
            for blk in b.blocks:
                for st in blk["stmts"]:
                    if st["k"] == "assign" and st["r"]["k"] == "agg" and st["r"].get("ak") == "closure":
                        cg[b.short].add(norm(st["r"]["closure"]))
        self._cg = (cg, foreign)
        return self._cg

    def trait_impl_items(self):
        """(trait path, method name) -> [impl item shorts] for the impls in this crate"""
        if getattr(self, "_tii", None) is None:
            out = defaultdict(list)
            for im in self.impls:
                tr = im.get("trait")
                if not tr:
                    continue
                for it in im.get("items", []):
                    if it.get("kind") in ("Fn", "AssocFn"):
                        out[(norm(tr), it["name"])].append(norm(it["def"]))
            self._tii = out
        return self._tii

    def local_type_impl_items(self):
        """type path (without generic arguments) -> trait-impl method items of that type in this crate"""
        if getattr(self, "_ltii", None) is None:
            out = defaultdict(list)
            roots = {b.short.split("::")[0] for b in self.bodies if not b.short.startswith("<")}
            for im in self.impls:
                if not im.get("trait") or not im.get("self_ty"):
                    continue
                tr = norm(im["trait"])
                if tr.split("::")[0] in roots and "::_::" not in tr:
                    continue    # a trait of this crate: foreign code cannot name it; its calls are resolved directly
                base = _strip_generic_tail(im["self_ty"].lstrip("&").strip())
                for it in im.get("items", []):
                    if it.get("kind") in ("Fn", "AssocFn"):
                        out[base].append(norm(it["def"]))
            self._ltii = out
        return self._ltii

    def reachable(self, entries):
        cg, _ = self.callgraph()
        seen = set()
        st = list(entries)
        while st:
            x = st.pop()
            if x in seen:
                continue
            seen.add(x)
            for y in cg.get(x, ()):
                if y not in seen:
                    st.append(y)
        return seen


def _strip_generic_tail(ty):
    """`a::b::T<'x, U>` -> `a::b::T` (only the trailing argument list; `<impl ..>` segments inside the path stay)"""
    if not ty.endswith(">"):
        return ty
    depth = 0
    for i in range(len(ty) - 1, -1, -1):
        if ty[i] == ">":
            depth += 1
        elif ty[i] == "<":
            depth -= 1
            if depth == 0:
                return ty[:i]
    return ty


_PATH_TOKEN = re.compile(r"[A-Za-z_][A-Za-z0-9_]*(?:::[A-Za-z_][A-Za-z0-9_]*)+")
_GENERIC_SELF = re.compile(r"^<([A-Z][A-Za-z0-9_]*) as ([^>]+?)(<.*)?>::")


class AnchorMissing(Exception):
    pass


# ------------------------------------------------------------------ pretty printer
def fmt_place(p, body=None):
    s = "_%d" % p["l"]
    if body is not None:
        n = body.locals[p["l"]].get("name")
        if n:
            s = "%s/_%d" % (n, p["l"])
    for e in p["proj"]:
        k = e["k"]
        if k == "deref":
            s = "(*%s)" % s
        elif k == "field":
            s = "%s.%s" % (s, e["n"])
        elif k == "index":
            s = "%s[_%d]" % (s, e["l"])
        elif k == "cindex":
            s = "%s[%s%d]" % (s, "-" if e["from_end"] else "", e["off"])
        elif k == "subslice":
            s = "%s[%d..%s%d]" % (s, e["from"], "-" if e["from_end"] else "", e["to"])
        elif k == "downcast":
            s = "(%s as %s)" % (s, e["n"])
        else:
            s = "%s.<%s>" % (s, k)
    return s


def fmt_op(o, body=None):
    if o["k"] in ("copy", "move"):
        return ("move " if o["k"] == "move" else "") + fmt_place(o["p"], body)
    if "fn" in o:
        return "fn(%s)" % norm(o["fn"])
    if "v" in o:
        return "%s_%s" % (o.get("sv", o["v"]), o["ty"])
    if "str" in o:
        return json.dumps(o["str"])
    if "named" in o:
        return "const(%s)" % o["named"]
    return "const<%s>" % o["ty"]


def fmt_rv(r, body=None):
    k = r["k"]
    if k == "use":
        return fmt_op(r["o"], body)
    if k == "ref":
        return "&%s%s" % ("mut " if r["bk"] == "mut" else "", fmt_place(r["p"], body))
    if k == "rawptr":
        return "&raw %s" % fmt_place(r["p"], body)
    if k == "cast":
        return "%s as %s (%s)" % (fmt_op(r["o"], body), r["ty"], r["ck"])
    if k == "binop":
        return "%s(%s, %s)" % (r["op"], fmt_op(r["a"], body), fmt_op(r["b"], body))
    if k == "unop":
        return "%s(%s)" % (r["op"], fmt_op(r["o"], body))
    if k == "discr":
        return "discr(%s)" % fmt_place(r["p"], body)
    if k == "agg":
        ak = r["ak"]
        ops = ", ".join(fmt_op(o, body) for o in r["ops"])
        if ak == "adt":
            fs = r.get("fields") or []
            if len(fs) == len(r["ops"]):
                ops = ", ".join("%s: %s" % (f, fmt_op(o, body)) for f, o in zip(fs, r["ops"]))
            return "%s::%s{%s}" % (norm(r["adt"]), r["vname"], ops)
        if ak == "closure":
            return "closure(%s)[%s]" % (norm(r["closure"]), ops)
        return "%s(%s)" % (ak, ops)
    if k == "repeat":
        return "[%s; %s]" % (fmt_op(r["o"], body), r["n"])
    return "%s<%s>" % (k, r.get("dbg", ""))


def dump_body(b, out=sys.stdout):
    out.write("fn %s  (%s:%s) argc=%d\n" % (b.name, b.file, b.line, b.argc))
    for i, l in enumerate(b.locals):
        if l.get("name") or i <= b.argc:
            out.write("   let _%d: %s  // %s\n" % (i, l["ty"], l.get("name")))
    for bi, blk in enumerate(b.blocks):
        out.write(" bb%d%s:\n" % (bi, " (cleanup)" if blk["cleanup"] else ""))
        for st in blk["stmts"]:
            if st["k"] == "assign":
                out.write("    %s = %s   // L%s\n" % (fmt_place(st["p"], b), fmt_rv(st["r"], b), st.get("line")))
            elif st["k"] == "setdiscr":
                out.write("    discr(%s) = %s\n" % (fmt_place(st["p"], b), st["v"]))
            elif st["k"] == "intrinsic":
                out.write("    intrinsic %s\n" % st["dbg"])
        t = blk["term"]
        k = t["k"]
        if k == "call":
            cv = CalleeView(t["callee"])
            nm = cv.inst or ("<indirect %s>" % fmt_op(t["callee"]["op"], b))
            if cv.resolved and cv.resolved != cv.short:
                nm += " => " + cv.resolved
            out.write("    %s = call %s(%s) -> bb%s unwind %s   // L%s\n" % (
                fmt_place(t["dest"], b), nm, ", ".join(fmt_op(a, b) for a in t["args"]), t["t"], t["unwind"], t.get("line")))
        elif k == "switch":
            out.write("    switch %s [%s, otherwise -> bb%s]\n" % (
                fmt_op(t["o"], b), ", ".join("%s -> bb%s" % (v, tb) for v, tb in t["targets"]), t["otherwise"]))
        elif k == "assert":
            m = t["msg"]
            ops = ", ".join(fmt_op(m[x], b) for x in ("len", "index", "a", "b") if x in m)
            out.write("    assert(%s == %s) %s %s(%s) -> bb%s   // L%s\n" % (
                fmt_op(t["cond"], b), t["expected"], m["k"], m.get("op", ""), ops, t["t"], t.get("line")))
        elif k == "drop":
            out.write("    drop(%s) -> bb%s unwind %s\n" % (fmt_place(t["p"], b), t["t"], t["unwind"]))
        elif k == "goto":
            out.write("    goto bb%s\n" % t["t"])
        else:
            out.write("    %s\n" % k)


if __name__ == "__main__":
    prog = Program(sys.argv[1])
    pat = sys.argv[2] if len(sys.argv) > 2 else ""
    for b in prog.bodies:
        if pat in b.short:
            dump_body(b)
            print()
