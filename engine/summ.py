"""Interprocedural helpers: return-value summaries, effect summaries over the call graph."""
from .mir import CalleeView, norm
from .origin import Origin, strip, show
from .paths import Exits

_ret_cache = {}


def return_origins(prog, short):
    """origin expressions (in the callee's own parameter space) of the value a local function
    returns on its success exits: payload of Ok(..) for Result-returning functions, the value
    itself otherwise.  Pass-through results (`_0 = call g(..)`) are returned as the call expr."""
    key = (id(prog), short)
    if key in _ret_cache:
        return _ret_cache[key]
    out = []
    bodies = prog.by_short.get(short)
    if not bodies:
        _ret_cache[key] = None
        return None
    b = bodies[0]
    o = Origin(b)
    ex = Exits(b)
    for (bi, si) in ex.ok_defs:
        if si == "term":
            out.append(o.call_expr(bi))
        else:
            st = b.blocks[bi]["stmts"][si]
            r = st["r"]
            if r["k"] == "agg" and r.get("ak") == "adt" and norm(r["adt"]).endswith("result::Result"):
                out.append(o.operand(r["ops"][0], (bi, si)))
            else:
                out.append(o._rvalue(r, (bi, si), 0))
    for (bi, si) in ex.pass_defs:
        if si == "term":
            out.append(("okval", o.call_expr(bi)))
        else:
            st = b.blocks[bi]["stmts"][si]
            out.append(("okval", o._rvalue(st["r"], (bi, si), 0)))
    _ret_cache[key] = out
    return out


def effect_closure(prog, seeds):
    """Given seeds: dict short-fn-name -> True for functions that directly have an effect,
    compute the set of local functions that (transitively, via the call graph incl. closures)
    may have it."""
    cg, _ = prog.callgraph()
    rev = {}
    for f, cs in cg.items():
        for c in cs:
            rev.setdefault(c, set()).add(f)
    has = set(seeds)
    work = list(seeds)
    while work:
        x = work.pop()
        for p in rev.get(x, ()):
            if p not in has:
                has.add(p)
                work.append(p)
    return has


def direct_callers_of_foreign(prog, pred):
    """local functions containing a call whose callee view satisfies pred"""
    out = {}
    for b in prog.bodies:
        for bi, t in b.calls(pred):
            out.setdefault(b.short, []).append((bi, t))
    return out
