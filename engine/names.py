"""Which resolved callee names are functions of THIS crate.

The engines read std semantics off the last path segment of a callee (`min` bounds, `saturating_sub` cannot underflow, `len` is a length,
`take_while` is the leading run).  That is right for the std function and wrong for a function of the crate that merely carries the name
(seeded C06-r: a private `fn min(a, b)` in which 0 means "not limited" replaced `std::cmp::min` at untouched call sites by dropping a
`use`).  `stdseg` gives the last segment of a FOREIGN function and a mangled one for crate functions, so that no std meaning is ever
attached to the crate's own code by its name; crate functions are analysed through their bodies."""

LOCAL = set()


def register(prog):
    LOCAL.update(prog.by_short.keys())


def is_local(n):
    return n in LOCAL


def rawseg(n):
    return n.split("::")[-1] if n else ""


def stdseg(n):
    if not n:
        return ""
    s = n.split("::")[-1]
    return ("crate!" + s) if n in LOCAL else s


# ---------------------------------------------------------------------------------------------------------------------------------
# Mangling of colliding crate functions at load time.
#
# Hundreds of rule sites identify a callee by the last segment of its resolved path.  Rather than trusting every one of them to ask
# "is this the std function?", the loader renames the offenders: a hand-written function of this crate whose name is also the name of a
# foreign function the REVIEWED tree calls (tables/foreign_names.json), and which is not one of the reviewed collisions, gets the last
# segment `crate!<name>` everywhere — body name, callee records, origin expressions.  No rule then takes it for `std::cmp::min`,
# `Iterator::take_while`, `nix::sys::wait::waitpid`, …; whatever leaned on the std meaning fails closed or reports the site.  On a tree
# without new collisions (today's) nothing is renamed, so the renaming cannot cause an alarm by itself.
import json, os, re

REVIEWED_FOREIGN = {"alloc", "new", "parse", "position", "ptrace", "read", "with_capacity", "write_all", "write", "read_from_module", "create"}
_STD_IMPL = re.compile(r"( as |<impl )(std|core|serde|alloc)::")
COLLIDING = set()
_LOCAL_RE = None
PREFIX = "crate!"


def handwritten(short):
    if "{closure" in short or short.startswith("bin::") or "::test" in short or "_serde" in short:
        return False
    return not _STD_IMPL.search(short)


def frozen_foreign():
    tp = os.path.join(os.path.dirname(os.path.dirname(os.path.abspath(__file__))), "tables", "foreign_names.json")
    try:
        return set(json.load(open(tp))["names"])
    except Exception:
        return None


def configure(shorts):
    """shorts: normalised, unmangled names of the crate's bodies"""
    global _LOCAL_RE
    roots = sorted({s.split("::")[0] for s in shorts if s and not s.startswith("<") and re.match(r"^\w+$", s.split("::")[0])})
    _LOCAL_RE = re.compile(r"(^|<|&| as |impl |mut )(%s)::" % "|".join(roots)) if roots else None
    fr = frozen_foreign() or set()
    COLLIDING.clear()
    for s in shorts:
        seg = s.split("::")[-1]
        if handwritten(s) and seg in fr and seg not in REVIEWED_FOREIGN:
            COLLIDING.add(seg)


def mangle(n):
    if not COLLIDING or not n:
        return n
    i = n.rfind("::")
    seg = n[i + 2:] if i >= 0 else n
    if seg in COLLIDING and _LOCAL_RE is not None and _LOCAL_RE.search(n) and not _STD_IMPL.search(n):
        return n[:i + 2] + PREFIX + seg if i >= 0 else PREFIX + seg
    return n


def unmangle_seg(seg):
    return seg[len(PREFIX):] if seg.startswith(PREFIX) else seg
