"""Thorough-tier self-test: each patch in /verif/mutants/<ID>/ breaks one rule instance while the crate still
type-checks.  The patch is applied to a scratch copy of the current /repo (outside /repo and /verif, removed right
afterwards), facts are extracted with the same driver and the property's rules must report the expected instance.
Nothing is executed.  A mutant that no longer applies/compiles is reported as stale in the evidence (it does not
fail the check: it says nothing about the code under analysis)."""
import importlib, os, re, shutil, subprocess, tempfile
from . import run as R
from .mir import Program
from .ctx import Ctx

VERIF = os.path.dirname(os.path.dirname(os.path.abspath(__file__)))


def scratch_copy(repo):
    tmp = tempfile.mkdtemp(prefix="mdwmut.")
    dst = os.path.join(tmp, "repo")
    os.makedirs(dst)
    for name in ("Cargo.toml", "Cargo.lock", "build.rs", "src", "examples", "tests"):
        p = os.path.join(repo, name)
        if os.path.isdir(p):
            shutil.copytree(p, os.path.join(dst, name))
        elif os.path.exists(p):
            shutil.copy(p, os.path.join(dst, name))
    return tmp, dst


def parse_header(path):
    expect = []
    note = ""
    with open(path) as f:
        for line in f:
            if line.startswith("# expect:"):
                expect.append(line[len("# expect:"):].strip())
            elif line.startswith("# note:"):
                note = line[len("# note:"):].strip()
            elif not line.startswith("#"):
                break
    return expect, note


def run_one(prop, mod, patch, repo):
    expect, note = parse_header(patch)
    tmp, dst = scratch_copy(repo)
    try:
        r = subprocess.run(["patch", "-p1", "--no-backup-if-mismatch", "-s", "-i", patch], cwd=dst, stdout=subprocess.PIPE, stderr=subprocess.STDOUT, text=True)
        if r.returncode != 0:
            return {"mutant": os.path.basename(patch), "status": "stale", "why": "patch does not apply: " + r.stdout[-200:], "expect": expect}
        try:
            fact, t2, dt = R.extract(dst, "prod")
        except SystemExit as e:
            return {"mutant": os.path.basename(patch), "status": "stale", "why": "mutant does not type-check", "expect": expect}
        try:
            prog = Program(fact)
        finally:
            shutil.rmtree(t2, ignore_errors=True)
        ctx = Ctx(prog, prop, "quick", None, repo=dst)
        try:
            mod.run(ctx)
            __import__('rules.guards', fromlist=['rule_names_unambiguous']).rule_names_unambiguous(ctx, ctx.prop)
        except Exception as e:
            ctx.violated("%s/internal" % prop, ("exception", type(e).__name__), None, "rule engine raised %r" % (e,))
        bad = [r_["key"] for r_ in ctx.results if r_["verdict"] != "ok"]
        hit = [k for k in bad if any(k.startswith(e_) for e_ in expect)] if expect else bad
        return {"mutant": os.path.basename(patch), "status": "killed" if hit else "survived", "expect": expect, "reported": bad[:6], "note": note}
    finally:
        shutil.rmtree(tmp, ignore_errors=True)


def run(ctx, prop):
    mdir = os.path.join(VERIF, "mutants", prop)
    if not os.path.isdir(mdir):
        return {"mutants": {"total": 0}}
    mod = importlib.import_module("rules.%s" % prop.lower())
    out = []
    for fn in sorted(os.listdir(mdir)):
        if fn.endswith(".diff"):
            out.append(run_one(prop, mod, os.path.join(mdir, fn), ctx.repo))
    killed = sum(1 for m in out if m["status"] == "killed")
    survived = [m for m in out if m["status"] == "survived"]
    stale = [m for m in out if m["status"] == "stale"]
    for m in survived:
        # about the checker, not about the code under analysis: reported, never a VIOLATION of the property
        print("SELF-TEST WARNING: property=%s mutant %s is no longer reported (expected %s, reported %s)" % (prop, m["mutant"], m["expect"], m["reported"]))
    for m in out:
        if m["status"] == "killed":
            ctx.ok("%s/self-test" % prop, ("mutant", m["mutant"]), os.path.join("mutants", prop, m["mutant"]), "broken variant is reported: %s" % (m["reported"][:2],))
    return {"mutants": {"total": len(out), "killed": killed, "survived": [m["mutant"] for m in survived], "stale": [{"mutant": m["mutant"], "why": m["why"]} for m in stale], "details": out}}
