"""Orchestration: build the driver, extract facts from the *current* /repo tree, run the
rules of one property, subtract known findings by exact key, write evidence, print verdict."""
import json, os, shutil, subprocess, sys, tempfile, time, hashlib

VERIF = os.path.dirname(os.path.dirname(os.path.abspath(__file__)))
DRIVER_DIR = os.path.join(VERIF, "driver")
DRIVER = os.path.join(DRIVER_DIR, "target", "debug", "mdwlint")
CACHE = os.path.join(VERIF, ".cache")


def sh(cmd, **kw):
    return subprocess.run(cmd, stdout=subprocess.PIPE, stderr=subprocess.STDOUT, text=True, **kw)


def nightly_sysroot():
    r = sh(["rustc", "+nightly", "--print", "sysroot"])
    return r.stdout.strip()


def base_env():
    env = dict(os.environ)
    env["CARGO_NET_OFFLINE"] = "true"
    env.pop("RUSTC_WRAPPER", None)
    return env


def build_driver():
    src_m = 0
    for root, _, files in os.walk(os.path.join(DRIVER_DIR, "src")):
        for f in files:
            src_m = max(src_m, os.path.getmtime(os.path.join(root, f)))
    if os.path.exists(DRIVER) and os.path.getmtime(DRIVER) >= src_m:
        return
    r = sh(["cargo", "+nightly", "build", "--offline"], cwd=DRIVER_DIR, env=base_env())
    if r.returncode != 0 or not os.path.exists(DRIVER):
        sys.stderr.write(r.stdout)
        raise SystemExit("FATAL: cannot build the mdwlint driver")


def extract(repo, config="prod", keep_cache=False):
    """Run `cargo +nightly check` on `repo` with the driver injected; returns path of fact file
    (inside a fresh temp dir which the caller must remove) and the temp dir."""
    build_driver()
    tmp = tempfile.mkdtemp(prefix="mdwlint.")
    out = os.path.join(tmp, "out")
    os.makedirs(out)
    target = os.path.join(tmp, "target")
    cache = os.path.join(CACHE, "target-" + config)
    if os.path.isdir(cache):
        # dependency artefacts only; the member crate's fingerprints are removed so that cargo
        # must invoke the wrapper again on the current sources
        shutil.copytree(cache, target, symlinks=True)
        for prof in os.listdir(target):
            fp = os.path.join(target, prof, ".fingerprint")
            if os.path.isdir(fp):
                for d in os.listdir(fp):
                    if d.startswith("minidump-writer-") or d.startswith("minidump_writer-"):
                        shutil.rmtree(os.path.join(fp, d), ignore_errors=True)
    env = base_env()
    env["LD_LIBRARY_PATH"] = os.path.join(nightly_sysroot(), "lib") + ":" + env.get("LD_LIBRARY_PATH", "")
    env["RUSTFLAGS"] = "-Zmir-opt-level=0 -Awarnings"
    env["RUSTC_WORKSPACE_WRAPPER"] = DRIVER
    env["MDWLINT_OUT"] = out
    env["CARGO_TARGET_DIR"] = target
    cmd = ["cargo", "+nightly", "check", "--offline", "--lib"]
    if config == "test":
        cmd += ["--profile", "test"]
    t0 = time.time()
    r = sh(cmd, cwd=repo, env=env)
    fact = os.path.join(out, "minidump_writer" + (".test" if config == "test" else "") + ".json")
    if r.returncode != 0 or not os.path.exists(fact):
        sys.stderr.write(r.stdout[-6000:])
        shutil.rmtree(tmp, ignore_errors=True)
        raise SystemExit("FATAL: fact extraction failed for config %s (cargo exit %s, fact file %s)" % (
            config, r.returncode, "present" if os.path.exists(fact) else "missing"))
    if keep_cache and not os.path.isdir(cache):
        os.makedirs(CACHE, exist_ok=True)
        shutil.copytree(target, cache, symlinks=True)
    return fact, tmp, time.time() - t0


def source_digest(repo):
    h = hashlib.sha256()
    for root, dirs, files in os.walk(os.path.join(repo, "src")):
        dirs.sort()
        for f in sorted(files):
            p = os.path.join(root, f)
            h.update(p.encode())
            with open(p, "rb") as fh:
                h.update(fh.read())
    return h.hexdigest()[:16]
