"""E3 — path and guard queries over one MIR body.

* exit classification (success / error returns, unwind exits)
* must-pass / before / never-after reachability queries with witness paths
* path conditions of a site as a DNF over branch literals, projected on the
  atoms a rule declares relevant (keeps the DNF small and exact for that rule)
"""
from collections import defaultdict
from .mir import CalleeView, norm
from .origin import Origin, show

TWO_VARIANT = ("std::option::Option<", "std::result::Result<", "std::ops::ControlFlow<", "core::option::Option<",
               "core::result::Result<", "core::ops::ControlFlow<")


def witness_path(body, src, dst_set, removed=(), unwind=False):
    """BFS path from src to any block in dst_set avoiding `removed` blocks (src itself may be in removed)."""
    prev = {src: None}
    q = [src]
    while q:
        nq = []
        for x in q:
            if x in dst_set and x != src:
                path = []
                y = x
                while y is not None:
                    path.append(y)
                    y = prev[y]
                return path[::-1]
            for s in body.succs(x, unwind):
                if s in prev or s in removed:
                    continue
                prev[s] = x
                nq.append(s)
        q = nq
    if src in dst_set:
        return [src]
    return None


def reach_avoiding(body, src, removed, unwind=False, include_src=True):
    seen = set()
    st = [src]
    while st:
        x = st.pop()
        if x in seen:
            continue
        seen.add(x)
        for s in body.succs(x, unwind):
            if s not in seen and s not in removed:
                st.append(s)
    return seen


class Exits:
    """Classifies how a body can be left."""

    def __init__(self, body):
        self.b = body
        self.returns = [i for i in range(body.n) if body.term(i)["k"] == "return"]
        self.resumes = [i for i in range(body.n) if body.term(i)["k"] in ("resume", "abort")]
        self.ok_defs = []      # (block, stmt idx) assigning _0 = Ok(..) / non-Result value
        self.err_defs = []     # assigning _0 = Err(..) or from_residual
        self.pass_defs = []    # _0 = call returning the Result of another function (tail call style)
        ret_ty = body.j.get("ret_ty", "")
        self.is_result = ret_ty.startswith("std::result::Result<") or ret_ty.startswith("core::result::Result<")
        for bi, blk in enumerate(body.blocks):
            if blk["cleanup"]:
                continue
            for si, st in enumerate(blk["stmts"]):
                if st["k"] == "assign" and st["p"]["l"] == 0 and not st["p"]["proj"]:
                    r = st["r"]
                    if r["k"] == "agg" and r.get("ak") == "adt" and norm(r["adt"]).endswith("result::Result"):
                        (self.ok_defs if r["vname"] == "Ok" else self.err_defs).append((bi, si))
                    elif self.is_result:
                        self.pass_defs.append((bi, si))
                    else:
                        self.ok_defs.append((bi, si))
            t = blk["term"]
            if t["k"] == "call" and t["dest"]["l"] == 0 and not t["dest"]["proj"]:
                cv = CalleeView(t["callee"])
                if cv.short == "std::ops::FromResidual::from_residual":
                    self.err_defs.append((bi, "term"))
                elif self.is_result:
                    self.pass_defs.append((bi, "term"))
                else:
                    self.ok_defs.append((bi, "term"))

    def ok_blocks(self):
        return {b for b, _ in self.ok_defs}

    def err_blocks(self):
        return {b for b, _ in self.err_defs}

    def pass_blocks(self):
        return {b for b, _ in self.pass_defs}


def must_pass(body, frm, to_blocks, through_blocks, unwind=False):
    """Every path frm -> (any block of to_blocks) passes a block of through_blocks?
    Returns None if yes, else a witness path (list of blocks) that avoids them."""
    through = set(through_blocks)
    if frm in through:
        return None
    return witness_path(body, frm, set(to_blocks), removed=through, unwind=unwind)


def reachable_after(body, frm_block, target_blocks, unwind=False):
    """Is any target block reachable strictly after leaving frm_block? returns witness or None"""
    tgt = set(target_blocks)
    for s in body.succs(frm_block, unwind):
        if s in tgt:
            return [frm_block, s]
        w = witness_path(body, s, tgt, unwind=unwind)
        if w:
            return [frm_block] + w
    return None


# ------------------------------------------------------------------ literals / DNF
def switch_atom(body, origin, bi):
    """(atom_expr, type_hint) for the switch terminating block bi"""
    t = body.term(bi)
    atom = origin.operand(t["o"], (bi, "term"))
    hint = t.get("oty")
    # discriminant reads: find place type
    if t["o"]["k"] in ("copy", "move") and not t["o"]["p"]["proj"]:
        l = t["o"]["p"]["l"]
        for (dbi, dsi, kind, st) in body.defs.get(l, ()):
            if kind == "assign" and st["r"]["k"] == "discr":
                hint = st["r"]["p"]["ty"]
    return atom, hint


def variant_count(prog, ty):
    if ty is None:
        return None
    if ty == "bool":
        return 2
    if ty.startswith(TWO_VARIANT):
        return 2
    base = norm(ty.split("<")[0])
    a = prog.adts.get(base)
    if a and a["kind"] == "Enum":
        return len(a["variants"])
    return None


def edge_literal(body, prog, origin, bi, label, relevant):
    """literal (atom, value) contributed by leaving block bi along `label`, or None"""
    if label[0] != "sw":
        return None
    atom, hint = switch_atom(body, origin, bi)
    if relevant is not None and not relevant(atom):
        return None
    if label[1] == "otherwise":
        vals = label[2]
        n = variant_count(prog, hint)
        if n is not None:
            rest = [v for v in range(n) if v not in vals]
            if len(rest) == 1:
                return (atom, rest[0])
        return (atom, ("not", tuple(vals)))
    return (atom, label[1])


def conditions(body, target, relevant=None, entry=0, origin=None, cap=3000, stop_at=None):
    """DNF path condition of reaching block `target` from `entry` along normal (non-unwind)
    edges without re-entering `entry` (back edges into entry are not followed).
    Returns a set of frozensets of literals, or None if the cap is exceeded."""
    prog = body.prog
    origin = origin or Origin(body)
    # blocks that can reach target
    can = set()
    preds = body.preds
    st = [target]
    while st:
        x = st.pop()
        if x in can:
            continue
        can.add(x)
        if x == entry:
            continue
        for p in preds.get(x, ()):
            if p not in can:
                st.append(p)
    if entry not in can:
        return set()
    # region = reachable from entry ∩ can-reach target, edges not going back to entry
    # topological order by DFS ignoring back edges
    order = []
    color = {}

    def edges(b):
        for (s, lab) in body.succ_edges(b):
            if lab == ("unwind",):
                continue
            if s == entry:
                continue
            if s in can:
                yield s, lab

    stack = [(entry, iter(list(edges(entry))))]
    color[entry] = 1
    back = set()
    while stack:
        b, it = stack[-1]
        adv = False
        for (s, lab) in it:
            c = color.get(s, 0)
            if c == 0:
                color[s] = 1
                stack.append((s, iter(list(edges(s)))))
                adv = True
                break
            elif c == 1:
                back.add((b, s))
        if not adv:
            color[b] = 2
            order.append(b)
            stack.pop()
    order.reverse()
    # ---- materialised booleans: `_x = false` on short-circuit paths / `_x = <cond>` on the last one, then `switch _x`.
    # Track, per path, what each bool local was last assigned (path-sensitive), so that the later switch contributes the
    # real condition (or prunes the infeasible edge) instead of an opaque phi atom.
    bool_sets = {}
    for bi in can:
        lst = []
        for si, st in enumerate(body.blocks[bi]["stmts"]):
            if st["k"] == "assign" and not st["p"]["proj"] and body.locals[st["p"]["l"]]["ty"] == "bool" and st["p"]["l"] != 0:
                r = st["r"]
                if r["k"] == "use" and r["o"]["k"] == "const" and "v" in r["o"]:
                    lst.append((st["p"]["l"], ("const", r["o"]["v"], "bool")))
                elif r["k"] in ("binop", "unop") or (r["k"] == "use" and r["o"]["k"] in ("copy", "move")):
                    lst.append((st["p"]["l"], ("expr", bi, si)))
        t = body.blocks[bi]["term"]
        if t["k"] == "call" and not t["dest"]["proj"] and body.locals[t["dest"]["l"]]["ty"] == "bool":
            lst.append((t["dest"]["l"], ("callres", bi)))
        if lst:
            bool_sets[bi] = lst

    def switch_root(bi):
        t = body.blocks[bi]["term"]
        if t["k"] != "switch" or t["o"]["k"] not in ("copy", "move") or t["o"]["p"]["proj"]:
            return None
        l = t["o"]["p"]["l"]
        if body.locals[l]["ty"] != "bool":
            return None
        # chase `_t = copy L` inside the same block
        for st in reversed(body.blocks[bi]["stmts"]):
            if st["k"] == "assign" and st["p"]["l"] == l and not st["p"]["proj"]:
                r = st["r"]
                if r["k"] == "use" and r["o"]["k"] in ("copy", "move") and not r["o"]["p"]["proj"]:
                    return r["o"]["p"]["l"]
                return None
        return l

    def apply_sets(conj, bi):
        lst = bool_sets.get(bi)
        if not lst:
            return conj
        d = {a: v for (a, v) in conj}
        for (l, val) in lst:
            if val[0] == "expr":
                st = body.blocks[val[1]]["stmts"][val[2]]
                e = origin._rvalue(st["r"], (val[1], val[2]), 0)
                if e[0] == "const":
                    val = e
                else:
                    val = ("e", e)
            elif val[0] == "callres":
                val = ("e", origin.call_expr(val[1]))
            d[("$set", l)] = val
        return frozenset(d.items())

    state = defaultdict(set)
    state[entry] = {frozenset()}
    for b in order:
        cur = state.get(b)
        if not cur:
            continue
        if b == target and b != entry:
            continue
        if stop_at and b in stop_at and b != entry:
            continue
        root = switch_root(b)
        for (s, lab) in edges(b):
            if (b, s) in back:
                continue
            for conj0 in cur:
                conj = apply_sets(conj0, b) if lab[0] in ("sw", "goto") or True else conj0
                lit = None
                handled = False
                if root is not None and lab[0] == "sw":
                    d = dict(conj)
                    sv = d.get(("$set", root))
                    if sv is not None:
                        handled = True
                        # value taken on this edge
                        if lab[1] == "otherwise":
                            taken = [v for v in (0, 1) if v not in lab[2]]
                        else:
                            taken = [lab[1]]
                        if sv[0] == "const":
                            if sv[1] not in taken:
                                continue  # infeasible edge on this path
                        else:
                            e = sv[1]
                            if len(taken) == 1 and (relevant is None or relevant(e)):
                                lit = (e, taken[0])
                        # the materialised bool is consumed
                        conj = frozenset((a, v) for (a, v) in conj if a != ("$set", root))
                if not handled:
                    lit = edge_literal(body, prog, origin, b, lab, relevant)
                if lit is not None:
                    bad = False
                    for (a, v) in conj:
                        if a == lit[0] and contradicts(v, lit[1]):
                            bad = True
                            break
                    if bad:
                        continue
                    nc = conj | {lit}
                else:
                    nc = conj
                state[s].add(nc)
            if len(state[s]) > cap:
                state[s] = absorb(state[s])
                if len(state[s]) > cap:
                    return None
    res = set()
    for conj in state.get(target, set()):
        res.add(frozenset((a, v) for (a, v) in conj if not (isinstance(a, tuple) and a and a[0] == "$set")))
    return absorb(res)


def contradicts(v1, v2):
    if isinstance(v1, tuple) and isinstance(v2, tuple):
        return False
    if isinstance(v1, tuple):
        return v2 in v1[1]
    if isinstance(v2, tuple):
        return v1 in v2[1]
    return v1 != v2


def absorb(dnf):
    """remove conjunctions that are supersets of another (A ∨ (A∧B) = A)"""
    out = []
    for c in sorted(dnf, key=len):
        if not any(o <= c for o in out):
            out.append(c)
    return set(out)


def always(dnf, pred):
    """every disjunct contains a literal satisfying pred(atom, value)"""
    return bool(dnf) and all(any(pred(a, v) for (a, v) in c) for c in dnf)


def show_dnf(dnf):
    if dnf is None:
        return "<too many paths>"
    return " | ".join("(" + " & ".join("%s=%s" % (show(a), v) for a, v in sorted(c, key=lambda x: show(x[0]))) + ")" for c in dnf) or "false"
