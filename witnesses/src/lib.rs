//! E8 — compile-fail witnesses: facts about the image buffer's API that the compiler
//! enforces for every caller (including code not yet written).  Each witness is paired with a
//! compiling twin that differs only in the offending line, so that a witness whose paths are
//! merely wrong cannot pass.  Run with `cargo +nightly test --doc` (error codes are checked).

/// W1 — no mutable view of the image: writing through an index of a `Buffer` does not type-check.
/// ```compile_fail,E0594
/// let mut b = minidump_writer::mem_writer::Buffer::with_capacity(0);
/// b.write_all(&[1, 2, 3]);
/// b[0] = 9;
/// ```
/// twin (read access compiles):
/// ```no_run
/// let mut b = minidump_writer::mem_writer::Buffer::with_capacity(0);
/// b.write_all(&[1, 2, 3]);
/// let _x = b[0];
/// ```
pub struct W1;

/// W1b — no `&mut [u8]` can be obtained from a `Buffer`.
/// ```compile_fail,E0596
/// let mut b = minidump_writer::mem_writer::Buffer::with_capacity(0);
/// b.write_all(&[1, 2, 3]);
/// let s: &mut [u8] = &mut b[..];
/// s[0] = 9;
/// ```
/// twin:
/// ```no_run
/// let mut b = minidump_writer::mem_writer::Buffer::with_capacity(0);
/// b.write_all(&[1, 2, 3]);
/// let s: &[u8] = &b[..];
/// let _ = s[0];
/// ```
pub struct W1b;

/// W2 — `Buffer.inner` is private.
/// ```compile_fail,E0616
/// let mut b = minidump_writer::mem_writer::Buffer::with_capacity(0);
/// b.write_all(&[1, 2, 3]);
/// b.inner[0] = 9;
/// ```
/// twin:
/// ```no_run
/// let mut b = minidump_writer::mem_writer::Buffer::with_capacity(0);
/// b.write_all(&[1, 2, 3]);
/// let _ = b.position();
/// ```
pub struct W2;

/// W3 — the element count of an array slot cannot be forged from outside.
/// ```compile_fail,E0616
/// let mut b = minidump_writer::mem_writer::Buffer::with_capacity(0);
/// let mut w = minidump_writer::mem_writer::MemoryArrayWriter::<u32>::alloc_array(&mut b, 2).unwrap();
/// w.array_size = 100;
/// ```
/// twin:
/// ```no_run
/// let mut b = minidump_writer::mem_writer::Buffer::with_capacity(0);
/// let mut w = minidump_writer::mem_writer::MemoryArrayWriter::<u32>::alloc_array(&mut b, 2).unwrap();
/// w.set_value_at(&mut b, 7, 1).unwrap();
/// ```
pub struct W3;

/// W3b — a typed slot cannot be fabricated (private `phantom` field), so every slot comes from an allocation.
/// ```compile_fail,E0451
/// let _w = minidump_writer::mem_writer::MemoryWriter::<u32> { position: 0, size: 4, phantom: std::marker::PhantomData };
/// ```
/// twin:
/// ```no_run
/// let mut b = minidump_writer::mem_writer::Buffer::with_capacity(0);
/// let _w = minidump_writer::mem_writer::MemoryWriter::<u32>::alloc(&mut b).unwrap();
/// ```
pub struct W3b;

/// W4 — `reserve` / `write_at` are private: external code can only append or go through typed slots.
/// ```compile_fail,E0624
/// let mut b = minidump_writer::mem_writer::Buffer::with_capacity(0);
/// b.write_all(&[0; 8]);
/// let _ = b.write_at::<u32, scroll::Error>(0, 7u32);
/// ```
/// ```compile_fail,E0624
/// let mut b = minidump_writer::mem_writer::Buffer::with_capacity(0);
/// let _ = b.reserve(8);
/// ```
/// twin:
/// ```no_run
/// let mut b = minidump_writer::mem_writer::Buffer::with_capacity(0);
/// b.write_all(&[0; 8]);
/// ```
pub struct W4;


/// W5 — the flush bookkeeping of `DirSection` cannot be altered from outside the crate (C09: the flushed mark and the
/// start offset are written only by `new`/`write_to_file`).
/// ```compile_fail,E0616
/// let mut b = minidump_writer::mem_writer::Buffer::with_capacity(0);
/// let mut out = std::io::Cursor::new(Vec::<u8>::new());
/// let mut d = minidump_writer::dir_section::DirSection::new(&mut b, 1, &mut out).unwrap();
/// d.last_position_written_to_file = 100;
/// ```
/// ```compile_fail,E0616
/// let mut b = minidump_writer::mem_writer::Buffer::with_capacity(0);
/// let mut out = std::io::Cursor::new(Vec::<u8>::new());
/// let mut d = minidump_writer::dir_section::DirSection::new(&mut b, 1, &mut out).unwrap();
/// d.destination_start_offset = 7;
/// ```
/// twin:
/// ```no_run
/// let mut b = minidump_writer::mem_writer::Buffer::with_capacity(0);
/// let mut out = std::io::Cursor::new(Vec::<u8>::new());
/// let mut d = minidump_writer::dir_section::DirSection::new(&mut b, 1, &mut out).unwrap();
/// d.write_to_file(&mut b, None).unwrap();
/// ```
pub struct W5;

/// W6 — a `PtraceDumper` cannot be fabricated or have its `threads_suspended` flag flipped from outside (C03: whether a
/// detach is owed is decided only by suspend_threads/resume_threads).
/// ```compile_fail,E0616
/// fn f(d: &mut minidump_writer::ptrace_dumper::PtraceDumper) {
///     d.threads_suspended = false;
/// }
/// ```
/// twin:
/// ```no_run
/// fn f(d: &mut minidump_writer::ptrace_dumper::PtraceDumper) {
///     d.resume_threads(error_graph::strategy::DontCare);
/// }
/// ```
pub struct W6;
