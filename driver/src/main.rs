// mdwlint — rustc_private driver that exports the type-checked program (MIR with
// resolved callees, field names, evaluated constants, impl/ADT tables) of the
// crate being compiled as one JSON fact file.  The rule engines (python,
// /verif/engine) decide the properties from these facts; nothing is executed.
//
// Used as RUSTC_WORKSPACE_WRAPPER: argv = [mdwlint, <rustc>, rustc-args...].
// Output: $MDWLINT_OUT/<crate_name>[.<tag>].json for crates named in
// $MDWLINT_CRATES (comma separated; default "minidump_writer").
#![feature(rustc_private)]

extern crate rustc_abi;
extern crate rustc_driver;
extern crate rustc_hir;
extern crate rustc_interface;
extern crate rustc_middle;
extern crate rustc_session;
extern crate rustc_span;

mod json;

use json::J;
use rustc_driver::Compilation;
use rustc_hir::def::DefKind;
use rustc_hir::def_id::{DefId, LOCAL_CRATE};
use rustc_middle::mir::{self, *};
use rustc_middle::ty::print::{with_no_trimmed_paths, PrintTraitRefExt};
use rustc_middle::ty::{self, Instance, Ty, TyCtxt, TypeVisitableExt, TypingEnv};
use rustc_span::Span;

struct Cb;

impl rustc_driver::Callbacks for Cb {
    fn after_analysis<'tcx>(
        &mut self,
        _c: &rustc_interface::interface::Compiler,
        tcx: TyCtxt<'tcx>,
    ) -> Compilation {
        let name = tcx.crate_name(LOCAL_CRATE).to_string();
        let wanted = std::env::var("MDWLINT_CRATES").unwrap_or_else(|_| "minidump_writer".into());
        if !wanted.split(',').any(|w| w == name) {
            return Compilation::Continue;
        }
        // only the library target (not bin/test.rs which also links the crate); cargo passes
        // --crate-type lib for it.
        let is_test = tcx.sess.opts.test;
        let Ok(out_dir) = std::env::var("MDWLINT_OUT") else {
            return Compilation::Continue;
        };
        let crate_types = tcx.crate_types();
        let is_lib = crate_types.iter().any(|t| {
            matches!(
                t,
                rustc_session::config::CrateType::Rlib
                    | rustc_session::config::CrateType::Dylib
                    | rustc_session::config::CrateType::Cdylib
                    | rustc_session::config::CrateType::StaticLib
            )
        });
        if !is_lib && !is_test {
            return Compilation::Continue;
        }
        let tag = if is_test { ".test" } else { "" };
        let facts = with_no_trimmed_paths!(export(tcx, is_test));
        let path = format!("{}/{}{}.json", out_dir, name, tag);
        let mut s = String::with_capacity(8 << 20);
        facts.write(&mut s);
        std::fs::write(&path, s).expect("mdwlint: cannot write fact file");
        Compilation::Continue
    }
}

fn main() {
    let mut args: Vec<String> = std::env::args().collect();
    // wrapper mode: argv[1] is the real rustc path
    if args.len() > 1 && (args[1].ends_with("rustc") || args[1].contains("/rustc")) {
        args.remove(1);
    }
    rustc_driver::run_compiler(&args, &mut Cb);
}

fn loc(tcx: TyCtxt<'_>, mut sp: Span) -> (String, usize, bool) {
    let exp = sp.from_expansion();
    let mut n = 0;
    while sp.from_expansion() && n < 32 {
        sp = sp.source_callsite();
        n += 1;
    }
    let sm = tcx.sess.source_map();
    let p = sm.lookup_char_pos(sp.lo());
    let f = match &p.file.name {
        rustc_span::FileName::Real(r) => match r.local_path() {
            Some(p) => p.to_string_lossy().to_string(),
            None => format!("{:?}", r),
        },
        other => format!("{:?}", other),
    };
    (f, p.line, exp)
}

fn defstr(tcx: TyCtxt<'_>, d: DefId) -> String {
    tcx.def_path_str(d)
}

fn export<'tcx>(tcx: TyCtxt<'tcx>, is_test: bool) -> J {
    let mut bodies = Vec::new();
    for ldid in tcx.hir_body_owners() {
        let did = ldid.to_def_id();
        let kind = tcx.def_kind(did);
        match kind {
            DefKind::Fn | DefKind::AssocFn | DefKind::Closure => {}
            _ => continue,
        }
        if !tcx.is_mir_available(did) {
            continue;
        }
        let body = tcx.optimized_mir(did);
        bodies.push(export_body(tcx, did, kind, body));
    }
    // foreign generic/inline bodies requested by name (substring of def path)
    let mut adts = Vec::new();
    let mut impls = Vec::new();
    let mut statics = Vec::new();
    let items = tcx.hir_crate_items(());
    for id in items.definitions() {
        let did = id.to_def_id();
        match tcx.def_kind(did) {
            DefKind::Struct | DefKind::Enum | DefKind::Union => {
                let adt = tcx.adt_def(did);
                let mut vs = Vec::new();
                for (vi, v) in adt.variants().iter_enumerated() {
                    let mut fs = Vec::new();
                    for f in v.fields.iter() {
                        let fty = tcx.type_of(f.did).instantiate_identity().skip_norm_wip();
                        fs.push(J::obj(vec![
                            ("name", J::s(f.name.to_string())),
                            ("ty", J::s(format!("{}", fty))),
                            ("pub", J::Bool(tcx.visibility(f.did).is_public())),
                        ]));
                    }
                    let discr = if adt.is_enum() {
                        J::Num(adt.discriminant_for_variant(tcx, vi).val as i128)
                    } else {
                        J::Null
                    };
                    vs.push(J::obj(vec![
                        ("name", J::s(v.name.to_string())),
                        ("discr", discr),
                        ("fields", J::Arr(fs)),
                    ]));
                }
                let (f, l, _) = loc(tcx, tcx.def_span(did));
                adts.push(J::obj(vec![
                    ("name", J::s(defstr(tcx, did))),
                    ("kind", J::s(format!("{:?}", tcx.def_kind(did)))),
                    ("pub", J::Bool(tcx.visibility(did).is_public())),
                    ("file", J::s(f)),
                    ("line", J::Num(l as i128)),
                    ("variants", J::Arr(vs)),
                ]));
            }
            DefKind::Impl { .. } => {
                let self_ty = tcx.type_of(did).instantiate_identity().skip_norm_wip();
                let tr = tcx.impl_opt_trait_ref(did).map(|t| {
                    let t = t.instantiate_identity().skip_norm_wip();
                    (defstr(tcx, t.def_id), format!("{}", t.print_only_trait_path()))
                });
                let mut its = Vec::new();
                for it in tcx.associated_items(did).in_definition_order() {
                    let vis = tcx.visibility(it.def_id);
                    its.push(J::obj(vec![
                        ("name", J::s(it.name().to_string())),
                        ("def", J::s(defstr(tcx, it.def_id))),
                        ("kind", J::s(format!("{:?}", it.kind).split('{').next().unwrap().trim().to_string())),
                        ("pub", J::Bool(vis.is_public())),
                        ("vis", J::s(format!("{:?}", vis))),
                    ]));
                }
                let (f, l, _) = loc(tcx, tcx.def_span(did));
                impls.push(J::obj(vec![
                    ("self_ty", J::s(format!("{}", self_ty))),
                    ("trait", tr.as_ref().map(|t| J::s(t.0.clone())).unwrap_or(J::Null)),
                    ("trait_full", tr.map(|t| J::s(t.1)).unwrap_or(J::Null)),
                    ("file", J::s(f)),
                    ("line", J::Num(l as i128)),
                    ("items", J::Arr(its)),
                ]));
            }
            DefKind::Static { mutability, .. } => {
                let sty = tcx.type_of(did).instantiate_identity().skip_norm_wip();
                let (f, l, exp) = loc(tcx, tcx.def_span(did));
                statics.push(J::obj(vec![
                    ("name", J::s(defstr(tcx, did))),
                    ("ty", J::s(format!("{}", sty))),
                    ("mut", J::Bool(matches!(mutability, rustc_hir::Mutability::Mut))),
                    ("freeze", J::Bool(sty.is_freeze(tcx, TypingEnv::fully_monomorphized()))),
                    ("file", J::s(f)),
                    ("line", J::Num(l as i128)),
                    ("exp", J::Bool(exp)),
                ]));
            }
            _ => {}
        }
    }
    // profile facts: panic strategy
    let panic_strategy = format!("{:?}", tcx.sess.panic_strategy());
    J::obj(vec![
        ("crate", J::s(tcx.crate_name(LOCAL_CRATE).to_string())),
        ("test_cfg", J::Bool(is_test)),
        ("panic_strategy", J::s(panic_strategy)),
        ("overflow_checks", J::Bool(tcx.sess.overflow_checks())),
        ("bodies", J::Arr(bodies)),
        ("adts", J::Arr(adts)),
        ("impls", J::Arr(impls)),
        ("statics", J::Arr(statics)),
    ])
}

struct Cx<'a, 'tcx> {
    tcx: TyCtxt<'tcx>,
    body: &'a Body<'tcx>,
    env: TypingEnv<'tcx>,
}

fn export_body<'tcx>(tcx: TyCtxt<'tcx>, did: DefId, kind: DefKind, body: &Body<'tcx>) -> J {
    let cx = Cx { tcx, body, env: TypingEnv::post_analysis(tcx, did) };
    let (file, line, exp) = loc(tcx, body.span);
    let mut locals = Vec::new();
    let mut names: Vec<Option<String>> = vec![None; body.local_decls.len()];
    for vdi in &body.var_debug_info {
        if let VarDebugInfoContents::Place(p) = &vdi.value {
            if p.projection.is_empty() {
                names[p.local.as_usize()] = Some(vdi.name.to_string());
            }
        }
    }
    for (l, d) in body.local_decls.iter_enumerated() {
        locals.push(J::obj(vec![
            ("ty", J::s(format!("{}", d.ty))),
            ("name", names[l.as_usize()].clone().map(J::s).unwrap_or(J::Null)),
            ("user", J::Bool(names[l.as_usize()].is_some())),
            ("mut", J::Bool(d.mutability.is_mut())),
        ]));
    }
    // upvar debug names for closures
    let mut upvars = Vec::new();
    for vdi in &body.var_debug_info {
        if let VarDebugInfoContents::Place(p) = &vdi.value {
            if !p.projection.is_empty() {
                upvars.push(J::obj(vec![
                    ("name", J::s(vdi.name.to_string())),
                    ("place", cx.place(*p)),
                ]));
            }
        }
    }
    let mut blocks = Vec::new();
    for (_bb, data) in body.basic_blocks.iter_enumerated() {
        let mut stmts = Vec::new();
        for st in &data.statements {
            let (_, sl, sexp) = loc(tcx, st.source_info.span);
            match &st.kind {
                StatementKind::Assign(b) => {
                    let (p, r) = &**b;
                    stmts.push(J::obj(vec![
                        ("k", J::s("assign")),
                        ("p", cx.place(*p)),
                        ("r", cx.rvalue(r)),
                        ("line", J::Num(sl as i128)),
                        ("exp", J::Bool(sexp)),
                    ]));
                }
                StatementKind::SetDiscriminant { place, variant_index } => {
                    stmts.push(J::obj(vec![
                        ("k", J::s("setdiscr")),
                        ("p", cx.place(**place)),
                        ("v", J::Num(variant_index.as_usize() as i128)),
                        ("line", J::Num(sl as i128)),
                    ]));
                }
                StatementKind::Intrinsic(i) => {
                    stmts.push(J::obj(vec![
                        ("k", J::s("intrinsic")),
                        ("dbg", J::s(format!("{:?}", i))),
                        ("line", J::Num(sl as i128)),
                    ]));
                }
                StatementKind::StorageDead(l) => {
                    stmts.push(J::obj(vec![
                        ("k", J::s("dead")),
                        ("l", J::Num(l.as_usize() as i128)),
                    ]));
                }
                _ => {}
            }
        }
        let term = data.terminator();
        let (_, tl, texp) = loc(tcx, term.source_info.span);
        let mut t = cx.terminator(term);
        if let J::Obj(v) = &mut t {
            v.push(("line", J::Num(tl as i128)));
            v.push(("exp", J::Bool(texp)));
        }
        blocks.push(J::obj(vec![
            ("cleanup", J::Bool(data.is_cleanup)),
            ("stmts", J::Arr(stmts)),
            ("term", t),
        ]));
    }
    let parent = if matches!(kind, DefKind::Closure) {
        J::s(defstr(tcx, tcx.parent(did)))
    } else {
        J::Null
    };
    let vis = match kind {
        DefKind::Fn | DefKind::AssocFn => format!("{:?}", tcx.visibility(did)),
        _ => String::new(),
    };
    let is_pub = match kind {
        DefKind::Fn | DefKind::AssocFn => tcx.visibility(did).is_public(),
        _ => false,
    };
    // impl-of info
    let mut impl_self = J::Null;
    let mut impl_trait = J::Null;
    if matches!(kind, DefKind::AssocFn) {
        let p = tcx.parent(did);
        if matches!(tcx.def_kind(p), DefKind::Impl { .. }) {
            impl_self = J::s(format!("{}", tcx.type_of(p).instantiate_identity().skip_norm_wip()));
            if let Some(t) = tcx.impl_opt_trait_ref(p) {
                impl_trait = J::s(defstr(tcx, t.instantiate_identity().skip_norm_wip().def_id));
            }
        }
    }
    J::obj(vec![
        ("def", J::s(defstr(tcx, did))),
        ("kind", J::s(format!("{:?}", kind))),
        ("parent", parent),
        ("file", J::s(file)),
        ("line", J::Num(line as i128)),
        ("exp", J::Bool(exp)),
        ("vis", J::s(vis)),
        ("pub", J::Bool(is_pub)),
        ("impl_self", impl_self),
        ("impl_trait", impl_trait),
        ("argc", J::Num(body.arg_count as i128)),
        ("ret_ty", J::s(format!("{}", body.return_ty()))),
        ("locals", J::Arr(locals)),
        ("upvars", J::Arr(upvars)),
        ("blocks", J::Arr(blocks)),
    ])
}

impl<'a, 'tcx> Cx<'a, 'tcx> {
    fn place(&self, p: Place<'tcx>) -> J {
        let tcx = self.tcx;
        let mut proj = Vec::new();
        let mut pty = PlaceTy::from_ty(self.body.local_decls[p.local].ty);
        for elem in p.projection.iter() {
            let j = match elem {
                ProjectionElem::Deref => J::obj(vec![("k", J::s("deref"))]),
                ProjectionElem::Field(f, fty) => {
                    let (name, adt) = match pty.ty.kind() {
                        ty::Adt(def, _) => {
                            let v = pty.variant_index.unwrap_or(rustc_abi::FIRST_VARIANT);
                            let vd = def.variant(v);
                            let n = vd
                                .fields
                                .get(f)
                                .map(|fd| fd.name.to_string())
                                .unwrap_or_else(|| format!("{}", f.as_usize()));
                            (n, Some(defstr(tcx, def.did())))
                        }
                        _ => (format!("{}", f.as_usize()), None),
                    };
                    J::obj(vec![
                        ("k", J::s("field")),
                        ("i", J::Num(f.as_usize() as i128)),
                        ("n", J::s(name)),
                        ("adt", adt.map(J::s).unwrap_or(J::Null)),
                        ("ty", J::s(format!("{}", fty))),
                    ])
                }
                ProjectionElem::Index(l) => J::obj(vec![
                    ("k", J::s("index")),
                    ("l", J::Num(l.as_usize() as i128)),
                ]),
                ProjectionElem::ConstantIndex { offset, min_length, from_end } => J::obj(vec![
                    ("k", J::s("cindex")),
                    ("off", J::Num(offset as i128)),
                    ("min", J::Num(min_length as i128)),
                    ("from_end", J::Bool(from_end)),
                ]),
                ProjectionElem::Subslice { from, to, from_end } => J::obj(vec![
                    ("k", J::s("subslice")),
                    ("from", J::Num(from as i128)),
                    ("to", J::Num(to as i128)),
                    ("from_end", J::Bool(from_end)),
                ]),
                ProjectionElem::Downcast(name, v) => J::obj(vec![
                    ("k", J::s("downcast")),
                    ("v", J::Num(v.as_usize() as i128)),
                    ("n", name.map(|s| J::s(s.to_string())).unwrap_or_else(|| {
                        match pty.ty.kind() {
                            ty::Adt(def, _) if v.as_usize() < def.variants().len() => {
                                J::s(def.variant(v).name.to_string())
                            }
                            _ => J::Null,
                        }
                    })),
                ]),
                ProjectionElem::OpaqueCast(_) => J::obj(vec![("k", J::s("opaquecast"))]),
                ProjectionElem::UnwrapUnsafeBinder(_) => J::obj(vec![("k", J::s("unwrapbinder"))]),
            };
            proj.push(j);
            pty = pty.projection_ty(tcx, elem);
        }
        J::obj(vec![
            ("l", J::Num(p.local.as_usize() as i128)),
            ("proj", J::Arr(proj)),
            ("ty", J::s(format!("{}", pty.ty))),
        ])
    }

    fn operand(&self, o: &Operand<'tcx>) -> J {
        match o {
            Operand::Copy(p) => J::obj(vec![("k", J::s("copy")), ("p", self.place(*p))]),
            Operand::Move(p) => J::obj(vec![("k", J::s("move")), ("p", self.place(*p))]),
            Operand::Constant(c) => self.constant(c),
            #[allow(unreachable_patterns)]
            other => J::obj(vec![("k", J::s("const")), ("ty", J::s("?")), ("dbg", J::s(format!("{:?}", other)))]),
        }
    }

    fn constant(&self, c: &ConstOperand<'tcx>) -> J {
        let tcx = self.tcx;
        let ty = c.const_.ty();
        let mut v = vec![("k", J::s("const")), ("ty", J::s(format!("{}", ty)))];
        match ty.kind() {
            ty::FnDef(d, args) => {
                v.push(("fn", J::s(defstr(tcx, *d))));
                v.push(("fn_inst", J::s(tcx.def_path_str_with_args(*d, args))));
            }
            _ => {}
        }
        if let Const::Unevaluated(u, _) = c.const_ {
            v.push(("named", J::s(defstr(tcx, u.def))));
            if u.promoted.is_some() {
                v.push(("promoted", J::Bool(true)));
            }
        }
        let is_scalar_ty = ty.is_integral() || ty.is_bool() || ty.is_char() || ty.is_floating_point();
        if is_scalar_ty {
            if let Some(si) = c.const_.try_eval_scalar_int(tcx, self.env) {
                let size = si.size();
                let bits = si.to_bits(size);
                v.push(("v", J::Big(bits)));
                v.push(("bits", J::Num(size.bits() as i128)));
                if ty.is_signed() {
                    let sv = size.sign_extend(bits) as i128;
                    v.push(("sv", J::Num(sv)));
                }
            }
        } else if let Ok(val) = c.const_.eval(tcx, self.env, c.span) {
            // string / byte-slice constants
            if let ConstValue::Slice { alloc_id, meta } = val {
                if meta <= 4096 {
                    if let Some(ga) = tcx.try_get_global_alloc(alloc_id) {
                        if let mir::interpret::GlobalAlloc::Memory(m) = ga {
                            let bytes = m
                                .inner()
                                .inspect_with_uninit_and_ptr_outside_interpreter(0..meta as usize);
                            v.push(("str", J::s(String::from_utf8_lossy(bytes).to_string())));
                        }
                    }
                }
            } else if let ConstValue::Indirect { alloc_id, offset } = val {
                // a named `const X: &[u8] / &str = ..`: the fat pointer itself lives in an allocation (pointer word with provenance + length word)
                if let Some(mir::interpret::GlobalAlloc::Memory(m)) = tcx.try_get_global_alloc(alloc_id) {
                    let a = m.inner();
                    let off = offset.bytes() as usize;
                    let is_fat = matches!(ty.kind(), ty::Ref(_, inner, _) if inner.is_slice() || inner.is_str());
                    if is_fat && a.len() >= off + 16 {
                        let raw = a.inspect_with_uninit_and_ptr_outside_interpreter(off..off + 16);
                        let mut pw = [0u8; 8];
                        pw.copy_from_slice(&raw[0..8]);
                        let mut lw = [0u8; 8];
                        lw.copy_from_slice(&raw[8..16]);
                        let poff = u64::from_le_bytes(pw) as usize;
                        let plen = u64::from_le_bytes(lw) as usize;
                        for (at, prov) in a.provenance().ptrs().iter() {
                            if at.bytes() as usize == off {
                                if let Some(mir::interpret::GlobalAlloc::Memory(tm)) = tcx.try_get_global_alloc(prov.alloc_id()) {
                                    let ta = tm.inner();
                                    if plen <= 4096 && poff + plen <= ta.len() {
                                        let bytes = ta.inspect_with_uninit_and_ptr_outside_interpreter(poff..poff + plen);
                                        v.push(("str", J::s(String::from_utf8_lossy(bytes).to_string())));
                                    }
                                }
                            }
                        }
                    }
                }
            } else if let ConstValue::Scalar(mir::interpret::Scalar::Int(si)) = val {
                // e.g. C-like enum constants, newtypes around ints
                let size = si.size();
                v.push(("v", J::Big(si.to_bits(size))));
                v.push(("bits", J::Num(size.bits() as i128)));
            } else if let ConstValue::Scalar(mir::interpret::Scalar::Ptr(ptr, _)) = val {
                // reference to a constant allocation (e.g. &[u8; N], &'static str pieces): dump bytes
                let (prov, off) = ptr.into_raw_parts();
                if let Some(mir::interpret::GlobalAlloc::Memory(m)) = tcx.try_get_global_alloc(prov.alloc_id()) {
                    let a = m.inner();
                    let len = a.len();
                    let off = off.bytes() as usize;
                    if len <= 4096 && off <= len && a.provenance().ptrs().is_empty() {
                        let bytes = a.inspect_with_uninit_and_ptr_outside_interpreter(off..len);
                        v.push(("bytes", J::s(String::from_utf8_lossy(bytes).to_string())));
                        v.push(("bytes_len", J::Num((len - off) as i128)));
                        let hex: String = bytes.iter().map(|b| format!("{:02x}", b)).collect();
                        v.push(("pbytes", J::s(hex)));
                        if bytes.len() <= 16 && !bytes.is_empty() {
                            let mut x: u128 = 0;
                            for (i, b) in bytes.iter().enumerate() {
                                x |= (*b as u128) << (8 * i);
                            }
                            v.push(("pv", J::Big(x)));
                        }
                    }
                }
            }
        }
        J::Obj(v)
    }

    fn rvalue(&self, r: &Rvalue<'tcx>) -> J {
        let tcx = self.tcx;
        match r {
            Rvalue::Use(o, ..) => J::obj(vec![("k", J::s("use")), ("o", self.operand(o))]),
            Rvalue::Repeat(o, n) => J::obj(vec![
                ("k", J::s("repeat")),
                ("o", self.operand(o)),
                ("n", J::s(format!("{}", n))),
            ]),
            Rvalue::Ref(_, bk, p) => J::obj(vec![
                ("k", J::s("ref")),
                (
                    "bk",
                    J::s(match bk {
                        BorrowKind::Shared => "shared",
                        BorrowKind::Fake(_) => "fake",
                        BorrowKind::Mut { .. } => "mut",
                    }),
                ),
                ("p", self.place(*p)),
            ]),
            Rvalue::RawPtr(k, p) => J::obj(vec![
                ("k", J::s("rawptr")),
                ("bk", J::s(format!("{:?}", k))),
                ("p", self.place(*p)),
            ]),
            Rvalue::ThreadLocalRef(d) => J::obj(vec![("k", J::s("tlref")), ("def", J::s(defstr(tcx, *d)))]),
            Rvalue::Cast(ck, o, ty) => {
                let from = o.ty(self.body, tcx);
                J::obj(vec![
                    ("k", J::s("cast")),
                    ("ck", J::s(format!("{:?}", ck).split('(').next().unwrap().to_string())),
                    ("o", self.operand(o)),
                    ("from", J::s(format!("{}", from))),
                    ("ty", J::s(format!("{}", ty))),
                ])
            }
            Rvalue::BinaryOp(op, b) => {
                let (a, c) = &**b;
                J::obj(vec![
                    ("k", J::s("binop")),
                    ("op", J::s(format!("{:?}", op))),
                    ("a", self.operand(a)),
                    ("b", self.operand(c)),
                    ("ty", J::s(format!("{}", a.ty(self.body, tcx)))),
                ])
            }
            Rvalue::UnaryOp(op, o) => J::obj(vec![
                ("k", J::s("unop")),
                ("op", J::s(format!("{:?}", op))),
                ("o", self.operand(o)),
            ]),
            Rvalue::Discriminant(p) => J::obj(vec![("k", J::s("discr")), ("p", self.place(*p))]),
            Rvalue::Aggregate(ak, ops) => {
                let mut v = vec![("k", J::s("agg"))];
                match &**ak {
                    AggregateKind::Array(t) => {
                        v.push(("ak", J::s("array")));
                        v.push(("elem_ty", J::s(format!("{}", t))));
                    }
                    AggregateKind::Tuple => v.push(("ak", J::s("tuple"))),
                    AggregateKind::Adt(d, vi, _args, _, active) => {
                        v.push(("ak", J::s("adt")));
                        let def = tcx.adt_def(*d);
                        v.push(("adt", J::s(defstr(tcx, *d))));
                        v.push(("variant", J::Num(vi.as_usize() as i128)));
                        let vd = def.variant(*vi);
                        v.push(("vname", J::s(vd.name.to_string())));
                        let fns: Vec<J> = if let Some(a) = active {
                            vec![J::s(vd.fields[*a].name.to_string())]
                        } else {
                            vd.fields.iter().map(|f| J::s(f.name.to_string())).collect()
                        };
                        v.push(("fields", J::Arr(fns)));
                    }
                    AggregateKind::Closure(d, _) => {
                        v.push(("ak", J::s("closure")));
                        v.push(("closure", J::s(defstr(tcx, *d))));
                    }
                    AggregateKind::Coroutine(d, _) | AggregateKind::CoroutineClosure(d, _) => {
                        v.push(("ak", J::s("coroutine")));
                        v.push(("closure", J::s(defstr(tcx, *d))));
                    }
                    AggregateKind::RawPtr(..) => v.push(("ak", J::s("rawptr"))),
                }
                v.push(("ops", J::Arr(ops.iter().map(|o| self.operand(o)).collect())));
                J::Obj(v)
            }
            Rvalue::CopyForDeref(p) => J::obj(vec![("k", J::s("use")), ("o", J::obj(vec![("k", J::s("copy")), ("p", self.place(*p))])), ("cfd", J::Bool(true))]),
            other => J::obj(vec![("k", J::s("other")), ("dbg", J::s(format!("{:?}", other)))]),
        }
    }

    fn callee(&self, func: &Operand<'tcx>) -> J {
        let tcx = self.tcx;
        let fty = func.ty(self.body, tcx);
        match fty.kind() {
            ty::FnDef(d, args) => {
                let mut v = vec![
                    ("def", J::s(defstr(tcx, *d))),
                    ("inst", J::s(tcx.def_path_str_with_args(*d, args))),
                    ("local", J::Bool(d.is_local())),
                    ("crate", J::s(tcx.crate_name(d.krate).to_string())),
                ];
                // generic args as strings (types only)
                let targs: Vec<J> = args
                    .iter()
                    .filter_map(|a| a.as_type().map(|t| J::s(format!("{}", t))))
                    .collect();
                v.push(("targs", J::Arr(targs)));
                // size_of::<T>() / align_of::<T>() for a concrete T: record the layout facts
                let dn = defstr(tcx, *d);
                if dn == "std::mem::size_of" || dn == "std::mem::align_of" || dn == "core::mem::size_of" || dn == "core::mem::align_of" {
                    if let Some(t) = args.iter().find_map(|a| a.as_type()) {
                        if !t.has_non_region_param() {
                            if let Ok(l) = tcx.layout_of(self.env.as_query_input(t)) {
                                if dn.ends_with("size_of") {
                                    v.push(("layout_value", J::Num(l.size.bytes() as i128)));
                                } else {
                                    v.push(("layout_value", J::Num(l.align.abi.bytes() as i128)));
                                }
                            }
                        }
                    }
                }
                let is_trait_item = tcx.trait_of_assoc(*d).is_some();
                v.push(("trait_item", J::Bool(is_trait_item)));
                if let Some(t) = tcx.trait_of_assoc(*d) {
                    v.push(("trait", J::s(defstr(tcx, t))));
                }
                // resolve
                let resolved = if is_trait_item {
                    match Instance::try_resolve(tcx, self.env, *d, args) {
                        Ok(Some(inst)) => {
                            let rd = inst.def_id();
                            if rd != *d {
                                Some((defstr(tcx, rd), rd.is_local(), matches!(tcx.def_kind(rd), DefKind::Closure)))
                            } else {
                                None
                            }
                        }
                        _ => None,
                    }
                } else {
                    None
                };
                if let Some((r, l, c)) = resolved {
                    v.push(("resolved", J::s(r)));
                    v.push(("resolved_local", J::Bool(l)));
                    v.push(("resolved_closure", J::Bool(c)));
                }
                J::Obj(v)
            }
            _ => J::obj(vec![
                ("def", J::Null),
                ("indirect", J::Bool(true)),
                ("fn_ty", J::s(format!("{}", fty))),
                ("op", self.operand(func)),
            ]),
        }
    }

    fn terminator(&self, t: &Terminator<'tcx>) -> J {
        let bb = |b: BasicBlock| J::Num(b.as_usize() as i128);
        let unwind = |u: &UnwindAction| match u {
            UnwindAction::Cleanup(b) => J::Num(b.as_usize() as i128),
            UnwindAction::Continue => J::s("continue"),
            UnwindAction::Unreachable => J::s("unreachable"),
            UnwindAction::Terminate(_) => J::s("terminate"),
        };
        match &t.kind {
            TerminatorKind::Goto { target } => J::obj(vec![("k", J::s("goto")), ("t", bb(*target))]),
            TerminatorKind::SwitchInt { discr, targets } => {
                let mut ts = Vec::new();
                for (val, b) in targets.iter() {
                    ts.push(J::Arr(vec![J::Big(val), bb(b)]));
                }
                J::obj(vec![
                    ("k", J::s("switch")),
                    ("o", self.operand(discr)),
                    ("oty", J::s(format!("{}", discr.ty(self.body, self.tcx)))),
                    ("targets", J::Arr(ts)),
                    ("otherwise", bb(targets.otherwise())),
                ])
            }
            TerminatorKind::UnwindResume => J::obj(vec![("k", J::s("resume"))]),
            TerminatorKind::UnwindTerminate(_) => J::obj(vec![("k", J::s("abort"))]),
            TerminatorKind::Return => J::obj(vec![("k", J::s("return"))]),
            TerminatorKind::Unreachable => J::obj(vec![("k", J::s("unreachable"))]),
            TerminatorKind::Drop { place, target, unwind: u, .. } => J::obj(vec![
                ("k", J::s("drop")),
                ("p", self.place(*place)),
                ("t", bb(*target)),
                ("unwind", unwind(u)),
            ]),
            TerminatorKind::Call { func, args, destination, target, unwind: u, call_source, .. } => {
                J::obj(vec![
                    ("k", J::s("call")),
                    ("callee", self.callee(func)),
                    ("args", J::Arr(args.iter().map(|a| self.operand(&a.node)).collect())),
                    ("dest", self.place(*destination)),
                    ("t", target.map(bb).unwrap_or(J::Null)),
                    ("unwind", unwind(u)),
                    ("src", J::s(format!("{:?}", call_source))),
                ])
            }
            TerminatorKind::TailCall { func, args, .. } => J::obj(vec![
                ("k", J::s("tailcall")),
                ("callee", self.callee(func)),
                ("args", J::Arr(args.iter().map(|a| self.operand(&a.node)).collect())),
            ]),
            TerminatorKind::Assert { cond, expected, msg, target, unwind: u } => {
                let m = match &**msg {
                    AssertKind::BoundsCheck { len, index } => J::obj(vec![
                        ("k", J::s("BoundsCheck")),
                        ("len", self.operand(len)),
                        ("index", self.operand(index)),
                    ]),
                    AssertKind::Overflow(op, a, b) => J::obj(vec![
                        ("k", J::s("Overflow")),
                        ("op", J::s(format!("{:?}", op))),
                        ("a", self.operand(a)),
                        ("b", self.operand(b)),
                    ]),
                    AssertKind::OverflowNeg(a) => J::obj(vec![("k", J::s("OverflowNeg")), ("a", self.operand(a))]),
                    AssertKind::DivisionByZero(a) => J::obj(vec![("k", J::s("DivisionByZero")), ("a", self.operand(a))]),
                    AssertKind::RemainderByZero(a) => J::obj(vec![("k", J::s("RemainderByZero")), ("a", self.operand(a))]),
                    other => J::obj(vec![("k", J::s("Other")), ("dbg", J::s(format!("{:?}", other).chars().take(60).collect::<String>()))]),
                };
                J::obj(vec![
                    ("k", J::s("assert")),
                    ("cond", self.operand(cond)),
                    ("expected", J::Bool(*expected)),
                    ("msg", m),
                    ("t", bb(*target)),
                    ("unwind", unwind(u)),
                ])
            }
            TerminatorKind::FalseEdge { real_target, .. } => J::obj(vec![("k", J::s("goto")), ("t", bb(*real_target))]),
            TerminatorKind::FalseUnwind { real_target, .. } => J::obj(vec![("k", J::s("goto")), ("t", bb(*real_target))]),
            other => J::obj(vec![("k", J::s("other")), ("dbg", J::s(format!("{:?}", other).chars().take(80).collect::<String>()))]),
        }
    }
}

#[allow(dead_code)]
fn _unused<'tcx>(_: Ty<'tcx>) {}
