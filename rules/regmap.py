"""Shared register-map engine for C04/reg-map and C05/greg-map: every CONTEXT field is stored on every path
and its origin is the source register the ABI table names."""
import json, os
from engine.mir import CalleeView, norm
from engine.origin import Origin, strip, core, show, root, walk, is_const

VERIF = os.path.dirname(os.path.dirname(os.path.abspath(__file__)))
ABI = json.load(open(os.path.join(VERIF, "tables", "abi_x86_64.json")))


def out_stores(b, o, out_param=2):
    """field name -> list of (block, stmt, origin) for stores (*out).FIELD = v"""
    res = {}
    for bi, blk in enumerate(b.blocks):
        for si, st in enumerate(blk["stmts"]):
            if st["k"] != "assign":
                continue
            p = st["p"]
            if p["l"] == out_param and len(p["proj"]) == 2 and p["proj"][0]["k"] == "deref" and p["proj"][1]["k"] == "field":
                res.setdefault(p["proj"][1]["n"], []).append((bi, si, o._rvalue(st["r"], (bi, si), 0)))
    return res


def on_every_path(b, bi):
    rets = [i for i in range(b.n) if b.term(i)["k"] == "return"]
    return all(b.dominates(bi, r) for r in rets)


def check_float_block(ctx, R, b, o, src_pred, what):
    """XMM_SAVE_AREA32 built from the FXSAVE image `src` and pwritten into out.float_save at offset 0"""
    pw = list(b.calls(lambda c: (c.short or "").endswith("Pwrite::pwrite_with")))
    ctx.floor(R, "pwrite_with of the float save area in %s" % what, len(pw), 1)
    for bi, t in pw:
        a = o.call_args(bi)
        dst = strip(a[0])
        ctx.check(dst[0] == "field" and dst[2] == "float_save" and root(dst[1]) == ("param", 2) and a[2] == ("const", 0, "usize") and on_every_path(b, bi),
                  R, (what, "float_save@0"), b.where(bi), "the save area is written into out.float_save at offset 0 on every path", "float save written to %s at %s" % (show(dst), show(a[2])))
        v = strip(a[1])
        if not (v[0] == "agg" and v[1].endswith("XMM_SAVE_AREA32")):
            ctx.unproven(R, (what, "float-agg"), b.where(bi), "written float area is not an XMM_SAVE_AREA32 aggregate: %s" % show(v)[:120])
            continue
        d = dict(v[3])
        for dstf, srcf in ABI["fxsave"].items():
            e = core(d.get(dstf))
            ok = e is not None and e[0] == "field" and e[2] == srcf and src_pred(e[1])
            ctx.check(ok, R, (what, "fx." + dstf), b.where(bi), "%s <- %s" % (dstf, srcf), "%s is filled from %s (FXSAVE layout says %s)" % (dstf, show(e)[:100], srcf))
        for z in ABI["fxsave_zero"]:
            e = core(d.get(z))
            ctx.check(e == ("const", 0, "u16") or (is_const(e) and e[1] == 0), R, (what, "fx." + z), b.where(bi), "%s = 0 (not available on x86-64 Linux)" % z, "%s is %s" % (z, show(e)))
    cps = list(b.calls(lambda c: c.is_("linux::thread_info::copy_u32_registers")))
    seen = {}
    for bi, t in cps:
        a = o.call_args(bi)
        d_, s_ = strip(a[0]), strip(a[1])
        if d_[0] == "field" and s_[0] == "field":
            seen[d_[2]] = (s_[2], src_pred(s_[1]), bi, on_every_path(b, bi))
    for dstf, srcf in ABI["fxsave_blocks"].items():
        got = seen.get(dstf)
        ctx.check(got is not None and got[0] == srcf and got[1] and got[3], R, (what, "fx." + dstf), b.where(got[2]) if got else b.where(0),
                  "%s <- %s (register block copy, on every path)" % (dstf, srcf), "%s is copied from %s" % (dstf, got[0] if got else "nothing"))
    # the copies precede the pwrite
    for bi, t in pw:
        ctx.check(all(b.dominates(c, bi) for c, _ in cps) and len(cps) >= 2, R, (what, "blocks-before-write"), b.where(bi), "register blocks are filled before the area is serialised", "register block copies do not precede the serialisation")
