"""Small accessors and pass-through wrappers that the bigger rules look *through* by name: each returns exactly what its name says.
The bigger rules identify a value by the call that produced it (`get_entry_address(...)`, `position()`, `create(pid, tid)`), so a getter
that hands back a sibling field, or a wrapper that swaps its arguments, would make every one of them agree with a wrong program.  The
table was filled by listing the functions reachable from `dump()` that no rule instance pointed into (round 12) and reading each."""
from engine.origin import strip, nosite, show
from engine.summ import return_origins

P1, P2, P3 = ("param", 1), ("param", 2), ("param", 3)
AUXV = "linux::auxv::AuxvDumpInfo::"


def _is_call(e, name, args=None):
    e = strip(e)
    if not (e[0] == "call" and e[1] == name):
        return False
    return args is None or (len(e[2]) == len(args) and all(_match(a, w) for a, w in zip(e[2], args)))


def _match(e, want):
    """structural match of an origin expression against a pattern; ("call", name, (args...)) patterns ignore call sites, "*" matches all"""
    if want == "*":
        return True
    e = strip(e)
    if isinstance(want, tuple) and want and want[0] == "call":
        return _is_call(e, want[1], want[2] if len(want) > 2 else None)
    if isinstance(want, tuple) and want and want[0] == "peel":     # ("peel", (wrappers...), inner): skip Option/Result/ref adapters
        while e[0] in want[1] and len(e) > 1:
            e = strip(e[1])
        return _match(e, want[2])
    if isinstance(want, tuple) and want and want[0] == "any":      # ("any", p1, p2, ...): one of several spellings
        return any(_match(e, w) for w in want[1:])
    if isinstance(want, tuple) and want and want[0] == "agg":
        return e[0] == "agg" and e[2] == want[1] and dict((k, None) for k, _ in e[3]).keys() == dict(want[2]).keys() and all(_match(dict(e[3])[k], w) for k, w in want[2])
    if isinstance(want, tuple) and isinstance(e, tuple):
        return len(e) >= len(want) and all(_match(x, w) if isinstance(w, tuple) or w == "*" else x == w for x, w in zip(e, want))
    return e == want


# function -> (expected return pattern, what it says, properties that lean on it)
TABLE = {
    AUXV + "get_program_header_count": (("field", P1, "program_header_count"), "the AT_PHNUM value", ("C18",)),
    AUXV + "get_program_header_address": (("field", P1, "program_header_address"), "the AT_PHDR value", ("C18",)),
    AUXV + "get_linux_gate_address": (("field", P1, "linux_gate_address"), "the AT_SYSINFO_EHDR value", ("C18", "C13", "C11")),
    AUXV + "get_entry_address": (("field", P1, "entry_address"), "the AT_ENTRY value", ("C18", "C08")),
    "dir_section::DirSection::position": (("field", ("field", P1, "section"), "position"), "the rva of the directory array", ("C01", "C10")),
    "linux::maps_reader::MappingInfo::name_is_path": (("call", "linux::maps_reader::is_mapping_a_path", (("field", P1, "name"),)), "is_mapping_a_path of the mapping's own name", ("C13", "C08")),
    "linux::maps_reader::MappingInfo::end_address": (("any", ("bin", "Add", ("field", P1, "start_address"), ("field", P1, "size")), ("bin", "Add", ("field", P1, "size"), ("field", P1, "start_address"))), "start_address + size", ("C13",)),
    "linux::maps_reader::MappingInfo::so_version": (("call", "linux::maps_reader::SoVersion::parse", (("peel", ("okval", "some", "ref", "deref"), ("field", P1, "name")),)), "the version suffix parsed from the mapping's own name", ("C08",)),
    "linux::thread_info::<impl linux::thread_info::x86::ThreadInfoX86>::create": (("call", "linux::thread_info::x86::ThreadInfoX86::create_impl", (P1, P2)), "create_impl(pid, tid) in that order", ("C04", "C05")),
    "linux::ptrace_dumper::PtraceDumper::get_thread_info_by_index": (
        ("call", "linux::thread_info::<impl linux::thread_info::x86::ThreadInfoX86>::create",
         (("field", P1, "pid"), ("field", ("call", "<std::vec::Vec<T, A> as std::ops::Index<I>>::index", (("field", P1, "threads"), P2)), "tid"))),
        "the registers of threads[index].tid of this dumper's process", ("C04", "C06")),
    "<mem_writer::Buffer as std::ops::Deref>::deref": (("field", P1, "inner"), "the whole image", ("C09", "C16")),
    "mem_writer::<impl std::convert::From<mem_writer::Buffer> for std::vec::Vec<u8>>::from": (("field", P1, "inner"), "the whole image, as built", ("C16", "C09", "C01")),
    "linux::module_reader::DynIter::new": (("agg", "DynIter", (("data", P1), ("offset", ("const", 0, "usize")), ("ctx", P2))), "a walk over the given bytes from their first byte with the given context", ("C14",)),
    "linux::dumper_cpu_info::x86_mips::CpuInfoEntry::new": (("agg", "CpuInfoEntry", (("info_name", P1), ("value", P2), ("found", P3))), "the entry as given", ("C18",)),
}


NO_CALLS = {AUXV + "get_program_header_count", AUXV + "get_program_header_address", AUXV + "get_linux_gate_address", AUXV + "get_entry_address",
            "dir_section::DirSection::position", "<mem_writer::Buffer as std::ops::Deref>::deref",
            "mem_writer::<impl std::convert::From<mem_writer::Buffer> for std::vec::Vec<u8>>::from"}


def rule_accessors(ctx, P, R=None):
    R = R or P + "/accessors"
    n = 0
    for fn, (want, what, props) in sorted(TABLE.items()):
        if P not in props:
            continue
        b = ctx.body(R, fn)
        if b is None:
            continue
        outs = return_origins(ctx.prog, fn)
        short = "::".join(fn.split("::")[-2:]).replace("<impl linux::thread_info::x86::ThreadInfoX86>", "ThreadInfo") if not fn.startswith("<") else "Buffer::deref"
        if "From<mem_writer::Buffer>" in fn:
            short = "Vec::from(Buffer)"
        if not outs:
            ctx.unproven(R, (short,), b.where(0), "cannot enumerate what %s returns" % short)
            continue
        n += 1
        # every non-error alternative is the expected expression (get_thread_info_by_index also has its index guard's Err)
        alts_ = [strip(e) for e in outs]
        vals = [e for e in alts_ if not (e[0] == "agg" and e[2] == "Err")]
        ok = bool(vals) and all(_match(e, want) for e in vals)
        ctx.check(ok, R, (short,), b.where(0), "%s is %s" % (short, what), "%s is not %s: it returns %s" % (short, what, [show(e)[:90] for e in vals]))
        # a value handed out "as is" is also not edited in place on the way (the origin of a local does not change when it is mutated
        # through `&mut`): a plain field hand-out makes no calls at all
        if fn in NO_CALLS:
            from engine.mir import CalleeView
            calls = [(CalleeView(t["callee"]).short or "?").split("::")[-1] for _, t in b.calls()]
            calls = [c for c in calls if not c.startswith("drop") and c not in ("deref", "as_slice", "as_ref", "borrow", "clone")]
            ctx.check(not calls, R, (short, "untouched"), b.where(0), "%s hands the value out without calling anything on it" % short,
                      "%s calls %s before handing the value out: what the caller receives is an edited copy (truncated, filtered, re-ordered), not %s" % (short, calls[:4], what))
    ctx.floor(R, "accessors and pass-through wrappers", n, sum(1 for v in TABLE.values() if P in v[2]))


def rule_so_name(ctx, R="C08/so-name-from-file"):
    """the file-based SONAME fallback reads the mapping's own file at the mapping's own offset, through the same SONAME reader as the
    in-memory attempt"""
    from engine.origin import walk
    fn = "linux::maps_reader::MappingInfo::so_name"
    b = ctx.body(R, fn)
    if b is None:
        return
    outs = return_origins(ctx.prog, fn) or []
    vals = [strip(e) for e in outs]
    vals = [dict(e[3]).get("0") if e[0] == "agg" and e[2] == "Ok" else e for e in vals if not (e[0] == "agg" and e[2] == "Err")]
    ok = bool(vals)
    for e in vals:
        mm = [q for q in walk(e) if q[0] == "call" and q[1].endswith("MappingInfo::get_mmap")]
        rd = [q for q in walk(e) if q[0] == "call" and q[1].endswith("SoName as linux::module_reader::ReadFromModule>::read_from_module")]
        ok = ok and len(mm) >= 1 and len(rd) >= 1 and all(len(q[2]) == 2 and _match(q[2][0], ("peel", ("ref", "deref"), ("field", P1, "name"))) and _match(q[2][1], ("field", P1, "offset")) for q in mm) \
            and all(any(x[0] == "call" and x[1].endswith("MappingInfo::get_mmap") for x in walk(q[2][0])) for q in rd)
    ctx.check(ok, R, "source", b.where(0), "so_name reads SoName from get_mmap(self.name, self.offset)", "so_name returns %s" % [show(e)[:120] for e in vals])
