"""C17 — all remote-memory read strategies return the target's bytes (structural clauses on mem_reader.rs)."""
from engine.mir import CalleeView, norm
from engine.origin import Origin, strip, core, show, root, walk, nosite, is_const, alts, field_of
from engine.paths import Exits, must_pass, conditions, switch_atom, witness_path
from engine import ipe

PROPERTY = "C17"
EXPLANATION = ("(args) vmem: remote iovec = (src, dst.len()), local iovec = dst, the syscall's count is returned unchanged; file: "
               "read_exact_at(dst, src) and dst.len() is returned only on success; ptrace: word k is read at src + 8k (counter advanced by 8 once "
               "per word) and copied to chunk k; (no-over-read) every PTRACE_PEEKDATA word covers [addr, addr+8): it is allowed only when its bytes "
               "go to a full 8-byte chunk of the destination, or when addr is aligned down to the word size (an aligned word never crosses a page); "
               "(prefix-only) read_to_vec builds the Vec from the buffer it allocated with len = bytes read and capacity = requested length, and frees "
               "it on error; copy_from_process rejects length 0 and forwards (src, length); (style-cache) the strategy is cached only after it "
               "returned Ok, the cached strategy is used with the same (src, dst), and Unavailable always returns Err.")
TRUSTED = ["kernel semantics of process_vm_readv / pread on /proc/<pid>/mem / PTRACE_PEEKDATA", "nix wrappers"]
ASSUMPTIONS = ["that the kernel returns the right bytes and short-read semantics across mapping ends are not decided"]

MR = "linux::mem_reader::MemReader"
W = 8


def aligned_form(e):
    """is the address expression aligned down to the word size? x & !(W-1), possibly plus multiples of W"""
    e = core(e)
    if e[0] == "bin" and e[1] == "BitAnd":
        for m in (core(e[2]), core(e[3])):
            if is_const(m) and (m[1] & ((1 << 64) - 1)) == ((1 << 64) - W):
                return True
            if m[0] == "un" and m[1] == "Not" and is_const(core(m[2])) and core(m[2])[1] == W - 1:
                return True
    if e[0] == "bin" and e[1] in ("Add", "AddUnchecked"):
        a, b_ = core(e[2]), core(e[3])
        if is_const(b_) and b_[1] % W == 0:
            return aligned_form(a)
        if is_const(a) and a[1] % W == 0:
            return aligned_form(b_)
    if e[0] == "phi":
        return all(aligned_form(x) or x[0] == "loop" for x in e[1]) and any(x[0] != "loop" for x in e[1])
    if e[0] in ("some", "okval"):
        return aligned_form(e[1])
    if e[0] == "call" and e[1].split("::")[-1] in ("checked_add", "wrapping_add", "saturating_add") and len(e[2]) == 2:
        b_ = core(e[2][1])
        return is_const(b_) and b_[1] % W == 0 and aligned_form(e[2][0])
    return False


def addr_norm(e):
    """look through `checked_add(a, b).ok_or(..)?` and casts: the address actually peeked"""
    e = core(e)
    while True:
        if e[0] == "call" and e[1].split("::")[-1] in ("ok_or", "ok_or_else") and e[2]:
            e = core(e[2][0])
        elif e[0] == "call" and e[1].split("::")[-1] in ("checked_add", "wrapping_add") and len(e[2]) == 2:
            return ("bin", "Add", core(e[2][0]), core(e[2][1]))
        else:
            return e


def rule_no_over_read(ctx, R="C17/no-over-read"):
    n = 0
    for b in ctx.prog.bodies:
        reads = list(b.calls(lambda c: c.is_("nix::sys::ptrace::read")))
        if not reads:
            continue
        o = Origin(b)
        copies = [(x, o.call_args(x)) for x, t in b.calls(lambda c: (c.short or "").split("::")[-1] == "copy_from_slice")]
        k = 0
        for bi, t in reads:
            n += 1
            k += 1
            addr = addr_norm(o.call_args(bi)[1])
            key = (b.short, "peek#%d" % k)
            # destination(s) that receive this word
            dests = []
            for x, a in copies:
                if any(s[0] == "call" and s[1] == "nix::sys::ptrace::read" and s[3] == (b.short, bi) for s in walk(a[1])):
                    dests.append((x, strip(a[0]), a[1]))
            if not dests:
                ctx.unproven(R, key, b.where(bi), "cannot find where the peeked word is stored")
                continue
            full = True
            for x, d, srcbytes in dests:
                piece_full = False
                if d[0] == "call" and d[1].split("::")[-1] == "next":
                    for s in walk(d):
                        if s[0] == "call" and s[1].split("::")[-1] in ("chunks_exact_mut",) and core(s[2][1]) == ("const", W, "usize"):
                            piece_full = True
                if not piece_full:
                    full = False
            if full:
                ctx.ok(R, key, b.where(bi), "the word read at %s fills a full %d-byte chunk of the destination: every byte read was requested" % (show(addr)[:60], W))
            elif aligned_form(addr):
                ctx.ok(R, key, b.where(bi), "partial destination, but the word address is aligned down to %d: the word cannot cross a page boundary" % W)
            else:
                ctx.violated(R, key, b.where(bi),
                             "a full %d-byte PTRACE_PEEKDATA at the unaligned address %s feeds a destination piece shorter than a word: it reads up to %d bytes past the requested range and fails at the end of a mapping although every requested byte is readable" % (W, show(addr)[:80], W - 1),
                             detail={"addr": show(addr)[:200], "dest": [show(d)[:120] for _, d, _ in dests]})
    ctx.floor(R, "PTRACE_PEEKDATA sites", n, 2)


def rule_args(ctx, R="C17/args"):
    # vmem
    b = ctx.body(R, MR + "::vmem")
    if b is not None:
        o = Origin(b)
        calls = list(b.calls(lambda c: c.is_("nix::sys::uio::process_vm_readv")))
        ctx.floor(R, "process_vm_readv call", len(calls), 1)
        for bi, t in calls:
            a = o.call_args(bi)
            remote = [s for s in walk(a[2]) if s[0] == "agg" and s[1].endswith("RemoteIoVec")]
            okr = len(remote) == 1 and core(dict(remote[0][3])["base"]) == ("param", 2) and strip(dict(remote[0][3])["len"])[0] in ("len", "call") and any(s == ("param", 3) for s in walk(dict(remote[0][3])["len"]))
            local = [s for s in walk(a[1]) if s[0] == "call" and s[1].endswith("IoSliceMut::new")]
            okl = len(local) == 1 and root(strip(local[0][2][0])) == ("param", 3)
            ctx.check(okr and okl and a[0] == ("param", 1), R, ("vmem", "iovecs"), b.where(bi), "process_vm_readv(pid, [dst], [(src, dst.len())])", "process_vm_readv arguments are %s / %s" % (show(a[1])[:100], show(a[2])[:100]))
            ex = Exits(b)
            ctx.check(ex.pass_blocks() == {bi} and not ex.ok_defs, R, ("vmem", "returns-count"), b.where(bi), "the syscall's byte count is returned unchanged", "vmem does not return the syscall result directly")
    # file
    b = ctx.body(R, MR + "::file")
    if b is not None:
        o = Origin(b)
        calls = list(b.calls(lambda c: (c.short or "").endswith("FileExt::read_exact_at")))
        ctx.floor(R, "read_exact_at call", len(calls), 1)
        for bi, t in calls:
            a = o.call_args(bi)
            ok = root(strip(a[0])) == ("param", 1) and root(strip(a[1])) == ("param", 3) and core(a[2]) == ("param", 2)
            ctx.check(ok, R, ("file", "pread-args"), b.where(bi), "read_exact_at(dst, src) on the /proc/<pid>/mem handle", "read_exact_at(%s, %s)" % (show(a[1])[:60], show(a[2])[:60]))
        ex = Exits(b)
        from rules.c09 import success_successor
        for (ob, si) in ex.ok_defs:
            v = strip(o._rvalue(b.blocks[ob]["stmts"][si]["r"], (ob, si), 0)) if si != "term" else ("?",)
            pay = core(dict(v[3])["0"]) if v[0] == "agg" else ("?",)
            okv = pay[0] in ("len", "call") and any(s == ("param", 3) for s in walk(pay))
            ss = success_successor(b, calls[0][0]) if calls else None
            # map_err sits between the call and the `?`
            if ss is None and calls:
                nx = b.term(calls[0][0])["t"]
                ss = success_successor(b, nx)
            ctx.check(okv and ss is not None and b.dominates(ss, ob), R, ("file", "len-only-on-success"), b.where(ob, si), "dst.len() is returned only after read_exact_at succeeded", "file strategy can report success without a complete read")
    # ptrace: word k at src + 8k into chunk k
    b = ctx.body(R, MR + "::ptrace")
    if b is not None:
        o = Origin(b)
        loops = b.loops()
        reads = list(b.calls(lambda c: c.is_("nix::sys::ptrace::read")))
        def chunk_loop(x):
            for hh, body in loops.items():
                if x in body and any(b.term(y)["k"] == "call" and CalleeView(b.term(y)["callee"]).short == "std::iter::Iterator::next" for y in body):
                    return True
            return False
        inloop = [(x, t) for x, t in reads if chunk_loop(x)]
        tail = [(x, t) for x, t in reads if not chunk_loop(x)]
        # tail: every peeked word is copied with matching windows: last[max(S,A)-S .. min(E,A+8)-S] <- word[max(S,A)-A .. min(E,A+8)-A]
        for bi, t in tail:
            if aligned_form(addr_norm(o.call_args(bi)[1])) and not any(bi in body for body in loops.values()):
                ctx.violated(R, ("ptrace", "tail-covered"), b.where(bi), "the sub-word tail is fetched with a single aligned PEEKDATA outside any loop: a tail that does not start on a word boundary "
                             "can straddle two aligned words, and the bytes in the second word are never written although the full length is reported")
            ims = [(x, o.call_args(x)) for x, t2 in b.calls(lambda c: (c.short or "").split("::")[-1] in ("index_mut", "index")) if witness_path(b, bi, {x})]
            dst = [a for x, a in ims if any(s_[0] == "call" and s_[1].split("::")[-1] == "into_remainder" for s_ in walk(a[0])) and strip(a[1])[0] == "agg"]
            srcw = [a for x, a in ims if any(s_[0] == "call" and s_[1].split("::")[-1] == "to_ne_bytes" for s_ in walk(a[0])) and strip(a[1])[0] == "agg"]
            if len(dst) != 1 or len(srcw) != 1:
                if aligned_form(addr_norm(o.call_args(bi)[1])):
                    ctx.unproven(R, ("ptrace", "tail-window"), b.where(bi), "cannot find the destination/source windows of the aligned tail copy")
                continue

            dd, sd = dict(strip(dst[0][1])[3]), dict(strip(srcw[0][1])[3])
            if not ({"start", "end"} <= set(dd) and {"start", "end"} <= set(sd)):
                ctx.unproven(R, ("ptrace", "tail-window"), b.where(bi), "the tail copy windows are not both start..end ranges (destination %s, source %s): cannot show that every requested tail byte is copied from the word that holds it"
                             % (show(strip(dst[0][1]))[:80], show(strip(srcw[0][1]))[:80]))
                continue

            def leafv(e):
                if e[0] == "phi" and any(x_[0] == "bin" and x_[1] == "BitAnd" for x_ in e[1]):
                    return leafv.A
                if e[0] == "okval" and any(s_[0] == "call" and s_[1].split("::")[-1] == "into_remainder" for s_ in walk(e)):
                    return leafv.E
                if e[0] == "okval" and any(s_[0] == "call" and s_[1].split("::")[-1] == "checked_add" for s_ in walk(e)):
                    return leafv.S
                return None
            okw = True
            rows = 0
            badrow = None
            try:
                for S in (0x1000, 0x1003, 0x1007, 0x0ffd):
                    for n in (1, 3, 7):
                        E = S + n
                        A = S & ~7
                        while A < E:
                            leafv.S, leafv.E, leafv.A = S, E, A
                            ev = ipe.Eval({}, leaf=leafv)
                            d0, d1 = (ev.val(core(dict(strip(dst[0][1])[3])[k]))[0] for k in ("start", "end"))
                            s0, s1 = (ev.val(core(dict(strip(srcw[0][1])[3])[k]))[0] for k in ("start", "end"))
                            fr, to = max(S, A), min(E, A + 8)
                            rows += 1
                            if (d0, d1, s0, s1) != (fr - S, to - S, fr - A, to - A):
                                okw = False
                                badrow = badrow or (S, E, A, d0, d1, s0, s1)
                            A += 8
            except ipe.Unsupported as e:
                okw = False
                badrow = ("unsupported", str(e))
            ctx.check(okw, R, ("ptrace", "tail-window"), b.where(bi), "each aligned tail word is copied with matching windows: dst[max(S,A)-S..min(E,A+8)-S] <- word[max(S,A)-A..min(E,A+8)-A] (%d rows)" % rows,
                      "tail copy windows do not select the requested bytes: %s" % (badrow,))
        ctx.floor(R, "word-loop PEEKDATA", len(inloop), 1)
        for bi, t in inloop:
            a = o.call_args(bi)
            addr = addr_norm(a[1])
            okp = a[0] == ("param", 1)
            # addr = src + offset with offset a counter: init 0, += 8 once per iteration
            okc = False
            offv = core(addr[3]) if addr[0] == "bin" else ("?",)
            uses_counter = offv[0] == "phi" and any(is_const(core(x)) and core(x)[1] == 0 for x in offv[1]) and any(
                core(x)[0] == "bin" and core(x)[1] == "Add" and is_const(core(core(x)[3])) and core(core(x)[3])[1] == W for x in offv[1])
            if addr[0] == "bin" and addr[1] == "Add" and core(addr[2]) == ("param", 2) and uses_counter:
                off_locals = [i for i, l in enumerate(b.locals) if l.get("name") == "offset"]
                if off_locals:
                    L = off_locals[0]
                    defs = [d for d in b.defs.get(L, ()) if d[2] == "assign"]
                    h = [hh for hh, body in loops.items() if bi in body][0]
                    init = [d for d in defs if d[0] not in loops[h]]
                    inc = [d for d in defs if d[0] in loops[h]]
                    if len(init) == 1 and len(inc) == 1:
                        iv = o._rvalue(init[0][3]["r"], (init[0][0], init[0][1]), 0)
                        ie = core(o._rvalue(inc[0][3]["r"], (inc[0][0], inc[0][1]), 0))
                        okc = iv == ("const", 0, "usize") and ie[0] == "bin" and ie[1] == "Add" and core(ie[3]) == ("const", W, "usize")
                        # increment on every path from the copy back to the header, and only there
                        cps = [x for x, t2 in b.calls(lambda c: (c.short or "").split("::")[-1] == "copy_from_slice") if x in loops[h]]
                        okc = okc and bool(cps) and must_pass(b, b.term(cps[0])["t"], {h}, {inc[0][0]}) is None and must_pass(b, h, {inc[0][0]}, set(cps)) is None
            ctx.check(okp and okc, R, ("ptrace", "word-k-at-src+8k"), b.where(bi), "word k is read from pid at src + 8k (counter starts at 0, advances by 8 exactly once per copied word)", "word address/counter is %s" % show(addr)[:120])
        # errors carry the offset reached
        for c in ctx.prog.closures_of(b):
            co = Origin(c)
            for (ob, si) in Exits(c).ok_defs:
                if si == "term":
                    continue
                v = strip(co._rvalue(c.blocks[ob]["stmts"][si]["r"], (ob, si), 0))
                ok = v[0] == "tuple" and len(v[1]) == 2 and v[1][0] == ("param", 2)
                ctx.check(ok, R, ("ptrace", "error-offset", c.short.split("::")[-1]), c.where(ob, si), "a failed word read reports (errno, offset reached)", "error mapping is %s" % show(v)[:100])
        ex = Exits(b)
        for (ob, si) in ex.ok_defs:
            if si == "term":
                continue
            v = strip(o._rvalue(b.blocks[ob]["stmts"][si]["r"], (ob, si), 0))
            pay = core(dict(v[3])["0"]) if v[0] == "agg" else ("?",)
            ctx.check(any(s == ("param", 3) for s in walk(pay)) and pay[0] in ("len", "call"), R, ("ptrace", "returns-len"), b.where(ob, si), "on success dst.len() is returned", "ptrace strategy returns %s" % show(pay)[:80])


def rule_prefix_only(ctx, R="C17/prefix-only"):
    b = ctx.body(R, MR + "::read_to_vec")
    if b is None:
        return
    o = Origin(b)
    frp = list(b.calls(lambda c: c.short == "std::vec::Vec::from_raw_parts"))
    if not frp:
        # safe form: a vector of the requested length is filled and must be cut to the number of bytes actually read
        ex0 = Exits(b)
        rd0 = [x for x, t in b.calls(lambda c: c.is_(MR + "::read"))]
        cuts = set()
        for x, t in b.calls(lambda c: c.short in ("std::vec::Vec::truncate", "std::vec::Vec::set_len", "std::vec::Vec::resize")):
            n_ = strip(o.call_args(x)[1])
            if n_[0] == "call" and n_[1] == MR + "::read":
                cuts.add(x)
        ok = bool(rd0) and bool(ex0.ok_defs)
        w = None
        if ok:
            for (eb, si) in ex0.ok_defs:
                if witness_path(b, rd0[0], {eb}):
                    w = must_pass(b, rd0[0], {eb}, cuts)
                    if w is not None:
                        ok = False
        ctx.check(ok, R, "len=bytes-read", b.where(rd0[0]) if rd0 else None,
                  "the returned vector is cut to the number of bytes the read reported on every success path",
                  "read_to_vec returns a buffer of the requested length whatever the read reported: after a short read the tail holds bytes that were never in the target",
                  detail={"path": w})
        ctx.floor(R, "read call in read_to_vec", len(rd0), 1)
    for bi, t in frp:
        a = o.call_args(bi)
        ptr, ln, cap = strip(a[0]), strip(a[1]), core(a[2])
        allocs = [s for s in walk(ptr) if s[0] == "call" and s[1] == "std::alloc::alloc"]
        reads = [s for s in walk(ln) if s[0] == "call" and s[1] == MR + "::read"]
        okp = len(allocs) == 1
        okl = ln[0] == "call" and ln[1] == MR + "::read" or (len(reads) == 1 and ln == reads[0])
        # the read filled the same allocation and asked for the full length
        okr = False
        if reads:
            r = reads[0]
            dst = strip(r[2][2])
            okr = r[2][1] == ("param", 2) and dst[0] == "call" and dst[1].endswith("from_raw_parts_mut") and any(s == allocs[0] for s in walk(dst)) and nosite(core(dst[2][1])) == nosite(cap)
        # capacity == layout size
        layout = [s for s in walk(allocs[0]) if s[0] == "call" and s[1].endswith("Layout::array")] if allocs else []
        okc = bool(layout) and nosite(core(layout[0][2][0])) == nosite(cap)
        ctx.check(okp and okl and okr and okc, R, "vec-from-own-buffer", b.where(bi), "Vec(ptr = own allocation, len = bytes actually read, capacity = requested length = allocated size)",
                  "Vec::from_raw_parts(%s, %s, %s)" % (show(ptr)[:80], show(ln)[:80], show(cap)[:40]))
    de = list(b.calls(lambda c: c.short == "std::alloc::dealloc"))
    ex = Exits(b)
    rd = [x for x, t in b.calls(lambda c: c.is_(MR + "::read"))]
    if not frp:
        de = None   # an owned Vec is dropped on the error path by construction
    # every error exit after the read passes dealloc
    okd = bool(de) and bool(rd)
    if okd:
        for (eb, si) in ex.err_defs:
            if witness_path(b, rd[0], {eb}) and must_pass(b, rd[0], {eb}, {x for x, _ in de}) is not None:
                okd = False
    if de is not None:
        ctx.check(okd, R, "freed-on-error", b.where(de[0][0]) if de else None, "when the read fails the buffer is freed and nothing is returned", "a failed read can leak or return the buffer")
    # copy_from_process: NonZero(length), read_to_vec(src, length) on a fresh reader for pid
    cb = None
    for body in ctx.prog.bodies:
        if body.short.endswith("::copy_from_process") and "mem_reader" in body.short:
            cb = body
    if cb is None:
        ctx.violated(R, ("anchor", "copy_from_process"), None, "anchor missing: PtraceDumper::copy_from_process")
        return
    co = Origin(cb)
    for bi, t in cb.calls(lambda c: c.is_(MR + "::read_to_vec")):
        a = co.call_args(bi)
        rdr = strip(a[0])
        ok = rdr[0] == "call" and rdr[1] == MR + "::new" and rdr[2][0] == ("param", 1) and a[1] == ("param", 2) and any(s[0] == "call" and s[1].endswith("NonZero::new") or (s[0] == "call" and "NonZero" in s[1] and s[1].split("::")[-1] == "new") for s in walk(a[2])) and any(s == ("param", 3) for s in walk(a[2]))
        ctx.check(ok, R, "copy_from_process-forwards", cb.where(bi), "copy_from_process(pid, src, len) reads (src, NonZero(len)) with a fresh reader for pid", "copy_from_process calls read_to_vec(%s, %s, %s)" % (show(rdr)[:60], show(a[1])[:40], show(a[2])[:80]))


def rule_style_cache(ctx, R="C17/style-cache"):
    b = ctx.body(R, MR + "::read")
    if b is None:
        return
    o = Origin(b)
    # stores to self.style = Some(Style::X): each must be dominated by the Ok arm of the corresponding strategy call
    stores = []
    for bi, blk in enumerate(b.blocks):
        if blk["cleanup"]:
            continue  # the same assignment completed on the unwind path of dropping the old value
        for si, st in enumerate(blk["stmts"]):
            if st["k"] == "assign" and st["p"]["proj"] and st["p"]["proj"][-1].get("n") == "style":
                stores.append((bi, si, strip(o._rvalue(st["r"], (bi, si), 0))))
    # a local helper that latches the style it is handed (`self.remember(Style::VirtualMem, len)`) is a store at its call site
    for bi, t in b.calls(lambda c: c.local and (c.target or "") in ctx.prog.by_short and not (c.target or "").endswith(("::vmem", "::file", "::ptrace"))):
        hb = ctx.prog.by_short[CalleeView(t["callee"]).target][0]
        ho = Origin(hb)
        for hbi, hblk in enumerate(hb.blocks):
            if hblk["cleanup"]:
                continue
            for hsi, hst in enumerate(hblk["stmts"]):
                if hst["k"] == "assign" and hst["p"]["proj"] and hst["p"]["proj"][-1].get("n") == "style":
                    hv = strip(ho._rvalue(hst["r"], (hbi, hsi), 0))
                    if hv[0] == "agg" and hv[2] == "Some":
                        inner = strip(dict(hv[3])["0"])
                        if inner[0] == "param" and inner[1] - 1 < len(o.call_args(bi)):
                            stores.append((bi, None, ("agg", hv[1], "Some", (("0", o.call_args(bi)[inner[1] - 1]),))))
    ctx.floor(R, "assignments to self.style", len(stores), 4)
    strat = {"VirtualMem": "vmem", "File": "file", "Ptrace": "ptrace"}
    for bi, si, v in stores:
        inner = strip(dict(v[3])["0"]) if v[0] == "agg" and v[2] == "Some" else None
        if inner is None or inner[0] != "agg":
            ctx.unproven(R, ("store", "shape"), b.where(bi, si) if si is not None else b.where(bi), "style is assigned %s" % show(v)[:80])
            continue
        name = inner[2]
        if name == "Unavailable":
            # all three failed: the three error values recorded
            ok = all(any(s[0] == "call" and s[1] == MR + "::" + fn for s in walk(inner)) for fn in ("vmem", "ptrace"))
            ctx.check(ok, R, ("store", name), b.where(bi, si) if si is not None else b.where(bi), "Unavailable is recorded with the errors of the failed strategies", "Unavailable is recorded from %s" % show(inner)[:120])
            continue
        fn = strat.get(name)
        dnf = conditions(b, bi, origin=o, relevant=lambda a: a[0] == "discr" and strip(a[1])[0] == "call" and strip(a[1])[1] == MR + "::" + (fn or "?"))
        ok = fn is not None and bool(dnf) and all(any(v_ == 0 for (_, v_) in c) for c in dnf)
        ctx.check(ok, R, ("store", name), b.where(bi, si) if si is not None else b.where(bi), "style = %s is cached only after %s(..) returned Ok" % (name, fn), "style = %s can be cached although %s(..) did not succeed" % (name, fn))
    # strategy calls use (pid/file, src, dst) of this call
    n = 0
    for fn in ("vmem", "file", "ptrace"):
        for bi, t in b.calls(lambda c: c.is_(MR + "::" + fn)):
            a = o.call_args(bi)
            n += 1
            ok = a[1] == ("param", 2) and root(strip(a[2])) == ("param", 3)
            k = sum(1 for x, _ in b.calls(lambda c: c.is_(MR + "::" + fn)) if x <= bi)
            ctx.check(ok, R, ("call", "%s#%d" % (fn, k)), b.where(bi), "%s is called with this request's (src, dst)" % fn, "%s called with (%s, %s)" % (fn, show(a[1])[:40], show(a[2])[:40]))
    ctx.floor(R, "strategy call sites", n, 6)
    # Unavailable => Err: in the cached-style branch the Unavailable arm yields Err
    ok = False
    for bi, blk in enumerate(b.blocks):
        for si, st in enumerate(blk["stmts"]):
            if st["k"] == "assign" and st["r"]["k"] == "agg" and st["r"].get("vname") == "Err":
                e = o._rvalue(st["r"], (bi, si), 0)
                if any(s[0] == "variant" and s[2] == "Unavailable" for s in walk(e)):
                    ok = True
    ctx.check(ok, R, "unavailable-errs", b.where(0), "a cached Unavailable state answers every read with Err", "Unavailable does not map to Err")


def rule_peek_errno(ctx, R="C17/peek-errno"):
    """PTRACE_PEEK* return the peeked word as the result of the call, so -1 is both 'error' and the legal data word 0xffff..ff:
    a raw libc::ptrace PEEK request must be preceded by Errno::clear() (and then judged by errno), as nix::sys::ptrace::read and the
    crate's own ptrace_peek do — otherwise the word-by-word strategy fails on readable memory that holds an all-ones word"""
    n = 0
    for b in ctx.prog.bodies:
        o = None
        for bi, t in b.calls(lambda c: (c.target or c.short) == "libc::ptrace"):
            o = o or Origin(b)
            req = core(o.call_args(bi)[0])
            is_peek = (is_const(req) and req[1] in (1, 2, 3)) or (not is_const(req) and "peek" in b.short.lower())
            if not is_peek:
                continue
            n += 1
            clears = [x for x, t2 in b.calls(lambda c: (c.short or c.target or "").split("::")[-1] == "clear" and "Errno" in (c.short or c.target or ""))]
            ok = any(b.dominates(x, bi) for x in clears)
            ctx.check(ok, R, (b.short.split("::")[-1], "#%d" % n), b.where(bi), "errno is cleared before the raw PEEK request (a returned -1 can then be told apart from an error)",
                      "raw libc::ptrace PEEK request without Errno::clear(): a data word of all ones (-1) is indistinguishable from an error and the read of readable memory fails")
    ctx.floor(R, "raw PEEK requests examined", n, 1)


def rule_count_from_strategy(ctx, R="C17/count-from-strategy"):
    """The count MemReader::read reports is the count the strategy that serviced THIS request returned — never a value
    computed on the side (dst.len(), the requested length): vmem/pread may legitimately come back short at a mapping end."""
    from engine.summ import return_origins
    outs = return_origins(ctx.prog, MR + "::read")
    if outs is None:
        ctx.violated(R, ("anchor", "read"), None, "anchor missing: %s::read" % MR)
        return
    b = ctx.prog.by_short[MR + "::read"][0]
    n = 0
    seen = {}

    def leaves(e):
        while isinstance(e, tuple) and e and e[0] in ("okval", "some", "conv", "try"):
            e = e[1]
        if e[0] == "phi":
            out = []
            for x in e[1]:
                out.extend(leaves(x))
            return out
        if e[0] == "call" and e[1].split("::")[-1] in ("map_err", "or_else") and e[2]:
            return leaves(e[2][0])     # maps the error only
        if e[0] == "call" and e[1] in ctx.prog.by_short and e[1] not in (MR + "::vmem", MR + "::file", MR + "::ptrace"):
            # a local helper that hands one of its arguments back (e.g. `remember(style, len) -> len`)
            ro = return_origins(ctx.prog, e[1]) or []
            ps = {nosite(strip(r)) for r in ro}
            if len(ps) == 1 and next(iter(ps))[0] == "param" and next(iter(ps))[1] - 1 < len(e[2]):
                return leaves(e[2][next(iter(ps))[1] - 1])
        return [e]
    for e in outs:
        for l in leaves(e):
            if l[0] == "agg" and l[2] == "Err":
                continue
            n += 1
            fn = l[1].split("::")[-1] if l[0] == "call" else None
            seen[fn] = seen.get(fn, 0) + 1
            ok = l[0] == "call" and l[1] in (MR + "::vmem", MR + "::file", MR + "::ptrace") and l[2][1] == ("param", 2) and root(strip(l[2][2])) == ("param", 3)
            ctx.check(ok, R, ("returns", "%s#%d" % (fn or l[0], seen[fn])), b.where(l[3][1]) if l[0] == "call" and len(l) > 3 else b.where(0),
                      "read() reports the count %s(.., src, dst) returned" % fn,
                      "read() can report a count that is not the one a strategy returned for this request: %s" % show(l)[:100])
    ctx.floor(R, "success values of MemReader::read", n, 6)


IDENTITY_FIELDS = ("blamed_thread", "process_id", "pid", "tid", "thread_id")
READER_CTORS = {MR + "::new": None, MR + "::for_virtual_mem": "VirtualMem", MR + "::for_file": "File", MR + "::for_ptrace": "Ptrace"}


def rule_reader_identity(ctx, R="C17/reader-identity"):
    """`the target's bytes` begins with reading the target: every reader is built for a pid that comes from the writer's target
    identity (the process id it was created for, the blamed thread, a listed thread's tid) — never this process, a constant or a
    parent id — the constructors store that pid with the strategy their name says, and copy_from_process reads from the pid it is given."""
    prog = ctx.prog
    cg, _ = prog.callgraph()
    callers = {}
    for f, cs in cg.items():
        for c in cs:
            callers.setdefault(c, set()).add(f)
    # constructors
    n = 0
    for fn, style in sorted(READER_CTORS.items()):
        outs = return_origins_(prog, fn)
        if outs is None:
            ctx.violated(R, ("anchor", fn.split("::")[-1]), None, "anchor missing: %s" % fn)
            continue
        for e in outs:
            e = strip(e)
            if e[0] != "agg":
                continue
            n += 1
            f = dict(e[3])
            pid = strip(f.get("pid", ("?",)))
            okp = pid[0] == "call" and pid[1].endswith("Pid::from_raw") and pid[2][0] == ("param", 1)
            st = strip(f.get("style", ("?",)))
            if style is None:
                oks = st[0] == "agg" and st[2] == "None"
            else:
                oks = st[0] == "agg" and st[2] == "Some" and strip(dict(st[3])["0"])[0] == "agg" and strip(dict(st[3])["0"])[2] == style
            b0 = prog.by_short[fn][0]
            ctx.check(okp and oks, R, ("ctor", fn.split("::")[-1]), b0.where(0), "%s(pid) is a reader for that pid with strategy %s" % (fn.split("::")[-1], style or "to be probed"),
                      "%s builds {pid: %s, style: %s}" % (fn.split("::")[-1], show(pid)[:50], show(st)[:50]))
    ctx.floor(R, "reader constructors", n, 4)
    # who builds readers, and for whom
    sites = 0

    def classify(e, fn, depth=0):
        """-> list of problems (empty = an identity of the target)"""
        e = core(e)
        if e[0] == "phi":
            return [p_ for x in e[1] for p_ in classify(x, fn, depth)]
        if e[0] == "field" and e[2] in IDENTITY_FIELDS:
            return []
        if e[0] == "call" and e[1].split("::")[-1] in ("as_raw", "from_raw", "from", "into", "try_into", "unwrap", "clone") and e[2]:
            return classify(e[2][0], fn, depth)
        if e[0] == "param":
            cs = callers.get(fn, set())
            b0 = prog.by_short[fn][0]
            if not cs:
                return [] if depth == 0 or True else ["?"]     # an entry point of the public API: the caller names the target
            if depth > 4:
                return ["call chain too deep from %s" % fn.split("::")[-1]]
            out = []
            for c in sorted(cs):
                for cb in prog.by_short.get(c, ()):
                    co = Origin(cb)
                    for bi, t in cb.calls(lambda cv: cv.target == fn or cv.short == fn):
                        a = co.call_args(bi)
                        if e[1] - 1 < len(a):
                            out += classify(a[e[1] - 1], c, depth + 1)
            return out
        return ["%s in %s" % (show(e)[:60], fn.split("::{closure")[0].split("::")[-1])]
    cfp = [b.short for b in prog.bodies if b.short.endswith("PtraceDumper>::copy_from_process") or b.short.endswith("PtraceDumper::copy_from_process")]
    targets = set(READER_CTORS) | set(cfp) | {"linux::module_reader::ProcessReader::new"}
    for b in prog.bodies:
        o = None
        for bi, t in b.calls(lambda c: (c.target or c.short) in targets or c.short in targets):
            o = o or Origin(b)
            sites += 1
            cv = CalleeView(t["callee"])
            bad = classify(o.call_args(bi)[0], b.short)
            k = sum(1 for x, _ in b.calls(lambda c: (c.target or c.short) in targets or c.short in targets) if x <= bi)
            ctx.check(not bad, R, ("site", "::".join(b.short.split("::{closure")[0].split("::")[-2:]), "%s#%d" % ((cv.short or "").split("::")[-1], k)), b.where(bi),
                      "the reader is built for an identity of the target", "a reader is built for something that is not the target's identity: %s" % "; ".join(sorted(set(bad))[:3]))
    ctx.floor(R, "sites that build a reader", sites, 13)


def return_origins_(prog, fn):
    from engine.summ import return_origins
    return return_origins(prog, fn)


def rule_unbuffered(ctx, R="C17/unbuffered"):
    """`the bytes the target holds` at the time of the read: nothing between the kernel and the caller may remember bytes of an
    earlier read — the reader's state is the pid and the strategy, the file strategy keeps the bare File and reads positionally."""
    prog = ctx.prog
    n = 0
    for name, a in prog.adts.items():
        if name in ("linux::mem_reader::MemReader", "linux::mem_reader::Style"):
            for v in a.get("variants", []):
                for f in v.get("fields", []):
                    n += 1
                    ty = f["ty"]
                    bad = [w for w in ("BufReader", "Vec<", "Box<[", "HashMap", "BTreeMap", "Cell<", "Cursor", "Mmap") if w in ty]
                    ctx.check(not bad, R, ("state", name.split("::")[-1], v["name"], f["name"]), None, "%s::%s.%s: %s holds no bytes of the target" % (name.split("::")[-1], v["name"], f["name"], ty),
                              "%s::%s.%s is a %s: bytes of an earlier read can be served again after the target changed them" % (name.split("::")[-1], v["name"], f["name"], ty))
    ctx.floor(R, "fields of the reader state", n, 6)
    fb = ctx.body(R, MR + "::file")
    if fb is not None:
        pos = [bi for bi, t in fb.calls(lambda c: (c.short or "").split("::")[-1] in ("read_exact_at", "read_at"))]
        seq = [bi for bi, t in fb.calls(lambda c: (c.short or "").split("::")[-1] in ("read", "read_exact", "seek", "seek_relative", "stream_position", "read_to_end", "fill_buf"))]
        ctx.check(bool(pos) and not seq, R, "positional-read", fb.where(pos[0] if pos else 0), "the file strategy reads positionally (pread) from the bare file",
                  "the file strategy reads through a stream position (%s): state of an earlier read influences this one" % sorted({(CalleeView(fb.term(x)["callee"]).short or "").split("::")[-1] for x in seq}))


def rule_whole_request(ctx, R="C17/whole-request"):
    """`a value or an error` for the range that was ASKED for: read_to_vec hands the reader a buffer of exactly the requested length
    (no clamp: a caller that asked for a 32 MiB stack or a 17 MiB string table would silently get a prefix), and it fails only for the
    reasons a request can legitimately fail — the length is not a valid allocation, the allocation failed, the read failed — never
    because the length exceeds a constant (the fallible allocation already answers that question)."""
    b = ctx.body(R, MR + "::read_to_vec")
    if b is None:
        return
    o = Origin(b)
    rd = [(bi, o.call_args(bi)) for bi, t in b.calls(lambda c: c.is_(MR + "::read"))]
    ctx.floor(R, "read call in read_to_vec", len(rd), 1)

    def is_len(e):
        e = core(e)
        while e[0] == "call" and e[1].split("::")[-1] in ("get", "into", "from") and e[2]:
            e = core(e[2][0])
        return e == ("param", 3)
    for bi, a in rd:
        buf = strip(a[2])
        lens = []
        if buf[0] == "call" and buf[1].split("::")[-1] in ("from_raw_parts_mut", "from_raw_parts") and len(buf[2]) == 2:
            lens = [buf[2][1]]
        elif buf[0] == "call" and buf[1].split("::")[-1] in ("deref_mut", "as_mut_slice", "as_mut", "index_mut", "spare_capacity_mut") and buf[2]:
            lens = [q[2][1] for q in walk(buf) if q[0] == "call" and q[1].split("::")[-1] in ("resize", "from_elem", "with_capacity", "try_reserve_exact") and len(q[2]) > 1]
        if not lens and buf[0] == "call" and buf[1].split("::")[-1] in ("new", "with_capacity"):
            # the safe form: a Vec sized in place before the read (`v.resize(length, 0)`), nothing else changing its length in between
            sizers = [(x, o.call_args(x)) for x, t in b.calls(lambda c: (c.short or "").startswith("std::vec::Vec") and (c.short or "").split("::")[-1] in ("resize", "truncate", "set_len", "clear", "extend_from_slice", "push", "resize_with"))
                      if b.dominates(x, bi) and nosite(strip(o.call_args(x)[0])) == nosite(buf)]
            if len(sizers) == 1 and (CalleeView(b.term(sizers[0][0])["callee"]).short or "").split("::")[-1] == "resize":
                lens = [sizers[0][1][1]]
        ok = bool(lens) and all(is_len(x) for x in lens)
        ctx.check(ok, R, "buffer=request", b.where(bi), "the reader is handed a buffer of exactly the requested length", "the buffer handed to the reader has length %s, not the requested length" % ([show(x)[:60] for x in lens] or show(buf)[:80]))
    ex = Exits(b)
    bad = []
    for eb in sorted(ex.err_blocks()):
        dnf = conditions(b, eb, origin=o)
        for c in dnf or []:
            for (q, v) in c:
                qc = core(q)
                if qc[0] == "bin" and qc[1] in ("Lt", "Le", "Gt", "Ge", "Eq", "Ne") and any(x == ("param", 3) for x in walk(qc)) and any(is_const(core(y)) for y in (qc[2], qc[3])):
                    bad.append("%s == %s" % (show(qc)[:70], v))
    ctx.check(not bad, R, "no-length-cap", b.where(0), "no request is refused because its length exceeds a constant", "read_to_vec fails depending on the requested length against a constant (%s): a large but valid request is refused" % "; ".join(sorted(set(bad))[:2]))
    # and the callers' length is the requested one too: copy_from_process forwards (src, length)
    for body in ctx.prog.bodies:
        if body.short.endswith("PtraceDumper>::copy_from_process") or body.short.endswith("PtraceDumper::copy_from_process"):
            bo = Origin(body)
            for bi, t in body.calls(lambda c: c.is_(MR + "::read_to_vec")):
                a = bo.call_args(bi)
                ln = strip(a[2])
                while ln[0] == "call" and ln[1].split("::")[-1] in ("ok_or", "ok_or_else") and ln[2]:
                    ln = strip(ln[2][0])
                okf = a[1] == ("param", 2) and ln[0] == "call" and ln[1].split("::")[-1] == "new" and core(ln[2][0]) == ("param", 3)
                ctx.check(okf, R, "copy_from_process-forwards", body.where(bi), "copy_from_process reads (src, length) as given", "copy_from_process reads (%s, %s)" % (show(a[1])[:40], show(ln)[:60]))


def rule_no_address_veto(ctx, R="C17/no-address-veto"):
    """`for every start address`: whether a read is attempted never depends on the address asked for.  In the dispatchers (read,
    read_to_vec) and the two single-call strategies (vmem, file) no condition on the way to the attempt looks at `src` except through
    the result of an earlier attempt on that same address: the kernel, not a constant in this crate, decides what is readable
    (vm.mmap_min_addr is a tunable; MAP_FIXED users map low pages).  The word-wise ptrace strategy is not covered here: its only
    address conditions are the overflow guards that C17/no-over-read checks."""
    ATTEMPTS = {MR + "::read": ("MemReader::vmem", "MemReader::file", "MemReader::ptrace"), MR + "::read_to_vec": ("MemReader::read",),
                MR + "::vmem": ("process_vm_readv",), MR + "::file": ("read_exact_at", "read_at", "pread")}
    STRATS = ("MemReader::vmem", "MemReader::file", "MemReader::ptrace", "MemReader::read")

    def src_outside(e):
        if not isinstance(e, tuple):
            return False
        if e == ("param", 2):
            return True
        if e and e[0] == "call" and isinstance(e[1], str) and e[1].endswith(STRATS):
            return False
        if e and e[0] == "call" and isinstance(e[1], str) and e[1].split("::")[-1] in ("map_err", "ok_or", "ok_or_else", "map") and e[2]:
            return src_outside(e[2][0])   # which variant comes out is decided by the receiver; the closure/value only fills the other side
        return any(src_outside(x) if not isinstance(x, (list, tuple)) or (x and isinstance(x[0], str)) else any(src_outside(y) for y in x) for x in e[1:] if isinstance(x, (tuple, list)))
    n = 0
    for fn, att in sorted(ATTEMPTS.items()):
        b = ctx.body(R, fn)
        if b is None:
            continue
        o = Origin(b)
        short = fn.split("::")[-1]
        sites = list(b.calls(lambda c: (c.short or "").endswith(att)))
        ctx.floor(R, "attempts in %s" % short, len(sites), {"read": 6, "read_to_vec": 1, "vmem": 1, "file": 1}[short])
        for k, (bi, t) in enumerate(sites):
            n += 1
            dnf = conditions(b, bi, origin=o)
            bad = sorted({show(q)[:90] for c in (dnf or []) for (q, v) in c if src_outside(strip(q))})
            ctx.check(dnf is not None and not bad, R, (short, "attempt#%d" % (k + 1)), b.where(bi), "this attempt is reached whatever the address asked for",
                      "whether this read is attempted depends on the address itself (%s): a readable range at such an address is refused without asking the kernel" % "; ".join(bad[:2]) if bad else "conditions for this attempt cannot be enumerated")
        # ... and an address-dependent early failure anywhere in the dispatcher is the same veto
        if short in ("read", "read_to_vec"):
            ex = Exits(b)
            for eb in sorted(ex.err_blocks()):
                dnf = conditions(b, eb, origin=o)
                bad = sorted({show(q)[:90] for c in (dnf or []) for (q, v) in c if src_outside(strip(q))})
                ctx.check(not bad, R, (short, "err-exit", len([x for x in sorted(ex.err_blocks()) if x <= eb])), b.where(eb), "this failure does not depend on the address asked for except through an attempt on it",
                          "this failure is decided by the address itself (%s)" % "; ".join(bad[:2]))


def rule_probing_exhaustive(ctx, R="C17/probing-exhaustive"):
    """`for every start address of a readable range`: a reader that has not yet settled on a strategy gives up only after ALL of them
    failed.  process_vm_readv honours page protections (EFAULT on an execute-only or PROT_NONE page), /proc/<pid>/mem and PTRACE_PEEKDATA
    read with FOLL_FORCE: the fall-backs exist for exactly the ranges the fast path refuses.  So every failure exit of MemReader::read that
    is reachable with `style == None` lies behind an attempt of each of the three strategies (or the failed open of /proc/<pid>/mem)."""
    b = ctx.body(R, MR + "::read")
    if b is None:
        return
    o = Origin(b)
    ex = Exits(b)
    sets = {"process_vm_readv": [x for x, t in b.calls(lambda c: (c.short or "").endswith("MemReader::vmem"))],
            "/proc/<pid>/mem": [x for x, t in b.calls(lambda c: (c.short or "").endswith("MemReader::file") or c.short == "std::fs::File::open")],
            "PTRACE_PEEKDATA": [x for x, t in b.calls(lambda c: (c.short or "").endswith("MemReader::ptrace"))]}
    n = 0
    for eb in sorted(ex.err_blocks()):
        dnf = conditions(b, eb, origin=o, relevant=lambda a: a[0] == "discr" and strip(a[1]) == ("field", ("param", 1), "style"))
        probing = [c for c in (dnf or []) if any(v == 0 for (_, v) in c)]
        if not probing:
            continue
        n += 1
        # restrict to the probing region: blocks reachable when style is None = those dominated by the None edge; approximated by
        # requiring the attempts that are themselves conditioned on style == None
        missing = []
        for name, calls in sets.items():
            pc = [x for x in calls if any(any(v == 0 for (_, v) in c) for c in (conditions(b, x, origin=o, relevant=lambda a: a[0] == "discr" and strip(a[1]) == ("field", ("param", 1), "style")) or []))]
            if not pc or must_pass(b, 0, {eb}, set(pc)) is not None:
                missing.append(name)
        ctx.check(not missing, R, ("gives-up-after-all", n), b.where(eb), "a probing reader fails only after process_vm_readv, /proc/<pid>/mem and PTRACE_PEEKDATA were all tried",
                  "a probing reader can fail without having tried %s: a range the fast path refuses (execute-only or PROT_NONE page: EFAULT) but the fall-backs can read is reported unreadable" % ", ".join(missing))
    ctx.floor(R, "failure exits of the probing path", n, 1)


def run(ctx):
    rule_probing_exhaustive(ctx)
    rule_no_address_veto(ctx)
    rule_whole_request(ctx)
    rule_unbuffered(ctx)
    rule_reader_identity(ctx)
    rule_count_from_strategy(ctx)
    rule_peek_errno(ctx)
    rule_no_over_read(ctx)
    rule_args(ctx)
    rule_prefix_only(ctx)
    rule_style_cache(ctx)
    # the module reader sits on top of the three strategies: it passes offset and length through unchanged (same rule instance as C14/module-read-verbatim)
    from rules import c14 as _c14v
    _c14v.rule_process_read_verbatim(ctx, R="C17/module-read-verbatim")

