"""C07 — the memory list is faithful and complete (structural clauses)."""
from engine.mir import CalleeView, norm
from engine.origin import Origin, strip, core, show, root, walk, nosite, is_const, alts, field_of
from engine.paths import Exits, must_pass, conditions, switch_atom, witness_path
from engine import ipe
from engine import lenalg as LA
from rules import c01, c19

PROPERTY = "C07"
EXPLANATION = ("(desc-copy) for each of the three producers of memory descriptors (application memory, thread stack, IP window) the recorded "
               "start address has the same origin as the source argument of the copy_from_process whose bytes are appended, the recorded location "
               "is the location of exactly that append and the recorded size is its length; application regions use the caller's ptr/length of the "
               "same list element and the blamed thread as pid; (every-region-pushed) every non-error iteration over app memory pushes one "
               "descriptor and the stack path that appends bytes always pushes; (ip-window) the window is produced only in the crash-context branch, "
               "for the mapping with ip in [start,start+size) (E4 order types), with bounds max(start, ip-128)/min(start+size, ip+128) (evaluated on "
               "boundary values) and at most once; (list-after-producers) every writer of memory_blocks precedes memory_list_stream::write whose "
               "count and array both come from memory_blocks.")
TRUSTED = ["copy_from_process returns the target's bytes (C17)"]
ASSUMPTIONS = ["byte-for-byte equality with target memory is what the kernel returns"]

APP = "linux::sections::app_memory::write"
TLW = "linux::sections::thread_list_stream::write"
FTS = "linux::sections::thread_list_stream::fill_thread_stack"
MLS = "linux::sections::memory_list_stream::write"


def pushes_to_memory_blocks(b, o):
    out = []
    for bi, t in b.calls(lambda c: c.short == "std::vec::Vec::push"):
        a = o.call_args(bi)
        r = strip(a[0])
        if r[0] == "field" and r[2] == "memory_blocks":
            out.append((bi, a))
    return out


def copy_calls_in(e):
    return [s for s in walk(e) if s[0] == "call" and s[1].endswith("copy_from_process")]


def rule_desc_copy(ctx):
    R = "C07/desc-copy"
    n = 0
    # --- application memory
    b = ctx.body(R, APP)
    if b is not None:
        o = Origin(b)
        for pb, a in pushes_to_memory_blocks(b, o):
            n += 1
            d = strip(a[1])
            start = core(field_of(d, "start_of_memory_range"))
            mem = strip(field_of(d, "memory"))
            cps = copy_calls_in(mem)
            ok = False
            why = show(d)[:200]
            if len(cps) == 1 and mem[0] == "call" and mem[1].endswith("MemoryArrayWriter::location"):
                cp = cps[0]
                pid, src, ln = cp[2]
                wb = strip(mem[2][0])
                ok = (wb[0] == "call" and wb[1].endswith("write_bytes") and nosite(core(src)) == nosite(start) and
                      core(src)[0] == "field" and core(src)[2] == "ptr" and core(ln)[0] == "field" and core(ln)[2] == "length" and nosite(core(src)[1]) == nosite(core(ln)[1]) and
                      core(pid)[0] == "field" and core(pid)[2] == "blamed_thread")
            ctx.check(ok, R, ("app-memory", "descriptor"), b.where(pb), "app region: start/ptr/length of the same list element, copied via the blamed thread, location of exactly that append",
                      "application-memory descriptor does not describe the bytes copied: %s" % why)
    # --- thread stack: shared with C06/descriptor-agrees, plus location = position before write_all(bytes)
    b = ctx.body(R, FTS)
    if b is not None:
        o = Origin(b)
        for pb, a in pushes_to_memory_blocks(b, o):
            n += 1
            d = a[1]
            start = core(field_of(d, "start_of_memory_range"))
            mem = strip(field_of(d, "memory"))
            ok = False
            if mem[0] == "agg":
                dd = dict(mem[3])
                ds, rva = core(dd["data_size"]), core(dd["rva"])
                cps = copy_calls_in(ds)
                if len(cps) == 1 and rva[0] == "call" and rva[1].endswith("Buffer::position"):
                    cp = cps[0]
                    wa = [x for x, t in b.calls(lambda c: c.is_("mem_writer::Buffer::write_all"))]
                    same_bytes = any(nosite(strip(o.call_args(x)[1])) == nosite(("okval", cp)) or cp in list(walk(o.call_args(x)[1])) for x in wa)
                    ok = nosite(core(cp[2][1])) == nosite(start) and same_bytes and ds[0] == "call" and ds[1].split("::")[-1] == "len"
            ctx.check(ok, R, ("thread-stack", "descriptor"), b.where(pb), "stack region: start = copy source, size = len(copied bytes), rva = position before appending those bytes (C01/pos-append)",
                      "stack descriptor does not describe the bytes copied: %s" % show(d)[:200])
    # --- IP window
    b = ctx.body(R, TLW)
    if b is not None:
        o = Origin(b)
        for pb, a in pushes_to_memory_blocks(b, o):
            n += 1
            d = a[1]
            start = core(field_of(d, "start_of_memory_range"))
            mem = strip(field_of(d, "memory"))
            cps = copy_calls_in(mem)
            ok = False
            if len(cps) == 1 and mem[0] == "call" and mem[1].endswith("MemoryArrayWriter::location"):
                cp = cps[0]
                pid, src, ln = cp[2]
                wb = strip(mem[2][0])
                # src = start_of_memory_range (cast), ln = end - start
                ok = (wb[0] == "call" and wb[1].endswith("alloc_from_array") and nosite(core(src)) == nosite(start))
                lnc = core(ln)
                ok = ok and lnc[0] == "bin" and lnc[1] == "Sub" and nosite(core(lnc[3])) == nosite(start)
                ok = ok and any(s_[0] == "field" and s_[2] == "tid" for s_ in walk(pid))
            ctx.check(ok, R, ("ip-window", "descriptor"), b.where(pb), "IP window: start = copy source, length = end - start, location of exactly that append",
                      "IP-window descriptor does not describe the bytes copied: %s" % show(d)[:240])
    ctx.floor(R, "memory descriptor producers", n, 3)


def rule_every_region_pushed(ctx):
    R = "C07/every-region-pushed"
    b = ctx.body(R, APP)
    if b is not None:
        o = Origin(b)
        pushes = [pb for pb, a in pushes_to_memory_blocks(b, o)]
        loops = b.loops()
        ok = False
        for h in loops:
            item = c01.loop_item(b, o, h)
            if item is None:
                continue
            src = strip(item[0][2][0])
            iter_ok = any(s_[0] == "field" and s_[2] == "app_memory" and root(s_[1]) == ("param", 1) for s_ in walk(src)) and item[1][0] == "LenOf"
            # body entry = Some-successor of the next() switch
            nb = [x for x in loops[h] if b.term(x)["k"] == "call" and CalleeView(b.term(x)["callee"]).short == "std::iter::Iterator::next"][0]
            sw = b.term(nb)["t"]
            entry = [tb for v, tb in b.term(sw)["targets"] if v == 1]
            if entry:
                w = must_pass(b, entry[0], {h}, set(pushes))
                ok = iter_ok and w is None
        ctx.check(ok, R, "app-memory", b.where(0), "the loop ranges over config.app_memory and every iteration that does not fail pushes one descriptor", "an application region can be skipped without an error")
    b = ctx.body(R, FTS)
    if b is not None:
        o = Origin(b)
        pushes = [pb for pb, a in pushes_to_memory_blocks(b, o)]
        wa = [x for x, t in b.calls(lambda c: c.is_("mem_writer::Buffer::write_all"))]
        rets = [i for i in range(b.n) if b.term(i)["k"] == "return"]
        ok = bool(wa) and bool(pushes) and all(must_pass(b, x, rets, set(pushes)) is None for x in wa)
        ctx.check(ok, R, "thread-stack", b.where(wa[0]) if wa else None, "whenever stack bytes are appended their descriptor is pushed", "stack bytes can be appended without registering the region")


def rule_ip_window(ctx):
    R = "C07/ip-window"
    b = ctx.body(R, TLW)
    if b is None:
        return
    o = Origin(b)
    pushes = pushes_to_memory_blocks(b, o)
    if not pushes:
        ctx.violated(R, ("anchor", "push"), b.where(0), "anchor missing: IP window push")
        return
    pb, a = pushes[0]
    loops = b.loops()
    # the push is followed by `break`, so it is not part of the natural loop: find the mappings loop by its iterator
    h = None
    item = None
    for hh in loops:
        it = c01.loop_item(b, o, hh)
        if it is not None and strip(it[0][2][0])[0] == "field" and strip(it[0][2][0])[2] == "mappings" and witness_path(b, hh, {pb}):
            h, item = hh, it
    if h is None:
        ctx.unproven(R, "loop", b.where(pb), "IP window is not produced inside a loop over the mappings")
        return
    inner = [h] + [hh for hh, body in loops.items() if h in body and hh != h]
    src = strip(item[0][2][0]) if item else ("?",)
    ctx.check(src[0] == "field" and src[2] == "mappings", R, "over-mappings", b.where(h), "the search ranges over dumper.mappings", "the search ranges over %s" % show(src)[:80])
    # selection predicate relative to the mapping loop header
    dnf = conditions(b, pb, origin=o, entry=h, relevant=ipe.is_cmp_atom)
    ip = None
    st = sz = None
    for c in dnf or []:
        for (a_, v) in c:
            for s in walk(a_):
                if s[0] == "call" and s[1].endswith("get_instruction_pointer"):
                    ip = s
                if s[0] == "field" and s[2] == "start_address":
                    st = s
                if s[0] == "field" and s[2] == "size":
                    sz = s
    good = dnf is not None and ip is not None and st is not None and sz is not None
    rows = 0
    if good:
        for (l, size) in [(4096, 4096), (0x400000, 0x1000), (0, 4096), (ipe.M64 - 8191, 4096)]:
            for x in [l - 1, l, l + 1, l + size - 1, l + size, l + size + 1]:
                if x < 0 or x > ipe.M64:
                    continue
                def rw(a_):
                    return ("bin", a_[1], core(a_[2]), core(a_[3]), "usize") if a_[0] == "bin" else a_
                try:
                    ev = ipe.Eval({ip: x, st: l, sz: size})
                    got = any(all(ev.lit(rw(a_), v) for (a_, v) in c) for c in dnf)
                except ipe.Unsupported:
                    good = False
                    break
                rows += 1
                if got != (l <= x < l + size):
                    good = False
    ctx.check(good, R, "selects-containing-mapping", b.where(pb), "the window is taken from the mapping with ip in [start, start+size) (%d rows)" % rows, "mapping selection predicate is not ip in [start,start+size)")
    # bounds: start = max(mapping.start, ip - 128); end = min(start+size, ip + 128)
    d = a[1]
    start = core(field_of(d, "start_of_memory_range"))
    cp = copy_calls_in(strip(field_of(d, "memory")))
    okb = False
    if cp and ip is not None and st is not None and sz is not None:
        ln = core(cp[0][2][2])
        try:
            okb = True
            for (l, size, x) in [(4096, 4096, 4096), (4096, 4096, 4096 + 100), (4096, 4096, 4096 + 2000), (4096, 4096, 8191), (4096, 4096, 8191 - 50), (0x400000, 0x100, 0x400080)]:
                ev = ipe.Eval({ip: x, st: l, sz: size})
                s_v = ev.val(start)[0]
                l_v = ev.val(ln)[0]
                exp_s = max(l, x - 128)
                exp_e = min(l + size, x + 128)
                if s_v != exp_s or l_v != exp_e - exp_s:
                    okb = False
        except ipe.Unsupported as e:
            okb = False
    ctx.check(okb, R, "bounds", b.where(pb), "window = [max(start, ip-128), min(start+size, ip+128)) on all boundary configurations", "window bounds are not max(start, ip-128) .. min(start+size, ip+128): start=%s" % show(start)[:160])
    # at most once: after the push the mapping loop is left (break)
    nxt = b.term(pb).get("t")
    outer_h = {hh for hh, body in loops.items() if h in body and hh != h}
    w = witness_path(b, nxt, {h}, removed=outer_h) if nxt is not None else [0]
    ctx.check(w is None, R, "at-most-once", b.where(pb), "after one window the mapping search stops (break)", "the mapping loop can produce several windows")
    # only in the crash-context branch
    outer = max(inner, key=lambda x: len(loops[x]))
    dnf2 = conditions(b, pb, origin=o, entry=outer, relevant=lambda a_: a_[0] == "call" and a_[1].endswith("Option::is_some") and any(s[0] == "field" and s[2] == "crash_context" for s in walk(a_)))
    ctx.check(bool(dnf2) and all(any(v == 1 for (_, v) in c) for c in dnf2), R, "crash-context-only", b.where(pb), "the window is produced only when a crash context was supplied", "the window can be produced without a crash context")


def rule_list_after_producers(ctx, R="C07/list-after-producers"):
    prog = ctx.prog
    g = ctx.body(R, c01.GEN)
    if g is None:
        return
    direct, trans = c19.touched_fields(prog)
    consumers = [bi for bi, t in g.calls(lambda c: c.is_(MLS))]
    ctx.floor(R, "memory_list_stream::write call", len(consumers), 1)
    producers = []
    for bi, t in g.calls():
        cv = CalleeView(t["callee"])
        tgt = cv.target if cv.target in prog.by_short else cv.short
        kinds = trans.get(tgt, {}).get("memory_blocks", set())
        if kinds & {"mutborrow", "write", "partialwrite"}:
            producers.append((bi, tgt))
    ctx.floor(R, "writers of memory_blocks called from generate_dump", len(producers), 2)
    for bi, tgt in producers:
        ok = all(g.dominates(bi, c) for c in consumers) and not any(witness_path(g, c, {bi}) for c in consumers)
        ctx.check(ok, R, ("producer", tgt.split("::")[-2]), g.where(bi), "%s (adds memory descriptors) runs before the memory list is emitted" % tgt.split("::")[-2],
                  "%s adds memory descriptors after the memory list was emitted" % tgt)
    # consumer reads count and array from memory_blocks (C01/count-array instance) — re-checked here for the key
    b = ctx.body(R, MLS)
    if b is not None:
        o = Origin(b)
        hv = [o.call_args(x)[1] for x, t in b.calls(lambda c: c.is_("mem_writer::MemoryWriter::alloc_with_val"))]
        av = [o.call_args(x)[1] for x, t in b.calls(lambda c: (c.short or "").endswith("alloc_from_array"))]
        def is_blocks(e):
            e = core(e)
            while e[0] == "call" and e[1].split("::")[-1] in ("deref", "as_slice", "as_ref", "borrow") and e[2]:
                e = core(e[2][0])
            return e[0] == "field" and e[2] == "memory_blocks" and root(e[1]) == ("param", 1)
        ok = bool(hv) and bool(av) and LA.alen(hv[0], prog) == LA.alen_coll(av[0], prog) and is_blocks(av[0])
        ctx.check(ok, R, "consumer-source", b.where(0), "the memory list is config.memory_blocks itself: same count, the descriptors as the producers pushed them",
                  "the memory list is not written from config.memory_blocks as it is (array: %s): descriptors that were re-sorted, merged or filtered no longer describe the bytes their producer appended" % (show(av[0])[:80] if av else "?"))


MEMORY_BLOCKS_MUTATORS = {
    ("linux::sections::thread_list_stream::fill_thread_stack", "push"): "one descriptor per captured stack, built next to the append (C07/desc-copy)",
    ("linux::sections::thread_list_stream::write", "push"): "the instruction-pointer window (C07/ip-window)",
    ("linux::sections::app_memory::write", "push"): "one descriptor per application region (C07/desc-copy)",
    ("linux::minidump_writer::MinidumpWriter::dump", "clear"): "per-dump reset (C19)",
    ("linux::minidump_writer::MinidumpWriter::dump", "store"): "per-dump reset by assigning a fresh list (C19)",
}


def rule_memory_blocks_writers(ctx, R="C07/memory-blocks-writers"):
    """a descriptor is final when it is pushed: the producers push, dump() clears, and nothing else touches the list or an element of it
    (growing, merging or re-pointing a pushed descriptor makes it name bytes its producer never appended)"""
    from rules import c04
    c04.rule_list_mutators(ctx, R, "memory_blocks", MEMORY_BLOCKS_MUTATORS, "the memory-block list", 4, adt="minidump_writer::MinidumpWriter")


def run(ctx):
    rule_memory_blocks_writers(ctx)
    rule_desc_copy(ctx)
    rule_every_region_pushed(ctx)
    rule_ip_window(ctx)
    rule_list_after_producers(ctx)
    # byte-for-byte: every region's bytes come through MemReader — the reader rules of C17 are necessary conditions of C07 too
    # (same rule instances: argument wiring of the three strategies, PEEKDATA word/tail windows, length = bytes actually read)
    from rules import c17
    c17.rule_args(ctx, R="C07/reader-args")
    c17.rule_prefix_only(ctx, R="C07/reader-prefix-only")
    c17.rule_reader_identity(ctx, R="C07/reader-identity")   # ... of THIS target: every reader is built for an identity of the target
    # "every application-requested region": the requested list reaches the writer as the caller gave it
    from rules import c19
    n = c19.rule_setters_verbatim(ctx, R="C07/requested-list-verbatim", only=("app_memory",))
    ctx.floor("C07/requested-list-verbatim", "set_app_memory", n, 1)
    # the list holds the regions of THIS request only: descriptors recorded by an earlier (possibly aborted) request are cleared before
    # anything is recorded (same rule instance as C19/stale-field, C01/one-flush-owner)
    c19.rule_stale_field(ctx, rule="C07/no-stale-regions", only=("memory_blocks",))
    # "every non-empty thread stack appears as a region": the stack must be FOUND first (same rule instances as C06/plausible-stack,
    # C06/find-mapping, C06/page-start)
    from rules import c06
    c06.rule_plausible_stack(ctx, R="C07/stack-found/plausible")
    c06.rule_find_mapping(ctx, R="C07/stack-found/lookup")
    c06.rule_page_start(ctx, R="C07/stack-found/page-start")
    # the requested regions and the crash context are what the caller configured, in every dump from this writer (same rule instance as C19/config-preserved)
    from rules import c19 as _c19
    _c19.rule_config_preserved(ctx, R="C07/options-kept", only=("app_memory", "crash_context"))
    # the stream is attempted in every dump: its writer is on every success path of generate_dump (same rule instance as C01/every-stream-attempted)
    from rules import c01 as _c01
    _c01.rule_stream_attempted(ctx, R="C07/stream-attempted", only=("memory_list_stream::write", "app_memory::write"))
    # the regions reach the destination where their descriptors say (same rule instances as C09/seek-targets, C09/save-restore)
    from rules import c09 as _c09
    _c09.rule_seek_targets(ctx, R="C07/destination/seek-targets")
    _c09.rule_save_restore(ctx, R="C07/destination/save-restore")
    # a stack descriptor that names a position is followed, on every path to a success return, by the append of exactly those bytes
    # (same rule instance as C01/pos-append)
    from rules import c01 as _c01pa
    _c01pa.rule_pos_append(ctx, R="C07/descriptor-then-bytes")
    # shared infrastructure this property leans on (rules/families.py): each member is the same rule instance as in its home property
    from rules import families as _fam
    _fam.reader(ctx, "C07")
    _fam.mapping_list(ctx, "C07")
    # the stream this property talks about is all-or-nothing: generate_dump succeeds only if its writer returned Ok (rules/c01.py rule_hard_streams)
    from rules import c01 as _c01h
    _c01h.rule_hard_streams(ctx, R="C07/hard-streams", only=('thread_list_stream::write', 'app_memory::write', 'memory_list_stream::write'))
    # "every non-empty thread stack appears": a thread is left out of the list only when it could not be attached or has no stack (rules/families.py)
    from rules import families as _famt
    _famt.thread_list(ctx, "C07")
    # every flush hands the destination exactly the pending bytes and records how far it got (rules/families.py, destination family)
    from rules import families as _famd2
    _famd2.destination(ctx, "C07")
