"""C15 — thread names are attached to the right threads (structural clauses)."""
from engine.mir import CalleeView, norm
from engine.origin import Origin, strip, core, nosite, show, walk
from engine.paths import conditions, must_pass, Exits
from engine import lenalg as LA
from rules import c01

PROPERTY = "C15"
EXPLANATION = ("Static rules on the MIR of thread_names_stream::write: (index-bound) the slot index of every written "
               "entry ranges over the allocated (= header) count; (pairing) thread_id and thread_name_rva of one entry "
               "come from the same list element; (skip-only-unnamed) an element reaches the slot write iff its name is Some; "
               "(name-source) Thread.name is the trimmed content of /proc/<pid>/task/<tid>/comm of the same tid.")
TRUSTED = ["std iterator length semantics"]
ASSUMPTIONS = ["/proc/<pid>/task/<tid>/comm holds the kernel's name for the thread"]
FN = "linux::sections::thread_names_stream::write"


def is_name_discr(a):
    return a[0] == "discr" and strip(a[1])[0] == "field" and strip(a[1])[2] == "name"


def run(ctx):
    R = "C15/index-bound"
    n = c01.index_bound_sites(ctx, R, only_fn=FN)
    ctx.floor(R, "set_value_at sites in thread_names_stream::write", n, 1)
    b = ctx.body("C15/pairing", FN)
    if b is None:
        return
    o = Origin(b)
    # ---- pairing
    R = "C15/pairing"
    n = 0
    for bi, t in b.calls(lambda c: c.is_(c01.SET_AT)):
        val = strip(o.call_args(bi)[2])
        if not (val[0] == "agg" and val[1].endswith("MINIDUMP_THREAD_NAME")):
            ctx.unproven(R, ("entry", "shape"), b.where(bi), "written value is not a MINIDUMP_THREAD_NAME aggregate: %s" % show(val)[:160])
            continue
        n += 1
        d = dict(val[3])
        tid = core(d["thread_id"])
        rva = core(d["thread_name_rva"])
        # tid = ELEM.tid ; rva = write_string_to_location(buf, ELEM.name).rva
        okt = tid[0] == "field" and tid[2] == "tid"
        elem_t = tid[1] if okt else None
        okr = rva[0] == "field" and rva[2] == "rva" and strip(rva[1])[0] == "call" and strip(rva[1])[1]== "mem_writer::write_string_to_location"
        elem_n = None
        if okr:
            s = strip(strip(rva[1])[2][1])
            if s[0] == "field" and s[2] == "name":
                elem_n = s[1]
        ctx.check(okt and okr and elem_t is not None and nosite(elem_t) == nosite(elem_n), R, ("entry", "same-element"), b.where(bi),
                  "thread_id <- %s.tid and thread_name_rva <- string written from the same element's name" % show(elem_t)[:80] if okt else "",
                  "entry pairs tid from %s with a name from %s" % (show(tid)[:100], show(rva)[:140]))
    ctx.floor(R, "written MDRawThreadName entries", n, 1)
    # ---- skip-only-unnamed: guard of the write relative to the loop iteration
    R = "C15/skip-only-unnamed"
    loops = b.loops()
    for bi, t in b.calls(lambda c: c.is_(c01.SET_AT)):
        inner = [h for h, body in loops.items() if bi in body]
        if not inner:
            ctx.unproven(R, ("write", "loop"), b.where(bi), "entry write is not inside a loop over the thread list")
            continue
        h = min(inner, key=lambda x: len(loops[x]))
        item = c01.loop_item(b, o, h)
        if item is None:
            ctx.unproven(R, ("write", "loop"), b.where(bi), "loop is not iterator-driven")
            continue
        itexpr, itlen = item
        dnf = conditions(b, bi, entry=h, origin=o,
                         relevant=is_name_discr)
        ok = bool(dnf) and all(any(v == 1 for (a, v) in c) for c in dnf)
        ctx.check(ok, R, ("write", "guard"), b.where(bi), "the slot write is reached only when the element's name is Some",
                  "the slot write can be reached without the element's name being Some")
        # an unnamed element (name == None) reaches no buffer-growing call
        none_blocks = set()
        for x in loops[h]:
            tt = b.term(x)
            if tt["k"] == "switch":
                from engine.paths import switch_atom
                atom, hint = switch_atom(b, o, x)
                if is_name_discr(atom):
                    for (tgt, lab) in b.succ_edges(x):
                        if lab[0] == "sw" and (lab[1] == 0 or (lab[1] == "otherwise" and 1 in lab[2])):
                            none_blocks.add(tgt)
        bad = []
        for nb in none_blocks:
            reach = b.reachable_from(nb, unwind=False, stop={h}) & loops[h]
            for x in reach:
                if x == h:
                    continue
                tt = b.term(x)
                if tt["k"] == "call" and c01.buffer_mut_arg(tt):
                    bad.append(b.where(x))
        ctx.check(bool(none_blocks) and not bad, R, ("unnamed", "no-write"), b.where(bi),
                  "an unnamed element writes nothing to the image", "an unnamed element reaches buffer writes at %s" % bad if none_blocks else "no branch on the element's name found")
    # ---- name-source (enumerate_threads): Thread{tid, name} built from comm of the same tid
    R = "C15/name-source"
    eb = ctx.body(R, "linux::ptrace_dumper::PtraceDumper::enumerate_threads")
    if eb is not None:
        eo = Origin(eb)
        n = 0
        for bi, blk in enumerate(eb.blocks):
            for si, st in enumerate(blk["stmts"]):
                if st["k"] == "assign" and st["r"]["k"] == "agg" and st["r"].get("ak") == "adt" and norm(st["r"]["adt"]).endswith("ptrace_dumper::Thread"):
                    e = eo._rvalue(st["r"], (bi, si), 0)
                    d = dict(e[3])
                    n += 1
                    tid = d["tid"]
                    name = d["name"]
                    # the name expression must contain read_to_string(format(.. comm .. tid ..)) with the same tid origin
                    reads = [s for s in walk(name) if s[0] == "call" and s[1].endswith("fs::read_to_string")]
                    good = False
                    for rd in reads:
                        has_comm = any(s[0] == "str" and "/comm" in s[1] and "/proc/" in s[1] and "/task/" in s[1] for s in walk(rd))
                        has_tid = any(nosite(s) == nosite(strip(tid)) for s in walk(rd))
                        if has_comm and has_tid:
                            good = True
                    ctx.check(good, R, ("Thread", "comm-of-same-tid"), eb.where(bi, si),
                              "Thread.name is read from /proc/<pid>/task/<tid>/comm formatted with the same tid that is stored",
                              "Thread.name is not read from the comm file of the stored tid: %s" % show(name)[:200])
                    # between the read and the stored name only the trailing newline may be removed
                    ALLOWED = {"read_to_string", "trim_end", "trim_end_matches", "strip_suffix", "to_string", "to_owned", "into", "from", "as_str",
                               "deref", "ok", "map", "unwrap_or", "unwrap_or_default", "clone", "borrow", "as_ref"}

                    def contains_read(x):
                        return any(s_[0] == "call" and s_[1].endswith("fs::read_to_string") for s_ in walk(x))
                    applied = sorted({s_[1].split("::")[-1] for s_ in walk(name) if s_[0] == "call" and contains_read(s_)})
                    extra = [f for f in applied if f not in ALLOWED]
                    # ... and by the std function of that name: a function of this crate called `trim_end` trims what it likes
                    from engine.lenalg import _is_std
                    extra += sorted({s_[1] for s_ in walk(name) if s_[0] == "call" and contains_read(s_) and not _is_std(s_[1])})
                    ctx.check(not extra and "read_to_string" in applied, R, ("Thread", "name-unaltered"), eb.where(bi, si),
                              "the stored name is the comm content with only trailing characters removed (%s)" % ", ".join(applied),
                              "the kernel's thread name is altered before it is stored: %s applied to the comm content (only trailing trimming is expected)" % ", ".join(extra or ["?"]))
        ctx.floor(R, "Thread aggregates in enumerate_threads", n, 1)
        # ... the name of THIS thread: the variable the element's name is taken from is (re)defined on every path of the iteration that
        # builds the element.  A `let mut name = None;` hoisted above the loop and assigned only when the read succeeds keeps the previous
        # thread's name for a thread whose comm cannot be read (the origin expressions of two iterations are the same text, so the
        # expression-level clauses above cannot see it)
        loops = eb.loops()
        for bi, blk in enumerate(eb.blocks):
            for si, st in enumerate(blk["stmts"]):
                if not (st["k"] == "assign" and st["r"]["k"] == "agg" and st["r"].get("ak") == "adt" and norm(st["r"]["adt"]).endswith("ptrace_dumper::Thread")):
                    continue
                flds = st["r"].get("fields") or []
                ops = st["r"].get("ops") or []
                op = ops[flds.index("name")] if "name" in flds and len(ops) == len(flds) else None
                L = op["p"]["l"] if op and op.get("k") in ("copy", "move") and not op["p"]["proj"] else None
                for _hop in range(6):      # through moves, clones and the references handed to them
                    if L is None:
                        break
                    ds = [d for d in eb.defs.get(L, ()) if d[2] in ("assign", "call")]
                    if len(ds) != 1:
                        break
                    d = ds[0]
                    nxt = None
                    if d[2] == "assign":
                        r = d[3]["r"]
                        if r["k"] == "use" and r["o"].get("k") in ("copy", "move") and not r["o"]["p"]["proj"]:
                            nxt = r["o"]["p"]["l"]
                        elif r["k"] == "ref" and not r["p"]["proj"]:
                            nxt = r["p"]["l"]
                    elif CalleeView(d[3]["callee"]).short in ("std::clone::Clone::clone", "std::option::Option::take", "std::mem::take") and d[3]["args"]:
                        a0 = d[3]["args"][0]
                        nxt = a0["p"]["l"] if a0.get("k") in ("copy", "move") and not a0["p"]["proj"] else None
                    if nxt is None:
                        break
                    L = nxt
                inner = [h for h, body in loops.items() if bi in body]
                if L is None or not inner:
                    ctx.unproven(R, ("Thread", "name-fresh-per-thread"), eb.where(bi, si), "cannot find the variable the element's name is taken from, or the element is not built in a loop")
                    continue
                h = min(inner, key=lambda x: len(loops[x]))
                dblocks = {d[0] for d in eb.defs.get(L, ()) if d[2] in ("assign", "call") and d[0] in loops[h]}
                w = must_pass(eb, h, {bi}, dblocks) if dblocks else [h]
                ctx.check(w is None, R, ("Thread", "name-fresh-per-thread"), eb.where(bi, si), "the name variable is defined on every path of the iteration that builds the element",
                          "the variable the element's name is taken from (%s) is not assigned on every path of the iteration: a thread whose name cannot be read inherits the name left by an earlier thread" % eb.local_name(L))
    # a thread whose name cannot be decoded must be "simply absent": it must not fail the dump (and with it every other entry)
    from rules import c04
    c04.rule_hard_decode(ctx, R="C15/hard-decode")
    # the name is stored with the shared string helper: header = 2 * UTF-16 units, body = those units (same instance as C16/string)
    from rules import c16
    c16.rule_string(ctx, R="C15/name-string")
    # an unreadable name is recorded as a soft error carrying the io::Error; that record is serialised at the end of the dump, and a
    # panic there loses every other thread's entry too (same rule instance as C11/serialisers-total)
    from rules import c11
    c11.rule_serialisers_total(ctx, R="C15/name-failure-serialisable")
    # the stream is attempted in every dump: its writer is on every success path of generate_dump (same rule instance as C01/every-stream-attempted)
    from rules import c01 as _c01
    _c01.rule_stream_attempted(ctx, R="C15/stream-attempted", only=("thread_names_stream::write",))
    # "absence never shifts the entries of other threads": list elements (tid AND name) move only as a whole — the list is written by
    # enumerate_threads/push and suspend_threads/retain only (same rule instance as C04/thread-list-mutators)
    from rules import c04 as _c04m
    _c04m.rule_thread_list_mutators(ctx, R="C15/thread-list-mutators")
    # shared infrastructure this property leans on (rules/families.py): each member is the same rule instance as in its home property
    from rules import families as _fam
    _fam.thread_list(ctx, "C15")
    # the stream reaches the caller's file where the directory says, wherever in the destination the dump starts (rules/families.py)
    from rules import families as _famd
    _famd.destination(ctx, "C15")
