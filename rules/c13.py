"""C13 — mapping aggregation preserves the address-space picture (per-iteration structural clauses)."""
from engine.mir import CalleeView, norm
from engine.origin import Origin, strip, core, show, root, walk, nosite, is_const, alts, field_of
from engine.paths import Exits, must_pass, conditions, switch_atom, witness_path
from rules import c01

PROPERTY = "C13"
EXPLANATION = ("Guard-atom rules on MappingInfo::aggregate: (merge-guards) each of the three merge sites (stores that extend an earlier element) is "
               "reached only under its rule's atoms — contiguity `start == prev.end_address()` in every case, plus same-name / reserved-gap / fold "
               "atoms (path conditions as DNF over branch literals, with materialised booleans tracked path-sensitively); (hull) every merge stores "
               "size <- line.end - merged.start and the fold pops the middle element exactly once; (one-outcome) every iteration ends in exactly one "
               "of {merge + continue, push(new)} and the pushed element carries the line's own range; (gate-name) renaming to linux-gate.so happens iff "
               "the name is not a path and start == the auxv vDSO address.")
TRUSTED = ["/proc/<pid>/maps lines are ascending and non-overlapping (kernel)", "procfs-core parsing"]
ASSUMPTIONS = ["interaction of merges over long line sequences beyond the per-iteration invariant is not decided"]

FN = "linux::maps_reader::MappingInfo::aggregate"


def line_start(e):
    c = core(e)
    return c[0] == "field" and c[2] == "0" and strip(c[1])[0] == "field" and strip(c[1])[2] == "address"


def line_end(e):
    c = core(e)
    return c[0] == "field" and c[2] == "1" and strip(c[1])[0] == "field" and strip(c[1])[2] == "address"


def callname(a):
    return a[1].split("::")[-1] if a[0] == "call" else None


def rule_merges(ctx, P="C13"):
    R = P + "/merge-guards"
    b = ctx.body(R, FN)
    if b is None:
        return
    o = Origin(b)
    loops = b.loops()
    if not loops:
        ctx.violated(R, ("anchor", "loop"), b.where(0), "anchor missing: loop over the maps lines")
        return
    h = max(loops, key=lambda x: len(loops[x]))
    # merge sites: stores to `<elem>.size` through a reference (projection deref + field size)
    sites = []
    for bi, blk in enumerate(b.blocks):
        for si, st in enumerate(blk["stmts"]):
            if st["k"] == "assign" and st["p"]["proj"] and st["p"]["proj"][-1].get("n") == "size" and st["p"]["proj"][0]["k"] == "deref" and (st["p"]["proj"][-1].get("adt") or "").endswith("MappingInfo"):
                sites.append((bi, si, st))
    ctx.floor(R, "merge sites (stores to an earlier element's size)", len(sites), 3)
    kinds_seen = {}
    for site_no, (bi, si, st) in enumerate(sites):
        def rel(a):
            if a[0] == "call":
                return callname(a) in ("name_is_path", "is_executable", "is_empty_page", "eq", "is_some", "ne")
            if a[0] == "bin":
                return a[1] in ("Eq", "Ne")
            if a[0] == "discr":
                x = strip(a[1])
                return x[0] == "call" and callname(x) in ("last_mut", "last", "next", "first", "first_mut") and not any(s == ("param", 1) for s in x[2])
            return False
        dnf = conditions(b, bi, origin=o, entry=h, relevant=rel)
        if dnf is None or not dnf:
            ctx.unproven(R, ("site", "merge#%d" % (site_no + 1)), b.where(bi, si), "cannot compute the path condition of this merge")
            continue
        target = o.place({"l": st["p"]["l"], "proj": st["p"]["proj"][:-1], "ty": ""}, (bi, si))
        tgt = strip(root(strip(target)))
        # which earlier element: last_mut() -> prev ; first_mut()/first() of rchunks -> prev_prev
        is_fold = any(s[0] == "call" and callname(s) in ("first_mut", "first") for s in walk(tgt))
        def lits(c):
            out = []
            for (a, v) in c:
                out.append((a, v))
            return out
        def has(c, pred):
            return any(pred(a, v) for (a, v) in c)
        contig_prev = lambda a, v: a[0] == "bin" and a[1] == "Eq" and v == 1 and ((line_start(a[2]) and callname(core(a[3])) == "end_address") or (line_start(a[3]) and callname(core(a[2])) == "end_address"))
        if is_fold:
            kind = "fold"
            req = {
                "prev_prev.name_is_path()": lambda a, v: callname(a) == "name_is_path" and v == 1,
                "prev_prev.end == prev.start": lambda a, v: a[0] == "bin" and a[1] == "Eq" and v == 1 and {callname(core(a[2])) or (core(a[2])[2] if core(a[2])[0] == "field" else None), callname(core(a[3])) or (core(a[3])[2] if core(a[3])[0] == "field" else None)} == {"end_address", "start_address"},
                "prev.is_empty_page()": lambda a, v: callname(a) == "is_empty_page" and v == 1,
                "prev.end == start (contiguity)": contig_prev,
                "pathname == prev_prev.name": lambda a, v: callname(a) == "eq" and "PartialEq" in a[1] and v == 1 and any(s[0] == "field" and s[2] == "name" for s in walk(a)),
            }
        else:
            # same-name vs reserved-gap: distinguished by the presence of the name equality
            same = all(has(c, lambda a, v: callname(a) == "eq" and "Option" in a[1] and v == 1) for c in dnf)
            if same:
                kind = "same-name"
                req = {
                    "start == prev.end (contiguity)": contig_prev,
                    "pathname.is_some()": lambda a, v: callname(a) == "is_some" and v == 1,
                    "pathname == prev.name": lambda a, v: callname(a) == "eq" and "Option" in a[1] and v == 1 and any(s[0] == "field" and s[2] == "name" for s in walk(a)),
                }
            else:
                kind = "reserved-gap"
                req = {
                    "start == prev.end (contiguity)": contig_prev,
                    "prev.is_executable()": lambda a, v: callname(a) == "is_executable" and v == 1,
                    "prev.name_is_path()": lambda a, v: callname(a) == "name_is_path" and v == 1,
                    "offset == 0 || offset == prev.end": lambda a, v: a[0] == "bin" and a[1] == "Eq" and v == 1 and any(s[0] == "field" and s[2] == "offset" for s in walk(a)),
                    "perms == PRIVATE": lambda a, v: callname(a) == "eq" and "MMPermissions" in a[1] and v == 1 and any(is_const(s) and s[1] == 16 for s in walk(a)),
                }
        if is_fold:
            # the element that is extended is the library that was tested: the FIRST OF THE LAST TWO elements (a tail view of the list —
            # rchunks_exact(_mut)(2), split_last_mut, len()-2), not `first_mut()` of the whole list, which is the same element only while
            # the list has exactly two entries
            tail = any(s[0] == "call" and callname(s) in ("rchunks_exact_mut", "rchunks_exact", "rchunks_mut", "rchunks", "split_last_mut", "split_last", "windows", "get_mut", "index_mut") for s in walk(tgt))
            ctx.check(tail, R, ("fold", "target-is-second-to-last"), b.where(bi, si), "the fold extends the first of the last two derived mappings",
                      "the fold extends %s: that is the library that was tested only while the list has two entries — with a longer list the first mapping of the whole map is stretched over everything in between" % show(tgt)[:120])
        kinds_seen[kind] = kinds_seen.get(kind, 0) + 1
        for name, pred in req.items():
            ok = all(has(c, pred) for c in dnf)
            ctx.check(ok, R, (kind, name), b.where(bi, si), "%s merge requires %s on every path" % (kind, name),
                      "%s merge can be reached without `%s`" % (kind, name), detail={"paths": len(dnf)})
        # hull: size <- line.end - target.start_address
        v = core(o._rvalue(st["r"], (bi, si), 0))
        okh = v[0] == "bin" and v[1] == "Sub" and line_end(v[2]) and core(v[3])[0] == "field" and core(v[3])[2] == "start_address" and nosite(strip(core(v[3])[1])) == nosite(tgt)
        ctx.check(okh, P + "/hull", (kind, "size"), b.where(bi, si), "merged size <- line.end - merged.start_address (hull of the merged lines)", "merged size <- %s" % show(v)[:160])
        # a merge of a NAMED part (same-name, fold) also extends the kernel-reported range of the module: system_mapping_info.end_address <- line.end
        # in the same straight-line region as the size store (the membership tests of C12/C20 read that range, not start/size)
        if kind in ("same-name", "fold"):
            sys_ok = False
            # the straight-line region around the size store: up through single-predecessor/single-successor links, and down likewise
            region = [bi]
            x_ = bi
            while True:
                ps = [p_ for p_ in b.preds.get(x_, ()) if not b.blocks[p_]["cleanup"]]
                if len(ps) != 1 or len(b.succs(ps[0], unwind=False)) != 1:
                    break
                x_ = ps[0]
                region.append(x_)
            x_ = bi
            while True:
                ss = b.succs(x_, unwind=False)
                if len(ss) != 1 or len([p_ for p_ in b.preds.get(ss[0], ()) if not b.blocks[p_]["cleanup"]]) != 1:
                    break
                x_ = ss[0]
                region.append(x_)
            for (bj, si2, st2) in [(bj, si2, st2) for bj in region for si2, st2 in enumerate(b.blocks[bj]["stmts"])]:
                pj = st2.get("p", {}).get("proj", []) if st2["k"] == "assign" else []
                if len(pj) >= 2 and pj[-1].get("n") == "end_address" and pj[-2].get("n") == "system_mapping_info":
                    tg2 = strip(root(strip(o.place({"l": st2["p"]["l"], "proj": pj[:-2], "ty": ""}, (bj, si2)))))
                    v2 = core(o._rvalue(st2["r"], (bj, si2), 0))
                    if nosite(tg2) == nosite(tgt) and line_end(v2):
                        sys_ok = True
            ctx.check(sys_ok, P + "/hull", (kind, "system-range"), b.where(bi, si), "the merged module's system range is extended to the merged line's end (system_mapping_info.end_address <- line.end)",
                      "the %s merge extends `size` but not system_mapping_info.end_address: the module's kernel-reported range stops before the merged part (pointer/IP tests against it miss that part)" % kind)
        # after the merge the iteration continues without pushing
        pushes = [x for x, t in b.calls(lambda c: c.short == "std::vec::Vec::push") if x in loops[h]]
        w = witness_path(b, bi, set(pushes), removed={h})
        ctx.check(w is None or w == [bi], P + "/one-outcome", (kind, "no-push-after-merge"), b.where(bi, si), "a merged line is not also pushed", "a merged line can also be pushed as a new mapping")
        if kind == "fold":
            pops = [x for x, t in b.calls(lambda c: c.short == "std::vec::Vec::pop")]
            nxt_h = must_pass(b, bi, {h}, set(pops))
            only = all(witness_path(b, bi, {p}) is not None for p in pops) and len(pops) == 1
            ctx.check(nxt_h is None and only, P + "/hull", ("fold", "pop-middle-once"), b.where(bi, si), "the fold removes the middle (empty-page) element exactly once", "the fold does not pop the middle element exactly once")
    for k in ("same-name", "reserved-gap", "fold"):
        ctx.check(kinds_seen.get(k, 0) == 1, R, ("kinds", k), b.where(h), "exactly one %s merge site" % k, "%d %s merge sites" % (kinds_seen.get(k, 0), k), nontrivial=False)


def rule_one_outcome(ctx, R="C13/one-outcome"):
    b = ctx.body(R, FN)
    if b is None:
        return
    o = Origin(b)
    loops = b.loops()
    h = max(loops, key=lambda x: len(loops[x]))
    pushes = [x for x, t in b.calls(lambda c: c.short == "std::vec::Vec::push") if x in loops[h]]
    ctx.floor(R, "push(new mapping) in the loop", len(pushes), 1)
    merges = set()
    for bi, blk in enumerate(b.blocks):
        for si, st in enumerate(blk["stmts"]):
            if st["k"] == "assign" and st["p"]["proj"] and st["p"]["proj"][-1].get("n") == "size" and st["p"]["proj"][0]["k"] == "deref":
                merges.add(bi)
    # body entry
    nb = [x for x in loops[h] if b.term(x)["k"] == "call" and CalleeView(b.term(x)["callee"]).short == "std::iter::Iterator::next"]
    entry = None
    if nb:
        sw = b.term(nb[0])["t"]
        entry = [tb for v, tb in b.term(sw)["targets"] if v == 1]
    if entry:
        w = must_pass(b, entry[0], {h}, set(pushes) | merges)
        ctx.check(w is None, R, "every-line-kept", b.where(h), "every line that does not raise an error is either merged into an earlier mapping or pushed as a new one", "a line can be dropped", detail={"path": w})
    for p in pushes:
        v = strip(o.call_args(p)[1])
        ok = False
        if v[0] == "agg" and v[1].endswith("MappingInfo"):
            d = dict(v[3])
            sz = core(d["size"])
            smi = strip(d["system_mapping_info"])
            ok = line_start(d["start_address"]) and sz[0] == "bin" and sz[1] == "Sub" and line_end(sz[2]) and line_start(sz[3])
            if smi[0] == "agg":
                dd = dict(smi[3])
                ok = ok and line_start(dd["start_address"]) and line_end(dd["end_address"])
            else:
                ok = False
        ctx.check(ok, R, "pushed-range", b.where(p), "a pushed mapping carries the line's own range (start, end-start, system range)", "pushed mapping is %s" % show(v)[:200])
        recv = strip(o.call_args(p)[0])
    # the returned list is the one pushed to
    from engine.summ import return_origins
    outs = return_origins(ctx.prog, FN) or []
    recv = [nosite(strip(o.call_args(p)[0])) for p in pushes]
    ctx.check(bool(outs) and all(nosite(strip(e)) in recv for e in outs), R, "returns-the-list", b.where(0), "the function returns the list it built", "returned value is %s" % [show(e)[:80] for e in outs])


def rule_gate_name(ctx):
    R = "C13/gate-name"
    b = ctx.body(R, FN)
    if b is None:
        return
    o = Origin(b)
    loops = b.loops()
    h = max(loops, key=lambda x: len(loops[x]))
    # assignment pathname = Some(LINUX_GATE_LIBRARY_NAME.into())
    sites = []
    for bi, blk in enumerate(b.blocks):
        for si, st in enumerate(blk["stmts"]):
            if st["k"] == "assign" and st["r"]["k"] == "agg" and st["r"].get("vname") == "Some":
                e = o._rvalue(st["r"], (bi, si), 0)
                if any(s[0] == "str" and "linux-gate.so" in s[1] for s in walk(e)) or any(s[0] == "named" and "LINUX_GATE" in s[1] for s in walk(e)):
                    sites.append((bi, si))
    ctx.floor(R, "linux-gate renaming site", len(sites), 1)
    for bi, si in sites:
        dnf = conditions(b, bi, origin=o, entry=h, relevant=lambda a: (a[0] == "call" and a[1].endswith("is_mapping_a_path")) or (a[0] == "bin" and a[1] == "Eq") or (a[0] == "discr" and any(s == ("param", 2) for s in walk(a))))
        ok = bool(dnf)
        for c in dnf or []:
            path0 = any(a[0] == "call" and v == 0 for (a, v) in c)
            eq1 = any(a[0] == "bin" and v == 1 and (line_start(a[2]) or line_start(a[3])) and any(s == ("param", 2) for s in walk(a)) for (a, v) in c)
            some = any(a[0] == "discr" and v == 1 for (a, v) in c)
            ok = ok and path0 and eq1 and some
        ctx.check(ok, R, "iff", b.where(bi, si), "the mapping is renamed to linux-gate.so iff its name is not a path and start == the vDSO address handed in", "renaming condition is %s" % [[(show(a)[:70], v) for a, v in c] for c in (dnf or [])])
    # the vDSO address handed in by the caller comes from auxv
    eb = ctx.body(R, "linux::ptrace_dumper::PtraceDumper::enumerate_mappings")
    if eb is not None:
        eo = Origin(eb)
        for x, t in eb.calls(lambda c: c.is_(FN)):
            a = eo.call_args(x)
            g = strip(a[1])
            ctx.check(g[0] == "call" and g[1].endswith("get_linux_gate_address") and any(s[0] == "field" and s[2] == "auxv" for s in walk(g)), R, "from-auxv", eb.where(x),
                      "the vDSO address is auxv.get_linux_gate_address()", "vDSO address comes from %s" % show(g)[:100])


KERNEL_DELETED_MARKER = " (deleted)"   # fs/d_path.c: prepend(.., " (deleted)", 10)


def rule_deleted_suffix(ctx, R="C13/deleted-suffix"):
    """'same name' in the merge rule is equality of the names aggregate() stores, i.e. of sanitize_path(name): the kernel appends
    exactly ONE ' (deleted)' marker to the path of an unlinked file, so exactly one is removed — removing more (or anything else)
    makes two different files compare equal and lets their lines merge"""
    b = ctx.body(R, "linux::maps_reader::sanitize_path")
    if b is None:
        return
    o = Origin(b)
    from engine.summ import return_origins
    ALLOWED = {"deref", "as_bytes", "as_os_str", "strip_suffix", "to_owned", "to_vec", "from_vec", "into_vec", "from", "into", "clone", "as_ref", "borrow",
               "as_encoded_bytes", "from_encoded_bytes_unchecked", "to_os_string", "to_str", "from_bytes", "len", "ends_with", "truncate", "split_at", "new"}
    calls = [(bi, (CalleeView(t["callee"]).short or "?").split("::")[-1]) for bi, t in b.calls()]
    extra = sorted({n for _, n in calls if n not in ALLOWED and not n.startswith("drop")})
    strips = [bi for bi, n in calls if n == "strip_suffix"]
    ctx.check(not extra and len(strips) == 1 and not b.loops(), R, "strips-one-suffix", b.where(strips[0]) if strips else b.where(0),
              "sanitize_path removes the marker with a single strip_suffix (at most one occurrence, nothing else is altered)",
              "sanitize_path does not remove exactly one trailing marker: %s" % (("calls " + ", ".join(extra)) if extra else ("%d strip_suffix call(s)%s" % (len(strips), ", inside a loop" if b.loops() else ""))))
    for bi in strips:
        a = o.call_args(bi)
        suf = strip(a[1])
        txt = None
        for q in walk(suf):
            if q[0] in ("str", "bytes") and isinstance(q[1], (str, bytes)):
                txt = q[1]
            if q[0] == "named" and "DELETED_SUFFIX" in str(q[1]):
                txt = txt or "named"
        okc = txt is not None
        ctx.check(okc, R, "marker-constant", b.where(bi), "the stripped suffix is the DELETED_SUFFIX constant", "the stripped suffix is %s" % show(suf)[:80], nontrivial=False)
        # ... whose VALUE is the kernel's marker (fs/d_path.c appends " (deleted)", blank included, to the path of an unlinked file): anything
        # shorter also matches names that merely end that way (`cache(deleted)`), anything else matches nothing
        val = None
        for q in walk(suf):
            if q[0] in ("str", "bytes") and isinstance(q[1], str):
                val = q[1]
            if q[0] == "named":
                from rules.c14 import _named_str
                val = val or _named_str(ctx.prog, q[1])
        ctx.check(val == KERNEL_DELETED_MARKER, R, "marker-value", b.where(bi), "the marker is the kernel's %r" % KERNEL_DELETED_MARKER,
                  "the marker stripped from mapped paths is %r, the kernel appends %r: names that only end in the shorter text are rewritten to their sibling's name and their lines merge" % (val, KERNEL_DELETED_MARKER))
        subj = strip(a[0])
        ctx.check(any(q == ("param", 1) for q in walk(subj)), R, "strips-the-name", b.where(bi), "the suffix is stripped from the mapped path itself", "strip_suffix is applied to %s" % show(subj)[:80])
    # aggregate() stores the sanitised name for file mappings
    ag = ctx.body(R, "linux::maps_reader::MappingInfo::aggregate")
    if ag is not None:
        n = len(list(ag.calls(lambda c: (c.short or "").endswith("maps_reader::sanitize_path"))))
        ctx.floor(R, "sanitize_path call in aggregate", n, 1)


# variants of procfs' MMapPath that carry data which is part of the name in the maps file
PAYLOAD_VARIANTS = {"Path": "the file path", "TStack": "[stack:<tid>]: the thread id", "Vsys": "/SYSV<key>: the shm key", "Other": "[<name>]: any other pseudo-path"}


def rule_name_conversion(ctx, R="C13/name-conversion"):
    """`same name` is decided on the name this crate derives from the parsed path kind, so that conversion must be injective:
    one arm per kind, pairwise different literal/format templates, and a kind's payload (tid, key, text, path) ends up in its name."""
    b = ctx.body(R, "MappingInfo::aggregate")
    if b is None:
        return
    o = Origin(b)
    sws = []
    for x in range(b.n):
        if b.blocks[x]["cleanup"] or b.term(x)["k"] != "switch":
            continue
        a, _ = switch_atom(b, o, x)
        if a[0] == "discr" and strip(a[1])[0] == "field" and strip(a[1])[2] == "pathname":
            sws.append(x)
    if len(sws) != 1:
        ctx.violated(R, ("anchor", "match on the path kind"), b.where(0), "anchor lost: expected one match on mm.pathname's kind in aggregate, found %d" % len(sws))
        return
    x = sws[0]
    arms = [(t, lab[1]) for (t, lab) in b.succ_edges(x) if lab[0] == "sw" and lab[1] != "otherwise" and b.term(t)["k"] != "unreachable"]
    other = [t for (t, lab) in b.succ_edges(x) if lab[0] == "sw" and lab[1] == "otherwise" and b.term(t)["k"] != "unreachable"]
    ctx.floor(R, "path kinds matched", len(arms) + len(other), 11)
    tg = [t for t, _ in arms] + other
    ctx.check(len(set(tg)) == len(tg) and len(other) <= 1, R, "one-arm-per-kind", b.where(x), "every path kind has its own arm (%d)" % len(tg),
              "two path kinds share one arm (%d kinds, %d arms): they are given the same name and their lines merge" % (len(tg), len(set(tg))))
    # the name that reaches the comparison: the argument of is_mapping_a_path right after the match
    use = [bi for bi, t in b.calls(lambda c: c.endswith("is_mapping_a_path"))]
    if not use:
        ctx.violated(R, ("anchor", "is_mapping_a_path"), b.where(x), "anchor lost: the derived name is not passed to is_mapping_a_path")
        return
    names = alts(o.call_args(use[0])[0])

    def unwrap(e):
        e = strip(e)
        while e[0] == "call" and e[1].split("::")[-1] in ("as_deref", "as_ref", "must_use", "into", "from") and e[2]:
            e = strip(e[2][0])
        return e
    sigs, nones, payload_of = [], 0, {}
    for e in names:
        e = unwrap(e)
        if e[0] == "agg" and e[2] == "None":
            nones += 1
            continue
        if not (e[0] == "agg" and e[2] == "Some"):
            ctx.unproven(R, ("name", "shape"), b.where(x), "derived name has an unrecognised form: %s" % show(e)[:100])
            continue
        v = unwrap(dict(e[3])["0"])
        used = {q[2] for q in walk(v) if q[0] == "variant"}
        lits = [q[1] for q in walk(v) if q[0] == "str"]
        if v[0] == "str":
            sig = ("lit", v[1])
        elif v[0] == "call" and v[1].split("::")[-1] == "format" and lits:
            sig = ("fmt", lits[0])
        elif v[0] == "call" and v[1].endswith("sanitize_path"):
            sig = ("path",)
        else:
            sig = ("?", show(v)[:60])
        sigs.append(sig)
        for u in used:
            payload_of.setdefault(u, []).append(sig)
    ctx.check(nones == 1, R, "anonymous-only-none", b.where(x), "exactly one kind (anonymous) has no name", "%d kinds are given no name" % nones)
    dup = sorted({repr(s_) for s_ in sigs if sigs.count(s_) > 1})
    ctx.check(not dup and len(sigs) + nones == len(tg), R, "names-distinct", b.where(x), "the %d named kinds get pairwise different literals/templates" % len(sigs),
              "path kinds do not get pairwise different names (%d kinds, %d names; repeated: %s)" % (len(tg), len(sigs) + nones, ", ".join(dup)[:120]))
    for var, why in sorted(PAYLOAD_VARIANTS.items()):
        got = payload_of.get(var, [])
        ctx.check(len(got) == 1 and got[0][0] in ("fmt", "path"), R, ("payload-in-name", var), b.where(x), "%s is part of the derived name" % why,
                  "the data of kind %s (%s) does not reach its derived name: different lines of that kind compare equal" % (var, why))


def rule_compare_as_stored(ctx, R="C13/compare-as-stored"):
    """`same name` compares a line's name with the name stored for an earlier line, so the line's name must be in the form in which
    it would itself be stored: the left operand of every name comparison in aggregate is the very value that `name:` of a newly
    pushed mapping receives (a transformation applied only on one side — e.g. stripping ' (deleted)' only when storing — makes equal
    names compare unequal)."""
    b = ctx.body(R, "MappingInfo::aggregate")
    if b is None:
        return
    o = Origin(b)
    eqs = [(bi, o.call_args(bi)) for bi, t in b.calls(lambda c: (c.short or "").split("::")[-1] in ("eq", "ne") and "OsStr" in (c.inst or ""))]
    stored = []
    for bi, blk in enumerate(b.blocks):
        for si, st in enumerate(blk["stmts"]):
            if st["k"] == "assign" and st["r"]["k"] == "agg" and norm(st["r"].get("adt") or "").endswith("maps_reader::MappingInfo"):
                e = o._rvalue(st["r"], (bi, si), 0)
                stored.append((bi, si, dict(e[3]).get("name")))
    ctx.floor(R, "name comparisons in aggregate", len(eqs), 2)
    ctx.floor(R, "MappingInfo constructions in aggregate", len(stored), 1)
    for k, (bi, a) in enumerate(eqs):
        sides = [nosite(strip(x)) for x in a[:2]]
        ok = any(nm is not None and nosite(strip(nm)) in sides for (_, _, nm) in stored)
        other = [x for x in a[:2] if not any(nm is not None and nosite(strip(nm)) == nosite(strip(x)) for (_, _, nm) in stored)]
        okp = len(other) == 1 and core(other[0])[0] == "field" and core(other[0])[2] == "name"
        ctx.check(ok and okp, R, ("comparison", k + 1), b.where(bi), "the line's name is compared, in the form in which it is stored, with the stored name of an earlier mapping",
                  "a name comparison does not compare the to-be-stored name with a stored name: %s vs %s" % (show(a[0])[:70], show(a[1])[:70]))


LIMITING = ("take", "take_while", "chain", "bytes", "skip", "lines", "split", "by_ref")


def rule_whole_map_read(ctx, R="C13/whole-map-read"):
    """`every line of the memory map`: the list is aggregated from ALL of /proc/<pid>/maps — the parser is handed the opened file
    itself (or a buffered reader of it), not a length-limited or filtered view (the file is sorted by address: a cut loses the
    libraries and every stack), and aggregate() receives exactly what the parser returned."""
    b = ctx.body(R, "linux::ptrace_dumper::PtraceDumper::enumerate_mappings")
    if b is None:
        return
    o = Origin(b)
    rd = [(bi, t) for bi, t in b.calls(lambda c: (c.short or "").split("::")[-1] in ("from_read", "from_buf_read", "from_file") and "MemoryMaps" in (c.inst or ""))]
    ctx.floor(R, "MemoryMaps parse in enumerate_mappings", len(rd), 1)
    for bi, t in rd:
        cvx = CalleeView(t["callee"])
        ctx.check((cvx.short or "").startswith("procfs_core::"), R, ("whole-file", "parser-is-procfs"), b.where(bi),
                  "the parse is procfs_core's own FromRead/FromBufRead function",
                  "the memory map is parsed through %s, a function that only carries the parser's name (a local trait or wrapper may cut or filter what "
                  "the real parser is given)" % cvx.short)
        a = strip(o.call_args(bi)[0])
        names = []
        cur = a
        while cur[0] == "call" and cur[2]:
            names.append(cur[1].split("::")[-1])
            cur = strip(cur[2][0])
        src_ok = any(q[0] == "str" and "/maps" in q[1] for q in walk(a)) and any(q[0] == "field" and q[2] == "pid" for q in walk(a))
        bad = [n for n in names if n in LIMITING]
        okn = all(n in ("map_err", "open", "new", "from", "into", "must_use", "format", "with_capacity") or n.startswith("new") for n in names)
        inst = (t["callee"].get("inst") or "")
        ctx.check(src_ok and not bad and okn and ("::<std::fs::File>" in inst or "BufReader<std::fs::File>" in inst or "from_file" in inst), R, "whole-file", b.where(bi),
                  "the parser reads /proc/<pid>/maps itself, whole", "the memory map is parsed from %s: %s" % (show(a)[:100], ("a limited view (%s)" % ", ".join(bad)) if bad else "not the opened maps file"))
    ag = [(bi, o.call_args(bi)) for bi, t in b.calls(lambda c: c.endswith("MappingInfo::aggregate"))]
    ctx.floor(R, "aggregate call in enumerate_mappings", len(ag), 1)
    for bi, a in ag:
        x = strip(a[0])
        while x[0] == "call" and x[1].split("::")[-1] in ("map_err",) and x[2]:
            x = strip(x[2][0])
        ctx.check(x[0] == "call" and x[1].split("::")[-1] in ("from_read", "from_buf_read", "from_file"), R, "aggregates-what-was-parsed", b.where(bi),
                  "aggregate() receives the parsed map as it is", "aggregate() receives %s" % show(x)[:100])


def run(ctx):
    rule_whole_map_read(ctx)
    rule_compare_as_stored(ctx)
    rule_name_conversion(ctx)
    from rules import c18
    c18.rule_auxv_pairs(ctx, R="C13/auxv-pairs")   # the vDSO address is the value of the AT_SYSINFO_EHDR pair
    from rules import preds
    preds.run(ctx, PROPERTY, ['is_executable', 'is_empty_page', 'is_mapping_a_path', 'auxv_is_complete'])   # the opaque predicates these rules lean on, against oracle tables
    rule_merges(ctx)
    rule_one_outcome(ctx)
    rule_gate_name(ctx)
    rule_deleted_suffix(ctx)
    # the vDSO address likewise (same rule instance as C18/auxv)
    from rules import c18 as _c18a
    _c18a.rule_auxv(ctx, R="C13/auxv")
    from rules import c04 as _c04mm
    _c04mm.rule_mapping_list_mutators(ctx)
    # the small accessors and pass-through wrappers the rules above look through by name return what their names say (rules/accessors.py)
    from rules import accessors as _acc
    _acc.rule_accessors(ctx, "C13")
