"""C20 — unreferenced-stack filtering keeps exactly the relevant stacks (structural clauses)."""
import itertools
from engine.mir import CalleeView, norm
from engine.origin import Origin, strip, core, show, root, walk, nosite, is_const, alts
from engine.paths import Exits, must_pass, conditions, switch_atom, witness_path
from engine import ipe

PROPERTY = "C20"
EXPLANATION = ("(range-siblings) the three membership tests against the principal mapping — crash-thread PC, per-thread IP, stack word — "
               "are comparison-only predicates; each is evaluated (E4) on the order types {x<lo, x=lo, lo<x<hi-1, x=hi-1, x=hi, x>hi} over "
               "several (lo,hi) configurations and must have the form x in [start,end) of system_mapping_info; (decision-shape) the early return "
               "that drops a stack is taken iff skip && (principal is None || (!ip_in && !stack_has_pointer)) — full truth table over the opaque "
               "atoms x order types; the word scan starts at align_up(sp_offset, 8) and steps 8; (record-kept) the thread record and context are "
               "written on every non-error path regardless of the early return; (soft-only) PrincipalMappingNotReferenced is pushed iff the "
               "crash-thread test is false and dump() continues to generate_dump.")
TRUSTED = ["byteorder read_u64 of an 8-byte slice"]
ASSUMPTIONS = ["what the stacks contain is runtime data; only the decision predicates are decided"]

MW = "linux::minidump_writer::MinidumpWriter"
FTS = "linux::sections::thread_list_stream::fill_thread_stack"
SHP = "linux::maps_reader::MappingInfo::stack_has_pointer_to_mapping"


def smi_field(e, which):
    """is e == <principal mapping>.system_mapping_info.<which> ?"""
    c = core(e)
    return c[0] == "field" and c[2] == which and strip(c[1])[0] == "field" and strip(c[1])[2] == "system_mapping_info"


def bounds_in(dnf):
    lo = hi = None
    for conj in dnf:
        for (a, v) in conj:
            for s in walk(a):
                if s[0] == "field" and s[2] == "start_address" and smi_field(s, "start_address"):
                    lo = s
                if s[0] == "field" and s[2] == "end_address" and smi_field(s, "end_address"):
                    hi = s
    return lo, hi


def cmp_atom(a):
    return ipe.is_cmp_atom(a)


def cmp_sides(a):
    """operands of a comparison atom (for Range::contains: the tested value and both bounds)"""
    if a[0] == "bin":
        return [a[2], a[3]]
    lo, hi, _ = ipe.range_of(a[2][0])
    return [a[2][1], lo, hi]


def membership_form(dnf, subject_pred):
    """returns (form string, table) for a DNF restricted to comparison atoms on the subject"""
    lo, hi = bounds_in(dnf)
    if lo is None or hi is None:
        return "bounds are not system_mapping_info.start_address/end_address", None
    subj = None
    for conj in dnf:
        for (a, v) in conj:
            if cmp_atom(a):
                for side in cmp_sides(a):
                    c = core(side)
                    if c not in (core(lo), core(hi)) and subject_pred(c):
                        subj = c
    if subj is None:
        return "no subject found", None
    # rewrite atoms over core() operands so that env lookups match
    def rw(a):
        if a[0] == "bin" and cmp_atom(a):
            return ("bin", a[1], core(a[2]), core(a[3]), a[4] if len(a) > 4 else "usize")
        return a
    d2 = [frozenset((rw(a), v) for (a, v) in conj) for conj in dnf]
    try:
        table = ipe.range_membership(d2, subj, core(lo), core(hi))
    except ipe.Unsupported as e:
        return "unsupported: %s" % e, None
    return ipe.form_of(table), table


def rule_range_siblings(ctx):
    R = "C20/range-siblings"
    n = 0
    # (a) crash thread PC
    b = ctx.body(R, MW + "::crash_thread_references_principal_mapping")
    if b is not None:
        o = Origin(b)
        # blocks assigning _0 = true
        trues = [(bi, si) for bi, blk in enumerate(b.blocks) for si, st in enumerate(blk["stmts"])
                 if st["k"] == "assign" and st["p"]["l"] == 0 and not st["p"]["proj"] and st["r"]["k"] == "use" and st["r"]["o"].get("v") == 1]
        # the PC test is the `return true` that is reached without calling get_stack_info
        gsi = [x for x, t in b.calls(lambda c: (c.short or "").endswith("get_stack_info"))]
        cand = [(bi, si) for (bi, si) in trues if not any(witness_path(b, g, {bi}) for g in gsi)]
        if len(cand) != 1:
            ctx.unproven(R, ("crash-pc", "site"), b.where(0), "cannot isolate the `pc inside mapping => true` return (%d candidates)" % len(cand))
        else:
            bi, si = cand[0]
            dnf = conditions(b, bi, origin=o, relevant=cmp_atom)
            form, table = membership_form(dnf or [], lambda c: any(s[0] == "call" and s[1].endswith("get_instruction_pointer") for s in walk(c)))
            n += 1
            ctx.check(form == "[lo,hi)", R, ("crash-pc", "form"), b.where(bi, si), "crash-thread PC test is pc in [start, end)", "crash-thread PC test has form %s (specification: [start,end))" % form, detail={"table": {k: sorted(v) for k, v in (table or {}).items()}})
    # (b) per-thread IP (decides `dropped`; inside = not dropped with has_pointer false)
    b = ctx.body(R, FTS)
    if b is not None:
        o = Origin(b)
        dnf = drop_condition(ctx, b, o)
        if dnf is None:
            ctx.unproven(R, ("thread-ip", "site"), b.where(0), "cannot compute the stack-drop condition")
        else:
            cmp_only = [frozenset((a, v) for (a, v) in c if cmp_atom(a)) for c in dnf if any(cmp_atom(a) for a, v in c)]
            form, table = membership_form(cmp_only, lambda c: c == ("param", 5))
            n += 1
            ctx.check(form == "not [lo,hi)", R, ("thread-ip", "form"), b.where(0), "a thread's IP counts as outside iff ip not in [start, end)",
                      "per-thread IP test treats ip as outside iff %s — the boundary ip == end is counted as inside, unlike the crash-thread test" % form.replace("not ", "ip not in "),
                      detail={"table": {k: sorted(v) for k, v in (table or {}).items()}})
    # (c) stack word
    b = ctx.body(R, SHP)
    if b is not None:
        o = Origin(b)
        trues = [(bi, si) for bi, blk in enumerate(b.blocks) for si, st in enumerate(blk["stmts"])
                 if st["k"] == "assign" and st["p"]["l"] == 0 and not st["p"]["proj"] and st["r"]["k"] == "use" and st["r"]["o"].get("v") == 1]
        if len(trues) != 1:
            ctx.unproven(R, ("stack-word", "site"), b.where(0), "expected one `return true` (found %d)" % len(trues))
        else:
            bi, si = trues[0]
            loops = b.loops()
            inner = [h for h, body in loops.items() if bi in body]
            # the `return true` leaves the loop; condition relative to loop header of the block's predecessor chain
            hdrs = list(loops)
            h = hdrs[0] if hdrs else 0
            dnf = conditions(b, bi, origin=o, entry=h, relevant=cmp_atom)
            # keep only atoms that involve the mapping bounds
            d2 = [frozenset((a, v) for (a, v) in c if any(smi_field(s, "start_address") or smi_field(s, "end_address") for s in walk(a) if s[0] == "field")) for c in (dnf or [])]
            form, table = membership_form(d2, lambda c: any(s[0] == "call" and ("read_u64" in s[1] or "read_u32" in s[1]) for s in walk(c)) or c[0] in ("okval", "phi", "call"))
            n += 1
            ctx.check(form == "[lo,hi)", R, ("stack-word", "form"), b.where(bi, si), "a stack word references the mapping iff word in [start, end)",
                      "stack-word test has form %s — the one-past-the-end address is counted as a reference, unlike the crash-thread test" % form, detail={"table": {k: sorted(v) for k, v in (table or {}).items()}})
    ctx.floor(R, "membership tests against the principal mapping", n, 3)


def drop_blocks(b):
    """success-return blocks of fill_thread_stack that are not reachable from the stack append (early returns)"""
    ex = Exits(b)
    wa = [x for x, t in b.calls(lambda c: c.is_("mem_writer::Buffer::write_all"))]
    gsi = [x for x, t in b.calls(lambda c: (c.short or "").endswith("copy_from_process"))]
    out = []
    for (bi, si) in ex.ok_defs:
        if any(witness_path(b, w, {bi}) for w in wa):
            continue
        # must come after the stack copy (otherwise it is the `no stack mapping` fallthrough)
        if gsi and not any(witness_path(b, g, {bi}) for g in gsi):
            continue
        out.append(bi)
    return out


def drop_condition(ctx, b, o):
    blocks = drop_blocks(b)
    if not blocks:
        return None
    # condition relative to the point right after the stack copy succeeded
    cp = [x for x, t in b.calls(lambda c: (c.short or "").endswith("copy_from_process"))]
    from rules.c09 import success_successor
    start = success_successor(b, cp[0]) if cp else 0
    if start is None:
        start = 0
    dnf = set()
    for blk in blocks:
        d = conditions(b, blk, origin=o, entry=start)
        if d is None:
            return None
        dnf |= d
    return dnf


def rule_decision_shape(ctx, R="C20/decision-shape"):
    b = ctx.body(R, FTS)
    if b is None:
        return
    o = Origin(b)
    dnf = drop_condition(ctx, b, o)
    if not dnf:
        ctx.violated(R, ("anchor", "early-return"), b.where(0), "anchor missing: early `return Ok(())` that drops a stack")
        return
    # classify atoms
    def kind(a):
        if cmp_atom(a):
            return "cmp"
        if a[0] == "field" and a[2] == "skip_stacks_if_mapping_unreferenced":
            return "skip"
        if a[0] == "discr" and strip(a[1])[0] == "field" and strip(a[1])[2] == "principal_mapping":
            return "principal"
        if a[0] == "call" and a[1].endswith("stack_has_pointer_to_mapping"):
            return "has_ptr"
        if a[0] == "field" and a[2] == "sanitize_stack":
            return "sanitize"
        return None
    atoms = {}
    for c in dnf:
        for (a, v) in c:
            atoms[a] = kind(a)
    unk = [show(a)[:80] for a, k in atoms.items() if k is None]
    if unk:
        ctx.unproven(R, "atoms", b.where(0), "unrecognised atoms in the drop condition: %s" % unk)
        return
    lo, hi = bounds_in(dnf)
    if lo is None or hi is None:
        ctx.unproven(R, "bounds", b.where(0), "bounds are not the principal mapping's system range")
        return
    rows = 0
    bad = []
    for (l, h) in [(1000, 2000), (0, 4096), (1 << 40, (1 << 40) + 8192)]:
        for x in [l - 1, l, l + 1, (l + h) // 2, h - 1, h + 1, 0, ipe.M64]:   # x == h is the sibling rule's business
            if x < 0 or x > ipe.M64:
                continue
            for skip, princ, hp in itertools.product((0, 1), repeat=3):
                opaque = {}
                for a, k in atoms.items():
                    if k == "skip":
                        opaque[a] = skip
                    elif k == "principal":
                        opaque[a] = princ
                    elif k == "has_ptr":
                        opaque[a] = hp
                env = {("param", 5): x, core(lo): l, core(hi): h}
                def rw(a):
                    if a[0] == "bin" and cmp_atom(a):
                        return ("bin", a[1], core(a[2]), core(a[3]), a[4] if len(a) > 4 else "usize")
                    return a
                ev = ipe.Eval(env, {rw(a): v for a, v in opaque.items()})
                try:
                    got = any(all(ev.lit(rw(a), v) for (a, v) in c) for c in dnf)
                except ipe.Unsupported as e:
                    ctx.unproven(R, "evaluate", b.where(0), "drop condition outside the fragment: %s" % e)
                    return
                inside = l <= x < h
                spec = bool(skip and (not princ or (not inside and not hp)))
                rows += 1
                if got != spec:
                    bad.append((x - l, h - l, skip, princ, hp, got))
    ctx.check(not bad, R, "truth-table", b.where(0), "a stack is dropped iff skip && (principal is None || (ip outside && no stack word references it)) — %d rows" % rows,
              "drop decision disagrees with the specification on %d/%d rows, e.g. (ip-lo=%s, size=%s, skip=%s, principal=%s, has_ptr=%s) -> dropped=%s" % ((len(bad), rows) + (bad[0] if bad else (0,) * 6)))
    # the stack scan: starts at align_up(sp_offset, 8), steps 8
    s = ctx.body(R, SHP)
    if s is not None:
        so = Origin(s)
        off = [i for i, l in enumerate(s.locals) if l.get("name") == "offset"]
        okstart = okstep = False
        if off:
            L = off[0]
            for (bi, si, kind_, st) in s.defs.get(L, ()):
                if kind_ != "assign":
                    continue
                e = so._rvalue(st["r"], (bi, si), 0)
                e = core(e)
                if e[0] == "bin" and e[1] == "BitAnd":
                    # (sp_offset + 8 - 1) & !(8-1)
                    ev = ipe.Eval({("param", 3): 13})
                    try:
                        okstart = ev.val(e)[0] == 16 and ipe.Eval({("param", 3): 16}).val(e)[0] == 16 and ipe.Eval({("param", 3): 0}).val(e)[0] == 0
                    except ipe.Unsupported:
                        okstart = False
                if e[0] == "bin" and e[1] == "Add" and is_const(core(e[3])) and core(e[3])[1] == 8:
                    okstep = True
        ctx.check(okstart, R, "scan-start", s.where(0), "the scan starts at align_up(sp_offset, 8)", "scan start is not align_up(sp_offset, 8)")
        ctx.check(okstep, R, "scan-step", s.where(0), "the scan advances by one pointer-sized word", "scan step is not 8")


def rule_record_kept(ctx):
    R = "C20/record-kept"
    b = ctx.body(R, "linux::sections::thread_list_stream::write")
    if b is None:
        return
    from rules import c01
    sets = [x for x, t in b.calls(lambda c: c.is_(c01.SET_AT))]
    fts = [x for x, t in b.calls(lambda c: c.is_(FTS))]
    ctx.floor(R, "fill_thread_stack calls", len(fts), 2)
    from rules.c09 import success_successor
    for i, f in enumerate(fts):
        ok_next = success_successor(b, f)
        if ok_next is None:
            ctx.unproven(R, ("after-fill", i), b.where(f), "cannot find the success edge of fill_thread_stack(..)?")
            continue
        ex = Exits(b)
        # from the success edge, every path back to the loop header passes a context alloc and the record write
        loops = b.loops()
        inner = [h for h, body in loops.items() if f in body]
        h = max(inner, key=lambda x: len(loops[x])) if inner else None
        ctxw = [x for x, t in b.calls(lambda c: c.is_("mem_writer::MemoryWriter::alloc_with_val")) if "CONTEXT" in (CalleeView(t["callee"]).inst or "")]
        w1 = must_pass(b, ok_next, {h}, set(sets)) if h is not None else [0]
        w2 = must_pass(b, ok_next, {h}, set(ctxw)) if h is not None else [0]
        ctx.check(w1 is None and w2 is None, R, ("after-fill", i), b.where(f), "whatever fill_thread_stack decided, the CPU context and the thread record are written",
                  "a thread record or context can be skipped after fill_thread_stack returned Ok")


def rule_stack_step_always(ctx, R="C20/stack-decided-by-fill"):
    """`included if and only if`: whether a thread's stack is in the dump is decided in one place, fill_thread_stack, from that thread's
    own instruction pointer and stack words.  In thread_list_stream::write every path of one iteration that reaches the record write has
    passed a call of fill_thread_stack: no flag, cache or thread id lets the writer leave a stack out on its own."""
    b = ctx.body(R, "linux::sections::thread_list_stream::write")
    if b is None:
        return
    from rules import c01
    sets = [x for x, t in b.calls(lambda c: c.is_(c01.SET_AT))]
    fts = [x for x, t in b.calls(lambda c: c.is_(FTS))]
    loops = b.loops()
    n = 0
    for s_ in sets:
        inner = [h for h, body in loops.items() if s_ in body]
        if not inner:
            continue
        n += 1
        h = max(inner, key=lambda x: len(loops[x]))
        w = must_pass(b, h, {s_}, set(fts))
        ctx.check(w is None, R, ("record", n), b.where(s_), "every thread record written went through fill_thread_stack in its iteration",
                  "a thread record can be written without fill_thread_stack having run for that thread: its stack is left out by a decision taken elsewhere (not from this thread's instruction pointer and stack words)", detail={"path": w})
    ctx.floor(R, "thread record writes in the thread loop", n, 1)


def rule_soft_only(ctx):
    R = "C20/soft-only"
    b = ctx.body(R, MW + "::dump")
    if b is None:
        return
    o = Origin(b)
    pushes = []
    for bi, t in b.calls(lambda c: (c.short or "").endswith("WriteErrorList::push") or (c.target or "").endswith("::push")):
        a = o.call_args(bi)
        if len(a) > 1 and strip(a[1])[0] == "agg" and strip(a[1])[2] == "PrincipalMappingNotReferenced":
            pushes.append(bi)
    ctx.floor(R, "push of PrincipalMappingNotReferenced", len(pushes), 1)
    for p in pushes:
        dnf = conditions(b, p, origin=o, relevant=lambda a: (a[0] == "call" and a[1].endswith("crash_thread_references_principal_mapping")) or (a[0] == "field" and a[2] == "skip_stacks_if_mapping_unreferenced"))
        ok = bool(dnf) and all({(("crash" if a[0] == "call" else "skip"), v) for (a, v) in c} == {("crash", 0), ("skip", 1)} for c in dnf)
        ctx.check(ok, R, "pushed-iff-unreferenced", b.where(p), "the soft error is recorded exactly when skipping is enabled and the crash thread does not reference the mapping",
                  "soft error condition is %s" % [[(show(a)[:50], v) for a, v in c] for c in (dnf or [])])
        gen = [x for x, t in b.calls(lambda c: c.is_(MW + "::generate_dump"))]
        w = must_pass(b, p, [i for i in range(b.n) if b.term(i)["k"] == "return"], set(gen)) if gen else [0]
        # error returns after the push may only come from generate_dump itself
        ctx.check(bool(gen) and witness_path(b, p, set(gen)) is not None, R, "continues", b.where(p), "after recording the soft error the dump continues to generate_dump", "the dump does not continue after the soft error")
    # principal_mapping resolved from the caller's address with the unbiased lookup
    stores = [(bi, si, st) for bi, blk in enumerate(b.blocks) for si, st in enumerate(blk["stmts"])
              if st["k"] == "assign" and st["p"]["proj"] and st["p"]["proj"][-1].get("n") == "principal_mapping"]
    for bi, si, st in stores:
        e = strip(o._rvalue(st["r"], (bi, si), 0))
        calls_ = [s for s in walk(e) if s[0] == "call" and s[1].endswith("find_mapping_no_bias")]
        ok = any(any(q[0] == "field" and q[2] == "principal_mapping_address" for q in walk(c[2][1])) for c in calls_)
        if e[0] == "agg" and e[2] == "None":
            continue
        ctx.check(ok, R, "principal-from-address", b.where(bi, si), "principal_mapping <- find_mapping_no_bias(principal_mapping_address)", "principal_mapping <- %s" % show(e)[:120])


def rule_offset_relative(ctx, rule="C20/offset-relative-to-copy"):
    """the stack-pointer offset handed to the stack scan / the sanitizer is sp - (address the bytes were copied from):
    the scan must start at the word the stack pointer designates inside THIS copy"""
    R = rule
    n = 0
    for fn in (FTS, MW + "::crash_thread_references_principal_mapping"):
        b = ctx.body(R, fn)
        if b is None:
            continue
        o = Origin(b)
        k = 0
        for x, t in b.calls(lambda c: c.is_(SHP) or (c.short or "").endswith("PtraceDumper::sanitize_stack_copy")):
            cv = CalleeView(t["callee"])
            a = o.call_args(x)
            if len(a) < (3 if cv.is_(SHP) else 4):
                n += 1
                k += 1
                ctx.violated(R, (fn.split("::")[-1], "%s#%d" % ((cv.short or "").split("::")[-1], k)), b.where(x),
                             "anchor lost: %s no longer takes (copy, stack-pointer offset): the scan cannot be tied to the word the stack pointer designates in the copy" % (cv.short or "").split("::")[-1])
                continue
            if cv.is_(SHP):
                bytes_e, off = a[1], a[2]
                sp_e = None
            else:
                bytes_e, sp_e, off = a[1], a[2], a[3]
            n += 1
            k += 1
            cps = [s_ for s_ in walk(bytes_e) if s_[0] == "call" and s_[1].endswith("copy_from_process")]
            offc = core(off)
            ok = False
            why = "offset is %s" % show(offc)[:120]
            if len(cps) == 1 and offc[0] == "call" and offc[1].split("::")[-1] in ("saturating_sub", "wrapping_sub", "checked_sub") and len(offc[2]) == 2:
                src = cps[0][2][1]
                ok = nosite(core(offc[2][1])) == nosite(core(src))
                if not ok:
                    why = "offset is relative to %s but the bytes were copied from %s" % (show(core(offc[2][1]))[:80], show(core(src))[:80])
                if ok and sp_e is not None:
                    ok = nosite(core(offc[2][0])) == nosite(core(sp_e))
            elif len(cps) == 1 and offc[0] == "bin" and offc[1] == "Sub":
                ok = nosite(core(offc[3])) == nosite(core(cps[0][2][1]))
            ctx.check(ok, R, (fn.split("::")[-1], "%s#%d" % ((cv.short or "").split("::")[-1], k)), b.where(x),
                      "the stack-pointer offset is sp - (source address of exactly the bytes being scanned)", "the stack-pointer offset does not refer to the copy being scanned: %s" % why)
    ctx.floor(R, "scans / sanitizer calls with a stack-pointer offset", n, 3)


def rule_scan_covers_words(ctx, R="C20/scan-covers-words"):
    """'a pointer-aligned word at or above its stack pointer': stack_has_pointer_to_mapping starts at sp_offset rounded UP to the word
    size and examines every word that fits, i.e. it goes on while offset + 8 <= len(stack_copy) (the last word included)"""
    from engine.paths import switch_atom
    b = ctx.body(R, SHP)
    if b is None:
        return
    o = Origin(b)
    loops = b.loops()
    if len(loops) != 1:
        ctx.unproven(R, "loop", b.where(0), "expected one scan loop (found %d)" % len(loops))
        return
    h, body = list(loops.items())[0]
    cand = []
    for x in sorted(body):
        if b.term(x)["k"] == "switch" and any(s_ not in body for s_ in b.succs(x, unwind=False)):
            a, _ = switch_atom(b, o, x)
            if a[0] == "bin" and any((q[0] == "len" or (q[0] == "call" and q[1].split("::")[-1] == "len")) for q in walk(a)):
                cand.append((x, a))
    if len(cand) != 1:
        ctx.unproven(R, "bound", b.where(h), "cannot isolate the loop bound (a comparison against stack_copy.len()): %d candidates" % len(cand))
        return
    x, atom = cand[0]

    def is_len(e):
        e = core(e)
        return (e[0] == "len" and root(strip(e[1])) == ("param", 2)) or (e[0] == "call" and e[1].split("::")[-1] == "len" and e[2] and root(strip(e[2][0])) == ("param", 2))

    def is_off(e):
        e = core(e)
        return e[0] in ("phi", "loop") and any(isinstance(q, tuple) and q and q[0] == "loop" for q in walk(e))
    bad = []
    try:
        for L in (8, 16, 24, 4096):
            for O in sorted({0, 8, 16, max(L - 16, 0), L - 8, L - 7, L}):
                def leaf(e, L=L, O=O):
                    if is_len(e):
                        return (L, "usize")
                    if is_off(e):
                        return (O, "usize")
                    return None
                ev = ipe.Eval({}, {}, leaf=leaf)
                v = ev.val(("bin", atom[1], core(atom[2]), core(atom[3]), "usize"))[0]
                stays = None
                for (tgt, lab) in b.succ_edges(x):
                    if lab[0] != "sw":
                        continue
                    if (lab[1] == v) or (lab[1] == "otherwise" and v not in [l2[1] for (_, l2) in b.succ_edges(x) if l2[0] == "sw" and l2[1] != "otherwise"]):
                        stays = tgt in body
                if stays is None:
                    raise ipe.Unsupported("switch targets")
                if stays != (O + 8 <= L):
                    bad.append("len=%d offset=%d -> %s" % (L, O, "examined" if stays else "not examined"))
    except ipe.Unsupported as e:
        ctx.unproven(R, "bound", b.where(x), "cannot evaluate the loop bound: %s" % e)
        return
    ctx.check(not bad, R, "bound", b.where(x), "the scan continues iff offset + 8 <= stack_copy.len(): every whole word up to the end of the copy is examined (28 points)",
              "the scan does not examine exactly the words that fit: %s" % "; ".join(bad[:4]))
    # initial offset: sp_offset rounded up to a multiple of the word size
    offs = [q for side in (core(atom[2]), core(atom[3])) for q in walk(side) if isinstance(q, tuple) and q and is_off(q)]
    init = None
    if offs:
        def leaves_(e):
            e = core(e)
            if e[0] == "phi":
                for y in e[1]:
                    yield from leaves_(y)
            elif not any(isinstance(q, tuple) and q and q[0] == "loop" for q in walk(e)):
                yield e
        cands = {nosite(z) for z in leaves_(offs[0])}
        if len(cands) == 1:
            init = list(cands)[0]
    if init is None:
        ctx.unproven(R, "start", b.where(h), "cannot isolate the initial offset of the scan")
        return
    badi = []
    try:
        for sp in (0, 1, 7, 8, 9, 15, 16, 4095):
            got = ipe.Eval({("param", 3): sp}).val(core(init))[0]
            if got != ((sp + 7) & ~7):
                badi.append("sp_offset=%d -> %d" % (sp, got))
    except ipe.Unsupported as e:
        ctx.unproven(R, "start", b.where(h), "cannot evaluate the initial offset: %s" % e)
        return
    ctx.check(not badi, R, "start", b.where(h), "the scan starts at sp_offset rounded up to the next word boundary", "the initial offset is not align_up(sp_offset, 8): %s" % badi[:3])


def rule_decide_on_raw_stack(ctx, R="C20/decide-on-raw-stack"):
    """the reference test looks at the words the TARGET had on its stack: in fill_thread_stack the scan for pointers into the principal
    mapping must not run on a copy that sanitize_stack_copy has already rewritten (it replaces every pointer into a non-executable
    mapping by the sentinel, so a data-only principal mapping would never be 'referenced')"""
    b = ctx.body(R, FTS)
    if b is None:
        return
    san = [bi for bi, t in b.calls(lambda c: (c.short or "").endswith("sanitize_stack_copy"))]
    shp = [bi for bi, t in b.calls(lambda c: (c.short or "").endswith("stack_has_pointer_to_mapping"))]
    ctx.floor(R, "stack_has_pointer_to_mapping call in fill_thread_stack", len(shp), 1)
    bad = [(s_, p_) for s_ in san for p_ in shp if witness_path(b, s_, {p_}) is not None]
    ctx.check(not bad, R, "scan-not-after-sanitise", b.where(shp[0]) if shp else None,
              "no path runs sanitize_stack_copy before the reference scan (the scan sees the target's own words)",
              "stack_has_pointer_to_mapping can run after sanitize_stack_copy on the same copy (%s): pointers into a non-executable principal mapping have been defaced by then and the stack is wrongly dropped"
              % [(b.where(s_), b.where(p_)) for s_, p_ in bad][:2])


def run(ctx):
    rule_scan_covers_words(ctx)
    rule_decide_on_raw_stack(ctx)
    # every membership test of C20 reads the principal mapping's system range: aggregation must extend that range whenever it merges a
    # named part into the module (same rule instances as C13/merge-guards, C13/hull)
    from rules import c13
    c13.rule_merges(ctx, P="C20/principal-range")
    # principal_mapping_address is resolved with find_mapping_no_bias: it has to be the order-independent scan (the mapping list is not address-sorted)
    from rules import c06
    c06.rule_find_mapping(ctx, R="C20/principal-lookup", fn="find_mapping_no_bias", system_range=True)
    # "a stack word holds an address inside the mapping": every word from the stack pointer up to the end of the stack mapping is in
    # the window both scanners get from get_stack_info (same rule instance as C06/page-start)
    c06.rule_page_start(ctx, R="C20/scan-window")
    rule_offset_relative(ctx)
    rule_range_siblings(ctx)
    rule_decision_shape(ctx)
    rule_record_kept(ctx)
    rule_stack_step_always(ctx)
    rule_soft_only(ctx)
    # the filter option and the principal address are what the caller configured, in every dump (same rule instance as C19/config-preserved)
    from rules import c19 as _c19
    _c19.rule_config_preserved(ctx, R="C20/options-kept", only=("skip_stacks_if_mapping_unreferenced", "principal_mapping_address", "crash_context"))
    # "at or above its stack pointer": the value both scanners start from is the thread's own rsp — the ptrace register for ordinary
    # threads, gregs[REG_RSP] of the supplied context for the crashing one — not an adjusted one (same rule instances as C04/regs-source, C05/greg-map)
    from rules import c04 as _c04, c05 as _c05
    _c04.rule_regs_source(ctx, R="C20/stack-pointer/thread")
    _c05.rule_greg_map(ctx, R="C20/stack-pointer/crash-context")
    # the scanned bytes are the thread's own stack words: the reader behind the stack copy (same rule instances as C17/args, C17/prefix-only)
    from rules import c17 as _c17s
    _c17s.rule_args(ctx, R="C20/reader-args")
    _c17s.rule_prefix_only(ctx, R="C20/reader-prefix-only")
    # shared infrastructure this property leans on (rules/families.py): each member is the same rule instance as in its home property
    from rules import families as _fam
    _fam.reader(ctx, "C20")
    _fam.mapping_list(ctx, "C20")
    _fam.thread_list(ctx, "C20")
    _fam.stack_lookup(ctx, "C20")
    # the stream reaches the caller's file where the directory says, wherever in the destination the dump starts (rules/families.py)
    from rules import families as _famd
    _famd.destination(ctx, "C20")
    # the stream this property talks about is all-or-nothing: generate_dump succeeds only if its writer returned Ok (rules/c01.py rule_hard_streams)
    from rules import c01 as _c01h
    _c01h.rule_hard_streams(ctx, R="C20/hard-streams", only=('thread_list_stream::write',))
    # which thread is "the blamed one" is decided by tid, per entry (same rule instance as C05/branch-select)
    from rules import c05 as _c05bs
    _c05bs.rule_branch_select(ctx, R="C20/crash-context-for-blamed-tid")
    # words are found relative to the copy: a shortened copy must start on a word boundary of the target's stack (same rule instance as
    # C06/who-is-shortened)
    from rules import c06 as _c06w
    _c06w.rule_who_is_shortened(ctx, R="C20/who-is-shortened")
    # "this is reported as a soft error": the report reaches the dump only if every error in the list can be serialised (same rule instances as
    # C11/serialisable, C11/serialisers-total)
    from rules import c11 as _c11s
    _c11s.rule_soft_errors_serialisable(ctx, R="C20/soft-error-serialisable")
