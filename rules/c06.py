"""C06 — captured stacks contain the live stack (structural clauses)."""
import itertools
from engine.mir import CalleeView, norm
from engine.origin import Origin, strip, core, show, root, walk, nosite, is_const, alts, field_of
from engine.paths import Exits, must_pass, conditions, switch_atom, witness_path
from engine import ipe

PROPERTY = "C06"
EXPLANATION = ("(start-depends-on-cap) in fill_thread_stack, if the length of the stack copy depends on the per-thread cap then its start address "
               "must depend on the cap too (data or control dependence on MIR): an uncapped capture has to start at the SP's page start, and a "
               "2 KiB window at that same start cannot contain every SP; (who-is-shortened) the cap handed to the crash-context thread is the "
               "constant MaxStackLen::None, other threads get a Len cap only under size_limit.is_some() && idx >= 20 (evaluated on order types "
               "of idx), the cap constant is 2048 and the estimate predicate is pos + n*8192 + 65536 > limit; (descriptor-agrees) the recorded "
               "stack range start has the same origin as the copy's source and its size is the length of the copied bytes; (page-start) "
               "get_stack_info rounds SP down to its page and walks at most the 1 MiB guard distance; (window-contains-sp) the offset K the capped "
               "copy adds to the page start satisfies K <= sp_offset < K + cap and K + cap <= region length, decided from enumerated forms "
               "(round-down of sp_offset to a multiple of the cap, region_len - cap, min of both, 0 under a path condition that implies "
               "sp_offset < cap — path conditions are evaluated on order types of (sp_offset, cap, region_len)); an uncapped copy is exactly "
               "the region get_stack_info returned; (find-mapping) the lookup get_stack_info relies on is the order-independent scan "
               "mappings.iter().find(p) with p(m) <=> start_address <= address < start_address + size (evaluated on boundary points) — the mapping "
               "list is not address-sorted because the entry-point mapping is swapped to the front.")
TRUSTED = ["kernel guard-gap semantics", "page_size from sysconf"]
ASSUMPTIONS = ["window-contains-sp relies on get_stack_info's contract start <= sp < start + length (C06/page-start decides the rounding and the extent, the mapping lookup itself is kernel data)",
               "a window offset written in a form outside the enumerated ones is reported as unproven, not silently accepted",
               "byte equality with target memory is what the kernel returns (see C17)"]

FTS = "linux::sections::thread_list_stream::fill_thread_stack"
TLW = "linux::sections::thread_list_stream::write"
CAP_PARAM = 7


def mentions(e, leaf):
    return any(s == leaf for s in walk(e))


def control_dep_on(b, o, operand, at, leaf):
    """does the value of `operand` (a MIR operand used at `at`) depend on `leaf` through control flow of its reaching definitions?"""
    if operand["k"] not in ("copy", "move"):
        return False
    seen = set()
    work = [(operand["p"]["l"], at)]
    while work:
        l, pt = work.pop()
        if (l, pt) in seen:
            continue
        seen.add((l, pt))
        defs = o._reaching(l, (), pt)
        if len(defs) > 1:
            for d in defs:
                if d[0] in ("full", "partial", "call", "callpartial"):
                    dnf = conditions(b, d[1], origin=o, relevant=lambda a: mentions(a, leaf))
                    if dnf and any(c for c in dnf):
                        return True
        for d in defs:
            if d[0] == "full":
                r = d[3]["r"]
                if r["k"] == "use" and r["o"]["k"] in ("copy", "move") and not r["o"]["p"]["proj"]:
                    work.append((r["o"]["p"]["l"], (d[1], d[2])))
    return False


def rule_start_depends_on_cap(ctx):
    R = "C06/start-depends-on-cap"
    b = ctx.body(R, FTS)
    if b is None:
        return
    o = Origin(b)
    cps = list(b.calls(lambda c: (c.short or "").endswith("copy_from_process")))
    ctx.floor(R, "stack copy in fill_thread_stack", len(cps), 1)
    cap = ("param", CAP_PARAM)
    for bi, t in cps:
        a = o.call_args(bi)
        len_dep = mentions(a[2], cap) or control_dep_on(b, o, t["args"][2], (bi, "term"), cap)
        src_dep = mentions(a[1], cap) or control_dep_on(b, o, t["args"][1], (bi, "term"), cap)
        if not len_dep:
            ctx.ok(R, "copy", b.where(bi), "the copied length does not depend on the cap (nothing is shortened here)", nontrivial=False)
            continue
        ctx.check(src_dep, R, "copy", b.where(bi),
                  "the capped copy's start address depends on the cap as well (the window is moved towards the stack pointer)",
                  "the stack copy is shortened to min(stack_len, cap) but still starts at the unmodified page start %s: for SP page offsets >= cap the captured window ends below the stack pointer" % show(a[1])[:100],
                  detail={"src": show(a[1])[:300], "len": show(a[2])[:300]})


def _last(name):
    from engine.names import stdseg
    return stdseg(name)


class _Window:
    """decides K <= X < K + W and K + W <= L for the offset K of a shortened window from enumerated forms
    (X = sp - page_start, W = window length, L = mapping bytes from page_start; contract X < L):
      rd(X, W) = X - X % W | (X / W) * W          gives K <= X < K + W
      L - W                                       gives X < K + W and K + W <= L
      min(A, B)                                   lower if either, upper if both, fits if either
      0                                           lower; upper iff the path condition implies X < W; fits iff it implies W <= L
      X                                           lower and upper
      a join of alternatives                      every alternative under the path condition of its defining block"""

    def __init__(self, b, o, X, W, L):
        self.b, self.o, self.X, self.W, self.L = b, o, X, W, L
        self.notes = []

    def var(self, e):
        e = nosite(core(e))
        if e in self.X:
            return "X"
        if e == self.W:
            return "W"
        if e == self.L:
            return "L"
        return None

    def relevant(self, a):
        if not (isinstance(a, tuple) and a and a[0] == "bin" and a[1] in ("Gt", "Ge", "Lt", "Le", "Eq", "Ne")):
            return False
        for side in (a[2], a[3]):
            if self.var(side) is None and not is_const(core(side)):
                return False
        return True

    def implied(self, blk, pred):
        """does every path condition of `blk` imply pred(x, w, l)?  decided on order types of (X, W, L) and the constants compared with"""
        if blk is None:
            return False, "no defining block"
        dnf = conditions(self.b, blk, origin=self.o, relevant=self.relevant)
        if dnf is None:
            return False, "path condition too large"
        consts = {0}
        for c in dnf:
            for (a, v) in c:
                for side in (a[2], a[3]):
                    cs = core(side)
                    if is_const(cs) and isinstance(cs[1], int):
                        consts.add(cs[1])
        vals = set()
        for c_ in consts:
            vals.update((max(0, c_ - 1), c_, c_ + 1))
        top = max(vals)
        vals.update((top + 1, top + 2, top + 3))
        vals = sorted(vals)
        for x, w, l in itertools.product(vals, repeat=3):
            if not (x < l):       # contract of get_stack_info: the stack pointer lies inside the returned region
                continue
            env = {"X": x, "W": w, "L": l}

            def leaf(e):
                k = self.var(e)
                return env[k] if k else None
            ev = ipe.Eval({}, {}, leaf=leaf)
            try:
                holds = any(all(ev.lit(("bin", a[1], core(a[2]), core(a[3]), "usize"), v) for (a, v) in c) for c in dnf)
            except ipe.Unsupported as e:
                return False, "unsupported atom: %s" % e
            if holds and not pred(x, w, l):
                return False, "sp_offset=%d window=%d region=%d" % (x, w, l)
        return True, None

    def facts(self, K, blk):
        """returns (lower, upper, fits); each True or a reason string.  K keeps its call-site identities (join lookup)."""
        K = core(K)
        if K[0] == "phi":
            sites = self.o.phi_sites.get(K)
            if not sites:
                r = "join of alternatives without recorded definition sites: %s" % show(K)[:80]
                return r, r, r
            res = [self.facts(alt, bl) for (bl, alt) in sorted(sites, key=lambda t: (t[0] is None, t[0] or 0))]
            out = []
            for i in range(3):
                bad = [r[i] for r in res if r[i] is not True]
                out.append(True if not bad else bad[0])
            return tuple(out)
        if self.var(K) == "X":
            return True, True, "offset = sp_offset alone does not bound the window by the region end"
        if is_const(K) and K[1] == 0:
            up, why = self.implied(blk, lambda x, w, l: x < w)
            ft, why2 = self.implied(blk, lambda x, w, l: w <= l)
            return (True,
                    True if up else "offset 0 is selected on a path where the stack pointer may lie at or above the end of the window (%s)" % why,
                    True if ft else "offset 0 is selected on a path where the window may be longer than the region (%s)" % why2)
        if K[0] == "bin" and K[1] == "Sub":
            a, c = core(K[2]), core(K[3])
            if self.var(a) == "X" and c[0] == "bin" and c[1] == "Rem" and self.var(c[2]) == "X" and self.var(c[3]) == "W":
                return True, True, "rounding down alone does not bound the window by the region end"
            if self.var(a) == "L" and self.var(c) == "W":
                return "region_len - window is not known to lie at or below the stack pointer", True, True
        if K[0] == "bin" and K[1] == "Mul":
            for q, m in ((K[2], K[3]), (K[3], K[2])):
                q, m = core(q), core(m)
                if q[0] == "bin" and q[1] == "Div" and self.var(q[2]) == "X" and self.var(q[3]) == "W" and self.var(m) == "W":
                    return True, True, "rounding down alone does not bound the window by the region end"
        if K[0] == "call" and _last(K[1]) == "min" and len(K[2]) == 2:
            fa, fb = self.facts(K[2][0], blk), self.facts(K[2][1], blk)
            lower = True if (fa[0] is True or fb[0] is True) else fa[0]
            upper = True if (fa[1] is True and fb[1] is True) else (fa[1] if fa[1] is not True else fb[1])
            fits = True if (fa[2] is True or fb[2] is True) else fa[2]
            return lower, upper, fits
        r = "window offset %s is not one of the forms known to keep the stack pointer inside the window" % show(nosite(K))[:120]
        return r, r, r


def rule_window_contains_sp(ctx):
    R = "C06/window-contains-sp"
    b = ctx.body(R, FTS)
    if b is None:
        return
    o = Origin(b)
    cps = list(b.calls(lambda c: (c.short or "").endswith("copy_from_process")))
    ctx.floor(R, "stack copy in fill_thread_stack", len(cps), 1)
    cap = ("param", CAP_PARAM)
    n = 0
    for bi, t in cps:
        a = o.call_args(bi)
        src, ln = a[1], a[2]
        gsi = [s for s in walk(src) if s[0] == "call" and s[1].split("::")[-1] == "get_stack_info"]
        if not gsi:
            ctx.unproven(R, "copy", b.where(bi), "the copy source is not derived from get_stack_info: %s" % show(src)[:120])
            continue
        g = nosite(gsi[0])
        P = ("field", ("okval", g), "0")
        L = ("field", ("okval", g), "1")
        fields = {nosite(s) for s in walk(src) if s[0] == "field" and s[2] in ("0", "1") and nosite(core(s[1])) == g} | \
                 {nosite(s) for s in walk(ln) if s[0] == "field" and s[2] in ("0", "1") and nosite(core(s[1])) == g}
        P = next((f for f in fields if f[2] == "0"), P)
        L = next((f for f in fields if f[2] == "1"), L)
        S = ("param", 6)

        def site_alts(e):
            e_ = strip(e)
            if e_[0] == "phi" and o.phi_sites.get(e_):
                return sorted(o.phi_sites[e_], key=lambda t_: (t_[0] is None, t_[0] or 0))
            return [(None, e_)]
        sa, la = site_alts(src), site_alts(ln)
        if {x[0] for x in sa} == {x[0] for x in la} and len(sa) == len(la):
            pairs = [(bl, s_, dict(la)[bl]) for (bl, s_) in sa]
        else:
            pairs = [(bl, s_, l_) for (bl, s_) in sa for (_, l_) in la]
        for (bl, s_, l_) in pairs:
            s_n, l_n = nosite(core(s_)), nosite(core(l_))
            if not mentions(l_n, cap):
                ok = s_n == P and l_n == L
                ctx.check(ok, R, ("uncapped", n), b.where(bl if bl is not None else bi),
                          "without a cap the copy is the whole region returned by get_stack_info (page start of SP up to the end of the mapping)",
                          "an uncapped copy is not the region returned by get_stack_info: start %s, length %s" % (show(s_n)[:80], show(l_n)[:80]))
                n += 1
                continue
            X = {("call", nm, (S, P)) for nm in {x[1] for x in walk(src) if x[0] == "call" and _last(x[1]) in ("saturating_sub", "wrapping_sub")}} | {("bin", "Sub", S, P)}
            X = {nosite(x) for x in X}
            w = _Window(b, o, X, l_n, L)
            raw = core(s_)
            K = None
            if s_n == P:
                K = ("const", 0, "usize")
            elif raw[0] == "bin" and raw[1] == "Add":
                if nosite(core(raw[2])) == P:
                    K = core(raw[3])
                elif nosite(core(raw[3])) == P:
                    K = core(raw[2])
            if K is None:
                ctx.unproven(R, ("capped", n), b.where(bl if bl is not None else bi), "the capped copy's start is not page_start + offset: %s" % show(s_n)[:120])
                n += 1
                continue
            lower, upper, fits = w.facts(K, bl if bl is not None else bi)
            where = b.where(bl if bl is not None else bi)
            for nm, f, good in (("start<=sp", lower, "the shortened window starts at or below the stack pointer"),
                                ("sp<end", upper, "the shortened window ends above the stack pointer"),
                                ("inside-region", fits, "the shortened window stays inside the region returned by get_stack_info (so the read cannot run off the mapping)")):
                if f is True:
                    ctx.ok(R, ("capped", n, nm), where, good)
                elif "is selected on a path" in f:
                    ctx.violated(R, ("capped", n, nm), where, "the shortened stack window can miss the stack pointer: %s" % f, detail={"offset": show(K)[:300]})
                else:
                    ctx.unproven(R, ("capped", n, nm), where, f, detail={"offset": show(K)[:300]})
            n += 1
    ctx.floor(R, "copy alternatives decided", n, 2)


def closure_truth_table(cb, classify, points):
    """truth of a bool-returning closure at the given points: OR over the assignments of the return place of
    (path condition of the assigning block) AND (assigned value).  classify(expr) -> variable name or None."""
    co = Origin(cb)
    defs = []
    for bi, blk in enumerate(cb.blocks):
        if blk["cleanup"]:
            continue
        for si, st in enumerate(blk["stmts"]):
            if st["k"] == "assign" and st["p"]["l"] == 0 and not st["p"]["proj"]:
                val = co._rvalue(st["r"], (bi, si), 0)
                dnf = conditions(cb, bi, origin=co, relevant=lambda a: ipe.is_cmp_atom(a))
                if dnf is None:
                    raise ipe.Unsupported("path condition too large")
                defs.append((dnf, val))
        t = blk["term"]
        if t["k"] == "call" and t.get("dest") and t["dest"]["l"] == 0 and not t["dest"]["proj"]:
            dnf = conditions(cb, bi, origin=co, relevant=lambda a: ipe.is_cmp_atom(a))
            if dnf is None:
                raise ipe.Unsupported("path condition too large")
            defs.append((dnf, co.call_expr(bi)))
    if not defs:
        raise ipe.Unsupported("no assignment of the closure result")
    out = []
    for env in points:
        def leaf(e, env=env):
            k = classify(e)
            return env[k] if k else None
        ev = ipe.Eval({}, {}, leaf=leaf)

        def rw(a):
            return ("bin", a[1], core(a[2]), core(a[3]), "usize") if a[0] == "bin" else a
        t = False
        for dnf, val in defs:
            if any(all(ev.lit(rw(a), v) for (a, v) in c) for c in dnf) and ev.val(core(val))[0] == 1:
                t = True
        out.append(t)
    return out


def rule_find_mapping(ctx, R="C06/find-mapping", fn="find_mapping", system_range=False):
    """get_stack_info looks mappings up with PtraceDumper::find_mapping (sanitisation and the principal-mapping lookup use
    find_mapping_no_bias).  The mapping list is NOT address-sorted (enumerate_mappings swaps the entry-point mapping to the front,
    C08/entry-first), so the lookup has to be the order-independent scan `mappings.iter().find(|m| start <= a < end)`."""
    b = ctx.body(R, "linux::ptrace_dumper::PtraceDumper::" + fn)
    if b is None:
        return
    o = Origin(b)
    finds = [bi for bi, t in b.calls(lambda c: (c.short or "").split("::")[-1] == "find" and "Iterator" in (c.short or ""))]
    if len(finds) != 1:
        others = sorted({(CalleeView(t["callee"]).short or "?").split("::")[-1] for _, t in b.calls()})
        ctx.unproven(R, "scan", b.where(0), fn + " is not a linear scan with Iterator::find (calls: %s); PtraceDumper::mappings is not sorted by address "
                     "(the entry-point mapping is swapped to the front), so an order-dependent lookup can miss the mapping that holds the stack pointer" % ", ".join(others))
        return
    a = o.call_args(finds[0])
    recv = strip(a[0])
    okr = recv[0] == "call" and recv[1].split("::")[-1] == "iter" and strip(recv[2][0]) == ("field", ("param", 1), "mappings")
    ctx.check(okr, R, "scan-over-mappings", b.where(finds[0]), "the scan ranges over every element of self.mappings", "the scan ranges over %s" % show(recv)[:120])
    from engine.summ import return_origins
    rets = [nosite(strip(x)) for x in (return_origins(ctx.prog, b.short) or [])]
    ctx.check(all(x == nosite(strip(o.call_expr(finds[0]))) for x in rets) and bool(rets), R, "returns-found", b.where(finds[0]), fn + " returns what the scan found",
              fn + " returns %s" % [show(x)[:80] for x in rets])
    cl = strip(a[1])
    if cl[0] != "closure":
        ctx.unproven(R, "predicate", b.where(finds[0]), "the scan predicate is not a closure literal")
        return
    cb = ctx.prog.by_short[cl[1]][0]

    def classify(e):
        e = core(e)
        in_sys = e[0] == "field" and strip(e[1])[0] == "field" and strip(e[1])[2] == "system_mapping_info"
        if e[0] == "field" and e[2] == "start_address" and in_sys == system_range:
            return "S"
        if e[0] == "field" and e[2] == "size" and not system_range:
            return "Z"
        if e[0] == "field" and e[2] == "end_address" and system_range and in_sys:
            return "E"
        x = e
        while isinstance(x, tuple) and x and x[0] in ("field", "proj", "deref", "upvar") and isinstance(x[1], tuple):
            x = x[1]
        if e[0] in ("field", "upvar", "proj", "deref") and x == ("param", 1):
            return "A"   # a captured variable of the closure (the address looked up)
        return None
    pts = []
    for S in (0, 0x1000, 0x7fff0000):
        for Z in (1, 0x1000):
            for A in {0, S - 1, S, S + 1, S + Z - 1, S + Z, S + Z + 1, ipe.M64}:
                if 0 <= A <= ipe.M64:
                    pts.append({"S": S, "Z": Z, "A": A, "E": S + Z})
    try:
        tt = closure_truth_table(cb, classify, pts)
    except ipe.Unsupported as e:
        ctx.unproven(R, "predicate", cb.where(0), "cannot evaluate the scan predicate: %s" % e)
        return
    bad = [p_ for p_, t in zip(pts, tt) if t != (p_["S"] <= p_["A"] < p_["S"] + p_["Z"])]
    what = "system_mapping_info.start_address <= address < system_mapping_info.end_address" if system_range else "start_address <= address < start_address + size"
    ctx.check(not bad, R, "predicate", cb.where(0), "an element is selected iff %s (evaluated on %d boundary points)" % (what, len(pts)),
              "the scan predicate is not %s, e.g. at start=%#x size=%#x address=%#x" % ((what,) + ((bad[0]["S"], bad[0]["Z"], bad[0]["A"]) if bad else (0, 0, 0))))


def _subst_params(e, args):
    if isinstance(e, tuple):
        if len(e) == 2 and e[0] == "param" and isinstance(e[1], int):
            return args[e[1] - 1] if 0 < e[1] <= len(args) else e
        return tuple(_subst_params(x, args) for x in e)
    return e


def bool_fn_truth(prog, body, leaf, depth=0):
    """truth of a bool-returning function/closure under `leaf` (expr -> int/bool or None): OR over the definitions of the return
    place (assignments and call destinations) of (path condition of the defining block) AND (defined value)"""
    co = Origin(body)
    rel = lambda a: True

    def defs_of(l):
        out_ = []
        for bi, blk in enumerate(body.blocks):
            if blk["cleanup"]:
                continue
            for si, st in enumerate(blk["stmts"]):
                if st["k"] == "assign" and st["p"]["l"] == l and not st["p"]["proj"]:
                    out_.append((bi, si, st["r"]))
            t = blk["term"]
            if t["k"] == "call" and t.get("dest") and t["dest"]["l"] == l and not t["dest"]["proj"]:
                out_.append((bi, "term", None))
        return out_
    defs = defs_of(0)
    if not defs:
        raise ipe.Unsupported("no definition of the result")

    def full_leaf(e):
        r = leaf(e)
        if r is not None:
            return (int(r), "bool") if isinstance(r, bool) else r
        e_ = core(e)
        if e_[0] == "call" and e_[1].split("::")[-1] == "is_some_and" and len(e_[2]) == 2 and depth < 3:
            cl = strip(e_[2][1])
            opt = full_leaf(("call", "std::option::Option::is_some", (e_[2][0],), None))
            if cl[0] == "closure" and opt is not None and prog.by_short.get(cl[1]):
                inner = bool_fn_truth(prog, prog.by_short[cl[1]][0], leaf, depth + 1)
                return (int(bool(opt[0]) and inner), "bool")
        # `(a..b).contains(&x)` / `(a..=b).contains(&x)`
        if e_[0] == "call" and e_[1].split("::")[-1] == "contains" and "ops::Range" in e_[1] and len(e_[2]) == 2:
            rg = strip(e_[2][0])
            if rg[0] == "agg" and rg[2] in ("Range", "RangeInclusive"):
                fs = dict(rg[3])
                lo, hi, x = ev.val(core(fs["start"]))[0], ev.val(core(fs["end"]))[0], ev.val(core(e_[2][1]))[0]
                return (int(lo <= x < hi if rg[2] == "Range" else lo <= x <= hi), "bool")
        # a small local getter (`fn end_address(&self) -> usize { self.start_address + self.size }`): its one return expression with
        # the arguments substituted
        if e_[0] == "call" and e_[1] in prog.by_short and depth < 3:
            from engine.summ import return_origins
            ro = return_origins(prog, e_[1]) or []
            if len(ro) == 1 and prog.by_short[e_[1]][0].locals[0]["ty"] != "bool":
                return ev.val(core(_subst_params(ro[0], e_[2])))
        return None
    ev = ipe.Eval({}, {}, leaf=full_leaf)

    def bool_local(op):
        return op.get("k") in ("copy", "move") and not op["p"]["proj"] and body.locals[op["p"]["l"]]["ty"] == "bool" and op["p"]["l"] > body.j.get("argc", 0)

    def truth_of_local(l, fuel=8):
        """OR over the definitions of local l of (path condition of the defining block) AND (defined value); a bool temporary that is
        itself the join of `a && b` / `!x` arms is evaluated definition by definition, not as a path-insensitive phi"""
        if fuel == 0:
            raise ipe.Unsupported("boolean temporaries nest too deep")
        res = False
        for bi, si, r in defs_of(l):
            dnf = conditions(body, bi, origin=co, relevant=rel)
            if dnf is None:
                raise ipe.Unsupported("path condition too large")
            if not any(all(ev.lit(a, v) for (a, v) in c) for c in dnf):
                continue
            if r is None:
                v = ev.val(core(co.call_expr(bi)))[0] == 1
            elif r["k"] == "use" and bool_local(r["o"]):
                v = truth_of_local(r["o"]["p"]["l"], fuel - 1)
            elif r["k"] == "unop" and r.get("op") == "Not" and bool_local(r.get("o", r.get("a", {}))):
                v = not truth_of_local(r.get("o", r.get("a"))["p"]["l"], fuel - 1)
            else:
                v = ev.val(core(co._rvalue(r, (bi, si), 0)))[0] == 1
            res = res or bool(v)
        return res
    return truth_of_local(0)


PERM_BITS = {1: "R", 2: "W", 4: "X"}   # procfs MMPermissions (bitflags): READ, WRITE, EXECUTE


def rule_plausible_stack(ctx, R="C06/plausible-stack"):
    """get_stack_info accepts a mapping as (part of) a stack through may_be_stack: readable OR writable, as Breakpad does —
    a read-only mapping that holds the stack pointer is 'readable memory' in the sense of the property"""
    b = ctx.body(R, "linux::ptrace_dumper::PtraceDumper::may_be_stack")
    if b is None:
        return
    bad = []
    try:
        for some, r, w, x in itertools.product((0, 1), repeat=4):
            env = {"R": r, "W": w, "X": x}

            def mask(e):
                e = core(e)
                if is_const(e) and isinstance(e[1], int):
                    return e[1]
                if e[0] == "call" and e[1].split("::")[-1] in ("bitor", "union") and len(e[2]) == 2:
                    a_, b_ = mask(e[2][0]), mask(e[2][1])
                    return None if a_ is None or b_ is None else a_ | b_
                return None

            def leaf(e, some=some, env=env):
                e = core(e)
                bits = sum(k for k, n in PERM_BITS.items() if env[n])
                if e[0] == "discr":
                    return (some, "isize")
                if e[0] == "call":
                    ls = e[1].split("::")[-1]
                    if ls == "is_some":
                        return bool(some)
                    if ls == "is_none":
                        return not some
                    if ls in ("is_readable", "is_writable", "is_executable"):
                        return bool(env[{"is_readable": "R", "is_writable": "W", "is_executable": "X"}[ls]])
                    if ls in ("intersects", "contains") and len(e[2]) == 2:
                        m_ = mask(e[2][1])
                        if m_ is None:
                            raise ipe.Unsupported("permission mask %s" % show(e[2][1])[:60])
                        return bool(bits & m_) if ls == "intersects" else (bits & m_) == m_
                return None
            got = bool_fn_truth(ctx.prog, b, leaf)
            if got != bool(some and (r or w)):
                bad.append("mapping %s, %s%s%s -> %s" % ("present" if some else "absent", "r" if r else "-", "w" if w else "-", "x" if x else "-", got))
    except ipe.Unsupported as e:
        ctx.unproven(R, "predicate", b.where(0), "cannot evaluate may_be_stack: %s" % e)
        return
    ctx.check(not bad, R, "predicate", b.where(0), "a mapping is a plausible stack iff it exists and is readable or writable (16-row truth table)",
              "may_be_stack is not `exists and (readable or writable)`: %s" % "; ".join(bad[:4]))
    # and get_stack_info consults it
    g = ctx.body(R, "linux::ptrace_dumper::PtraceDumper::get_stack_info")
    if g is not None:
        uses = list(g.calls(lambda c: (c.short or "").endswith("PtraceDumper::may_be_stack")))
        ctx.floor(R, "may_be_stack calls in get_stack_info", len(uses), 1)


def rule_who_is_shortened(ctx, R="C06/who-is-shortened"):
    b = ctx.body(R, TLW)
    if b is None:
        return
    o = Origin(b)
    calls = list(b.calls(lambda c: c.is_(FTS)))
    ctx.floor(R, "fill_thread_stack calls", len(calls), 2)
    n_crash = n_other = 0
    for bi, t in calls:
        a = o.call_args(bi)
        sp = strip(a[5])
        capv = a[6]
        is_crash = any(s[0] == "call" and "crash_context" in s[1] and s[1].endswith("get_stack_pointer") for s in walk(sp))
        if is_crash:
            n_crash += 1
            al = alts(capv)
            ok = all(x[0] == "agg" and x[1].endswith("MaxStackLen") and x[2] == "None" for x in al)
            ctx.check(ok, R, "crash-thread-never-capped", b.where(bi), "the crash-context thread is captured with MaxStackLen::None", "the crash-context thread may be capped: %s" % show(capv)[:120])
            continue
        n_other += 1
        # alternatives: Len(c) / None ; Len must be 2048 and selected only under limit.is_some() && idx >= 20 && estimate > limit
        lens = [x for x in alts(capv) if x[0] == "agg" and x[2] == "Len"]
        ctx.check(bool(lens) and all(core(dict(x[3])["0"]) == ("const", 2048, "usize") for x in lens), R, "cap-constant", b.where(bi), "the extra-thread cap is 2048 bytes", "cap value(s): %s" % [show(x) for x in lens])
        # the shortened copy starts a whole number of caps above the page base: only a cap that is a multiple of the word size keeps the copy
        # word-aligned with the target's stack (the sanitiser and the pointer scan find words relative to the copy)
        vals = [core(dict(x[3])["0"]) for x in lens]
        ctx.check(bool(vals) and all(is_const(v) and isinstance(v[1], int) and v[1] > 0 and v[1] % 8 == 0 for v in vals), R, "cap-word-multiple", b.where(bi),
                  "the cap is a multiple of the 8-byte word", "the cap %s is not a multiple of 8: a shortened stack copy starts in the middle of a word, and every word the sanitiser or the reference scan looks at straddles two real stack slots" % [show(v) for v in vals])
        # selection predicate: find the operand local of arg 7 and the condition under which it is assigned from extra_thread_stack_len
        op = t["args"][6]
        defs = o._reaching(op["p"]["l"], (), (bi, "term")) if op["k"] in ("copy", "move") else []
        hops = 0
        while len(defs) == 1 and defs[0][0] == "full" and hops < 6:
            r0 = defs[0][3]["r"]
            if r0["k"] == "use" and r0["o"]["k"] in ("copy", "move") and not r0["o"]["p"]["proj"]:
                defs = o._reaching(r0["o"]["p"]["l"], (), (defs[0][1], defs[0][2]))
                hops += 1
            else:
                break
        sel = []
        for d in defs:
            if d[0] != "full":
                continue
            v = o._rvalue(d[3]["r"], (d[1], d[2]), 0)
            if any(x[0] == "agg" and x[2] == "Len" for x in alts(v)):
                sel.append(d)
        if len(sel) != 1:
            ctx.unproven(R, "selection", b.where(bi), "cannot isolate the assignment that selects the capped length (%d candidates)" % len(sel))
        else:
            d = sel[0]
            loops = b.loops()
            inner = [h for h, body in loops.items() if d[1] in body]
            h = max(inner, key=lambda x: len(loops[x])) if inner else 0
            dnf = conditions(b, d[1], origin=o, entry=h, relevant=lambda a_: (a_[0] == "call" and a_[1].endswith("Option::is_some")) or (a_[0] == "call" and a_[1] in ctx.prog.by_short and len(a_[2]) == 1) or (a_[0] == "bin" and a_[1] in ("Ge", "Gt", "Lt", "Le") and any(s[0] == "field" and s[2] == "0" for s in walk(a_))))
            # evaluate over idx
            idx_leaf = None
            for c in dnf or []:
                for (a_, v) in c:
                    if a_[0] == "bin":
                        for side in (a_[2], a_[3]):
                            if not is_const(core(side)):
                                idx_leaf = core(side)
                    elif a_[0] == "call" and a_[1] in ctx.prog.by_short and not is_const(core(a_[2][0])):
                        idx_leaf = core(a_[2][0])      # a one-argument bool helper of the crate (`is_extra_thread(idx)`): evaluated through its body
            good = dnf is not None and idx_leaf is not None
            if good:
                for i in (0, 1, 19, 20, 21, 64, 1 << 20):
                    for some in (0, 1):
                        opaque = {a_: some for c in dnf for (a_, v) in c if a_[0] == "call" and a_[1] not in ctx.prog.by_short}
                        try:
                            for c in dnf:
                                for (a_, v) in c:
                                    if a_[0] == "call" and a_[1] in ctx.prog.by_short:
                                        opaque[a_] = int(bool_fn_truth(ctx.prog, ctx.prog.by_short[a_[1]][0], lambda e_, i=i: (i, "usize") if core(e_) == ("param", 1) else None))
                        except ipe.Unsupported:
                            good = False
                            break
                        def rw(a_):
                            return ("bin", a_[1], core(a_[2]), core(a_[3]), "usize") if a_[0] == "bin" else a_
                        ev = ipe.Eval({idx_leaf: i}, opaque)
                        got = any(all(ev.lit(rw(a_), v) for (a_, v) in c) for c in dnf)
                        if got != bool(some and i >= 20):
                            good = False
            some_atoms = [a_ for c in (dnf or []) for (a_, v) in c if a_[0] == "call" and any(s[0] == "field" and s[2] == "minidump_size_limit" for s in walk(a_))]
            ctx.check(good and bool(some_atoms), R, "selection", b.where(d[1], d[2]), "a capped length is selected only for size_limit.is_some() && idx >= 20 (idx = list position)",
                      "cap selection predicate is %s" % [[(show(a_)[:60], v) for a_, v in c] for c in (dnf or [])])
    ctx.floor(R, "crash-context capture", n_crash, 1)
    ctx.floor(R, "live-thread capture", n_other, 1)
    # the estimate: extra_thread_stack_len = Len(..) iff pos + n*8192 + 65536 > limit (and limit is Some)
    locs = [i for i, l in enumerate(b.locals) if l.get("name") == "extra_thread_stack_len"]
    if len(locs) == 1:
        L = locs[0]
        for (bi, si, kind, st) in b.defs.get(L, ()):
            if kind != "assign":
                continue
            v = strip(o._rvalue(st["r"], (bi, si), 0))
            if v[0] == "agg" and v[2] == "Len":
                dnf = conditions(b, bi, origin=o, relevant=lambda a_: a_[0] == "bin" and a_[1] in ("Gt", "Ge", "Lt", "Le"))
                ok = False
                if dnf and len(dnf) == 1:
                    lits = list(list(dnf)[0])
                    if len(lits) == 1:
                        a_, val = lits[0]
                        lhs, rhs = core(a_[2]), core(a_[3])
                        # evaluate lhs as a function of (pos, n): pos + n*8192 + 65536
                        leafs = [s for s in walk(lhs) if s[0] == "call" and (s[1].endswith("Buffer::position") or s[1].split("::")[-1] == "len")]
                        pos = [s for s in leafs if s[1].endswith("Buffer::position")]
                        nn = [s for s in leafs if s[1].split("::")[-1] == "len"]
                        if len(pos) >= 1 and len(nn) >= 1:
                            try:
                                v1 = ipe.Eval({pos[0]: (1000, "u64"), nn[0]: (3, "usize")}).val(lhs)[0]
                                v2 = ipe.Eval({pos[0]: (0, "u64"), nn[0]: (64, "usize")}).val(lhs)[0]
                                ok = v1 == 1000 + 3 * 8192 + 65536 and v2 == 64 * 8192 + 65536 and a_[1] == "Gt" and val == 1 and any(s[0] == "field" and s[2] == "minidump_size_limit" for s in walk(rhs))
                            except ipe.Unsupported:
                                ok = False
                ctx.check(ok, R, "estimate", b.where(bi, si), "the cap is armed iff position + threads*8192 + 65536 > size limit", "estimate predicate is %s" % [[(show(a_)[:160], v_) for a_, v_ in c] for c in (dnf or [])])
                # ... with the position the image has WHEN the estimate is made: a `position()` cached in a local above the thread-list
                # header and array allocations is short by what they appended, and limits just below the threshold no longer arm the cap
                if ok and len(pos[0]) > 3 and pos[0][3]:
                    from rules import c01 as _c01p
                    ps = pos[0][3][1]
                    between = (b.reachable_from(ps, unwind=False) & _c01p.can_reach(b, bi)) - {ps, bi}
                    grow = sorted(b.where(x) for x in between if b.term(x)["k"] == "call" and _c01p.buffer_mut_arg(b.term(x)))
                    ctx.check(not grow, R, ("estimate", "position-is-current"), b.where(bi, si), "nothing is appended to the image between the read of position() and the estimate",
                              "the estimate uses a position() read before call(s) that grow the image (%s): it is too small by what they append" % ", ".join(grow[:4]))
    else:
        ctx.unproven(R, "estimate", b.where(0), "extra_thread_stack_len local not found")


def rule_descriptor_agrees(ctx, R="C06/descriptor-agrees"):
    b = ctx.body(R, FTS)
    if b is None:
        return
    o = Origin(b)
    cps = list(b.calls(lambda c: (c.short or "").endswith("copy_from_process")))
    pushes = list(b.calls(lambda c: c.short == "std::vec::Vec::push"))
    ctx.floor(R, "memory_blocks.push(thread.stack)", len(pushes), 1)
    for pb, t in pushes:
        a = o.call_args(pb)
        desc = a[1]
        start = field_of(desc, "start_of_memory_range")
        mem = field_of(desc, "memory")
        src = o.call_args(cps[0][0])[1] if cps else None
        oks = start is not None and src is not None and nosite(core(start)) == nosite(core(src))
        ctx.check(oks, R, "start=copy-source", b.where(pb), "the recorded range start is the address the bytes were copied from", "range start %s vs copy source %s" % (show(core(start))[:100] if start else "?", show(core(src))[:100] if src else "?"))
        m = strip(mem) if mem is not None else ("?",)
        okm = False
        if m[0] == "agg":
            d = dict(m[3])
            ds = core(d["data_size"])
            okm = ds[0] == "call" and ds[1].split("::")[-1] == "len" and strip(ds[2][0])[0] == "call" and strip(ds[2][0])[1].endswith("copy_from_process")
        ctx.check(okm, R, "size=len(copied)", b.where(pb), "the recorded size is the length of the copied bytes", "recorded size is %s" % show(m)[:160])
    # the thread record handed back (through &mut thread) carries the same descriptor: the push argument IS thread.stack
    for pb, t in pushes:
        a = o.call_args(pb)
        r = root(strip(a[1]))
        names = []
        x = strip(a[1])
        while x[0] in ("upd",):
            x = strip(x[1])
        ctx.check(x[0] == "field" and x[2] == "stack" and root(x[1]) == ("param", 4), R, "pushed=thread.stack", b.where(pb), "the memory-list entry is the thread record's own stack descriptor", "pushed descriptor is %s" % show(x)[:100])


def rule_page_start(ctx, R="C06/page-start"):
    b = ctx.body(R, "linux::ptrace_dumper::PtraceDumper::get_stack_info")
    if b is None:
        return
    o = Origin(b)
    fm = list(b.calls(lambda c: (c.short or "").endswith("PtraceDumper::find_mapping")))
    ctx.floor(R, "find_mapping calls in get_stack_info", len(fm), 2)
    # first lookup address = sp & !(page_size - 1)
    first = [x for x, t in fm if not any(x in body for body in b.loops().values())]
    for x in first:
        addr = core(o.call_args(x)[1])
        ok = False
        try:
            ps = [s for s in walk(addr) if s[0] == "field" and s[2] == "page_size"]
            if ps:
                ok = all(ipe.Eval({("param", 2): sp, ps[0]: 4096}).val(addr)[0] == (sp & ~4095) for sp in (0, 1, 4095, 4096, 4097, 0x7ffc12345678, ipe.M64))
        except ipe.Unsupported:
            ok = False
        ctx.check(ok, R, "round-down", b.where(x), "the search starts at the stack pointer rounded down to its page", "initial lookup address is %s" % show(addr)[:120])
    # the walk is bounded by sp_page.saturating_add(1 MiB)
    sat = [x for x, t in b.calls(lambda c: (c.short or "").split("::")[-1] == "saturating_add")]
    okb = False
    for x in sat:
        a = o.call_args(x)
        if core(a[1]) == ("const", 1024 * 1024, "usize"):
            okb = True
    ctx.check(okb, R, "guard-distance", b.where(sat[0]) if sat else None, "the guard-page search is limited to 1 MiB above the stack pointer", "guard distance constant not found")
    # ... and the walk cannot leave that window in one stride: every probe inside the loop is exactly one page beyond an address that
    # passed the `<= sp_page + 1 MiB` test on the way (a stride to "the end of this mapping" carries the probe arbitrarily far past it)
    inloop = [x for x, t in fm if any(x in body for body in b.loops().values())]
    ctx.floor(R, "probes inside the guard walk", len(inloop), 1)
    for k, x in enumerate(inloop):
        addr = strip(o.call_args(x)[1])
        while addr[0] in ("some", "okval") and len(addr) > 1:
            addr = strip(addr[1])
        step_ok = False
        if addr[0] == "call" and addr[1].split("::")[-1] in ("checked_add", "saturating_add", "wrapping_add") and len(addr[2]) == 2:
            base, inc = strip(addr[2][0]), strip(addr[2][1])
            step_ok = inc == ("field", ("param", 1), "page_size") and base[0] == "phi" and any(isinstance(q, tuple) and q[0] == "loop" for q in base[1])
        elif addr[0] == "bin" and addr[1] == "Add":
            base, inc = strip(addr[2]), strip(addr[3])
            step_ok = inc == ("field", ("param", 1), "page_size") and base[0] == "phi" and any(isinstance(q, tuple) and q[0] == "loop" for q in base[1])
        dnf = conditions(b, x, origin=o, relevant=lambda a: a[0] == "bin" and a[1] in ("Le", "Lt") and any(q[0] == "call" and q[1].split("::")[-1] == "saturating_add" and core(q[2][1]) == ("const", 1024 * 1024, "usize") for q in walk(a)))
        test_ok = bool(dnf) and all(any(v == 1 for (_, v) in c) for c in dnf)
        ctx.check(step_ok and test_ok, R, ("guard-walk-step", k + 1), b.where(x), "each probe of the guard walk is one page beyond an address that passed the 1 MiB test",
                  "the guard walk does not advance page by page under the 1 MiB test (probe at %s%s): a single stride can carry the search beyond the guard distance and take an unrelated mapping for the stack" % (show(addr)[:100], "" if test_ok else "; not under the distance test"))
    # returned start: stack_pointer if the mapping contains it else mapping.start; length = size - (start - mapping.start)
    cl = ctx.prog.closures_of(b)
    okc = False
    for c in cl:
        co = Origin(c)
        for (bi, si) in Exits(c).ok_defs:
            if si == "term":
                continue
            e = strip(co._rvalue(c.blocks[bi]["stmts"][si]["r"], (bi, si), 0))
            if e[0] == "tuple" and len(e[1]) == 2:
                ln = core(e[1][1])
                if ln[0] == "bin" and ln[1] == "Sub":
                    inner = core(ln[3])
                    okc = (core(ln[2])[0] == "field" and core(ln[2])[2] == "size" and inner[0] == "bin" and inner[1] == "Sub" and nosite(core(inner[2])) == nosite(core(e[1][0])) and core(inner[3])[0] == "field" and core(inner[3])[2] == "start_address")
    ctx.check(okc, R, "extent", b.where(0), "without a cap the region runs from the start to the end of the containing mapping (size - (start - mapping.start))", "returned length is not mapping.size - (start - mapping.start)")


def run(ctx):
    rule_start_depends_on_cap(ctx)
    rule_window_contains_sp(ctx)
    rule_who_is_shortened(ctx)
    rule_descriptor_agrees(ctx)
    rule_page_start(ctx)
    rule_find_mapping(ctx)
    rule_plausible_stack(ctx)
    # 'extends to the end of the containing mapping' and 'bytes equal the target's memory' need a reader that returns every readable
    # byte of the requested range (same rule instances as C17/args, C17/prefix-only)
    from rules import c17
    c17.rule_args(ctx, R="C06/reader-args")
    c17.rule_prefix_only(ctx, R="C06/reader-prefix-only")
    c17.rule_reader_identity(ctx, R="C06/reader-identity")   # ... of THIS target: every reader is built for an identity of the target
    # a readable stack is left empty only when the caller asked for unreferenced stacks to be skipped (same rule instance as C20/decision-shape:
    # with skip off the truth table has no dropping row)
    from rules import c20
    c20.rule_decision_shape(ctx, R="C06/dropped-only-on-request")
    # "in every dump": the options that decide who is shortened — the crash context (never shortened) and the size limit — are what
    # the caller configured, also in a second dump from the same writer (same rule instance as C19/config-preserved)
    from rules import c19
    c19.rule_config_preserved(ctx, R="C06/options-kept", only=("crash_context", "minidump_size_limit", "skip_stacks_if_mapping_unreferenced", "principal_mapping_address", "sanitize_stack"))
    # the stack's mapping is found among the aggregated mappings: a line may be folded into a module only under the guards of the
    # aggregation rules (same rule instances as C13/merge-guards, C13/hull)
    from rules import c13 as _c13
    _c13.rule_merges(ctx, P="C06/mapping-extents")
    # "the page of the stack pointer": the stack pointer is the thread's own rsp (same rule instances as C04/regs-source, C05/greg-map)
    from rules import c04 as _c04, c05 as _c05
    _c04.rule_regs_source(ctx, R="C06/stack-pointer/thread")
    _c05.rule_greg_map(ctx, R="C06/stack-pointer/crash-context")
    # a stack descriptor that names a position is followed, on every path to a success return, by the append of exactly those bytes
    # (same rule instance as C01/pos-append)
    from rules import c01 as _c01pa
    _c01pa.rule_pos_append(ctx, R="C06/descriptor-then-bytes")
    # the mapping list is built from the whole memory map (same rule instance as C13/whole-map-read)
    from rules import c13 as _c13w
    _c13w.rule_whole_map_read(ctx, R="C06/whole-map-read")
    # shared infrastructure this property leans on (rules/families.py): each member is the same rule instance as in its home property
    from rules import families as _fam
    _fam.reader(ctx, "C06")
    _fam.mapping_list(ctx, "C06")
    _fam.thread_list(ctx, "C06")
    # memory descriptors are final when pushed and the memory list is that list as it is (same rule instances as C07/memory-blocks-writers,
    # C07/list-after-producers)
    from rules import c07 as _c07m
    _c07m.rule_memory_blocks_writers(ctx, R="C06/memory-blocks-writers")
    # the stream reaches the caller's file where the directory says, wherever in the destination the dump starts (rules/families.py)
    from rules import families as _famd
    _famd.destination(ctx, "C06")
    # the small accessors and pass-through wrappers the rules above look through by name return what their names say (rules/accessors.py)
    from rules import accessors as _acc
    _acc.rule_accessors(ctx, "C06")
    # every listed thread goes through the stack step (same rule instance as C20/stack-decided-by-fill)
    from rules import c20 as _c20s
    _c20s.rule_stack_step_always(ctx, R="C06/stack-decided-by-fill")
    # the stream this property talks about is all-or-nothing: generate_dump succeeds only if its writer returned Ok (rules/c01.py rule_hard_streams)
    from rules import c01 as _c01h
    _c01h.rule_hard_streams(ctx, R="C06/hard-streams", only=('thread_list_stream::write',))
    # which thread is "the blamed one" is decided by tid, per entry (same rule instance as C05/branch-select)
    from rules import c05 as _c05bs
    _c05bs.rule_branch_select(ctx, R="C06/crash-context-for-blamed-tid")
