"""C02 — dumping is total: returns, never panics or hangs, never opens /dev (structural clauses, E5)."""
import json, os, re
from engine.mir import CalleeView, norm
from engine.origin import Origin, strip, core, show, root, walk, nosite, is_const, alts
from engine.paths import Exits, must_pass, conditions, switch_atom, witness_path
from engine import taint as T

PROPERTY = "C02"
EXPLANATION = ("E5 ledgers over everything reachable from MinidumpWriter::dump on the dev-profile MIR (overflow checks on): (panic-site) every MIR "
               "Assert (overflow, bounds, division) and every call to a panicking std/goblin function is an obligation when an operand is "
               "TARGET/CALLER-tainted (leaf-based taint over origin expressions with an interprocedural parameter fixpoint, seeded by "
               "tables/taint.json); it is discharged by constant operands, by a dominating guard (path-condition DNF), by value ranges (type widths, "
               "masks, min-clamps, constant-compared guards), or by an entry of tables/reviewed_panic_sites.json (one site, one reason); "
               "(explicit-panic) every panic!/assert! is decided by an input-independent branch, established at all call sites, or reviewed; "
               "(unbounded-loop) every loop is driven by a finite iterator, is a counting loop with an invariant bound, or is reviewed, and the "
               "reachable call graph has no recursion; (dev-open) every open of a path derived from target-controlled data is dominated "
               "(interprocedurally) by is_mapped_file_safe_to_open on the same name, paths with a constant /proc|/etc prefix are exempt; "
               "(dev-prefix) that predicate returns false exactly for names starting with \"/dev/\".")
TRUSTED = ["tables/taint.json (trust classes)", "table of panicking foreign functions (engine/taint.py); other foreign callees are assumed not to panic",
           "goblin/procfs-core/scroll/serde_json return Err instead of panicking", "tables/reviewed_panic_sites.json, reviewed_loops.json, reviewed_explicit_panics.json"]
ASSUMPTIONS = ["blocking inside the kernel (waitpid, reads of /proc files, open on a FIFO) is not decided: bounded time is a runtime property of syscalls",
               "lengths of in-memory collections are far below 2^47, so adding/multiplying them by small constants cannot overflow",
               "allocation failure / stack overflow are out of scope", "KERNEL-STRUCTURED values (maps ranges, tids, page size) are not attacker-controlled"]
VERIF = os.path.dirname(os.path.dirname(os.path.abspath(__file__)))

ENTRIES = ["linux::minidump_writer::MinidumpWriter::dump"]


def is_derived(f):
    return ("_serde" in f or "serde::Serialize" in f or "as std::fmt::Debug>" in f or "as std::fmt::Display>" in f or "as std::error::Error>" in f
            or "as std::clone::Clone>" in f or "as std::convert::From<" in f and "::from" in f and "AuxvDumpInfo" not in f)


EMPTY_IS_POSSIBLE = True
EMPTINESS_SENSITIVE = {"first", "last", "first_mut", "last_mut", "get", "get_mut", "pop", "next", "next_back", "max", "min", "max_by_key", "min_by_key", "max_by", "min_by", "split_first", "split_last", "nth", "find", "position", "peek", "reduce", "checked_div", "checked_rem", "front", "back", "pop_front", "pop_back"}


def ledger(ctx, taint, rule, scope=None, kinds=None):
    sinks = T.collect_sinks(taint, skip_fn=is_derived)
    if scope is not None:
        sinks = [s for s in sinks if scope(s.fn)]
    if kinds is not None:
        sinks = [s for s in sinks if kinds(s.kind)]
    reviewed = load_reviewed()
    stats = {"total": 0, "const": 0, "untainted": 0, "guarded": 0, "reviewed": 0, "open": 0}
    seen = {}
    for s in sinks:
        stats["total"] += 1
        why = []
        lc = s.kind in ("Overflow:Add", "Overflow:Mul")
        ops_t = [taint.tainted(e, s.fn, why=why, len_clean=lc) for e in s.ops]
        opk = [T.canon_key(e) for e in s.ops]
        if s.kind in ("Overflow:Add", "Overflow:Mul"):
            opk = sorted(opk)   # commutative: the key must not depend on operand order
        base = (s.fn, s.kind, "|".join(opk))
        seen[base] = seen.get(base, 0) + 1
        key = base + ("#%d" % seen[base],)
        if all(is_const(core(e)) for e in s.ops) and s.kind.startswith(("Overflow", "BoundsCheck")):
            stats["const"] += 1
            continue
        if s.kind in ("Overflow:Shr", "Overflow:Shl") and is_const(core(s.ops[1])) and 0 <= core(s.ops[1])[1] < {"u8": 8, "i8": 8, "u16": 16, "i16": 16, "u32": 32, "i32": 32, "u128": 128, "i128": 128}.get((s.tys or [None])[0] or "usize", 64):
            stats["const"] += 1
            continue
        if s.kind.startswith("call:") and s.kind.split(":")[1] in T.CONST_ARG_OK and len(s.ops) > 1 and is_const(core(s.ops[1])) and core(s.ops[1])[1] > 0:
            stats["const"] += 1
            continue
        # a divisor need not be hostile to be zero: counts and lengths (threads left, entries found) are zero in unusual targets, so a
        # non-constant divisor is a sink whatever its provenance; it is discharged by a dominating `!= 0` / `> 0` guard
        if s.kind in ("DivisionByZero", "RemainderByZero") and not all(is_const(core(e)) for e in s.ops):
            ops_t = [True for _ in s.ops]
            why.append("a count/length can be zero")
        if EMPTY_IS_POSSIBLE and s.kind == "BoundsCheck" and not all(is_const(core(e)) for e in s.ops) and not any(ops_t):
            ops_t = [True for _ in s.ops]
            why.append("a collection can be empty/shorter")
        if EMPTY_IS_POSSIBLE and s.kind in ("call:unwrap", "call:expect") and not any(ops_t) and s.ops:
            x = strip(s.ops[0])
            if x[0] == "call" and x[1].split("::")[-1] in EMPTINESS_SENSITIVE:
                # shape lemma: first/last/get(i) of a chunk of statically known length k > i is Some
                n_static = T._static_len(x[2][0]) if x[2] else None
                idx = 0
                if x[1].split("::")[-1] in ("get", "get_mut") and len(x[2]) > 1 and is_const(core(x[2][1])):
                    idx = core(x[2][1])[1]
                if n_static is not None and x[1].split("::")[-1] in ("first", "last", "first_mut", "last_mut", "get", "get_mut", "split_first", "split_last") and idx < n_static:
                    pass
                else:
                    ops_t = [True] + [False] * (len(s.ops) - 1)
                    why.append("a collection can be empty")
        if not any(ops_t):
            stats["untainted"] += 1
            ctx.ok(rule, key, s.where, "%s: operands are not target/caller controlled" % s.desc[:160], nontrivial=False)
            continue
        g = False
        try:
            if s.kind == "Overflow:Sub":
                g = T.guarded_sub(s, taint)
            elif s.kind == "BoundsCheck":
                g = T.guarded_index(s, taint)
            elif s.kind in ("call:unwrap", "call:expect"):
                g = T.guarded_unwrap(s, taint)
            elif s.kind == "call:from_bytes":
                g = T.guarded_from_bytes(s, taint)
            if not g:
                g = T.range_discharge(s, taint, s.tys)
        except Exception as ex:
            g = False
        if g:
            stats["guarded"] += 1
            ctx.ok(rule, key, s.where, "%s: discharged by a dominating guard" % s.desc[:160])
            continue
        rk = "|".join(str(k) for k in key)
        fp = T.guard_fingerprint(s, taint)
        if fp:
            rk += "|under:" + fp
        if rk in reviewed:
            stats["reviewed"] += 1
            ctx.ok(rule, key, s.where, "%s: reviewed — %s" % (s.desc[:120], reviewed[rk]))
            continue
        stats["open"] += 1
        ctx.violated(rule, key, s.where, "tainted value reaches a panic site without a guard: %s  [tainted via %s]" % (s.desc[:200], "; ".join(sorted(set(why)))[:160]),
                     detail={"kind": s.kind, "ops": [show(e)[:300] for e in s.ops], "review_key": rk})
    return stats


def load_reviewed():
    p = os.path.join(VERIF, "tables", "reviewed_panic_sites.json")
    if not os.path.exists(p):
        return {}
    with open(p) as f:
        return {e["key"]: e["reason"] for e in json.load(f)["sites"]}


def rule_analysed_config(ctx, R="C02/analysed-config"):
    """the ledger sees a wrap-around only as the overflow assert the compiler emits: the configuration analysed must have overflow checks
    on (dev profile as shipped), and no cargo profile may switch them off or set debug-assertions off for dev/test — otherwise every
    arithmetic sink is invisible and a wrapped address or size is used silently instead of being reported."""
    import os
    oc = ctx.prog.j.get("overflow_checks")
    ctx.check(oc is True, R, "overflow-checks-on", None, "the analysed MIR was built with overflow checks (arithmetic sinks are visible)",
              "the analysed configuration has overflow checks OFF (%r): arithmetic on target-controlled values wraps silently and the panic ledger cannot see it" % oc, nontrivial=False)
    try:
        import tomllib
        with open(os.path.join(ctx.repo, "Cargo.toml"), "rb") as f:
            ct = tomllib.load(f)
        bad = []
        for name, v in (ct.get("profile", {}) or {}).items():
            if isinstance(v, dict) and name in ("dev", "test") and (v.get("overflow-checks") is False or v.get("debug-assertions") is False):
                bad.append(name)
        ctx.check(not bad, R, "profiles", "Cargo.toml", "no dev/test profile switches overflow checks or debug assertions off", "profile(s) %s switch overflow-checks/debug-assertions off" % bad, nontrivial=False)
    except Exception as e:
        ctx.unproven(R, "profiles", "Cargo.toml", "cannot read Cargo.toml: %s" % e)


def run(ctx):
    rule_analysed_config(ctx)
    rule_local_iter_fused(ctx)
    taint = T.Taint(ctx.prog, ENTRIES)
    ctx.analysed["reachable_functions"] = len(taint.reach)
    ctx.analysed["tainted_params"] = len(taint.params)
    ctx.analysed["taint_rounds"] = taint.rounds
    st = ledger(ctx, taint, "C02/panic-site")
    ctx.analysed["panic_sinks"] = st
    ctx.analysed["explicit_panics"] = rule_explicit_panic(ctx, taint)
    ctx.analysed["loops"] = rule_loops(ctx, taint)
    ctx.analysed["internal_iterations"] = rule_internal_iteration(ctx, taint)
    rule_dev_open(ctx, taint)
    rule_dev_prefix(ctx)
    # classification of the foreign leaves reachable from dump() (the trusted base of the ledgers)
    cls = {"panicking": set(), "taint-source": set(), "clean": set(), "assumed-non-panicking": set()}
    for f in taint.reach:
        for b in ctx.prog.by_short.get(f, ()):
            for bi, t in b.calls():
                cv = CalleeView(t["callee"])
                n = cv.target or cv.short
                if n is None or n in ctx.prog.by_short or cv.short in ctx.prog.by_short:
                    continue
                if T.sink_kind_of_call(cv):
                    cls["panicking"].add(n)
                elif taint.is_source_call(n):
                    cls["taint-source"].add(n)
                elif n in taint.clean_calls:
                    cls["clean"].add(n)
                else:
                    cls["assumed-non-panicking"].add(n)
    ctx.analysed["foreign_callees"] = {k: len(v) for k, v in cls.items()}
    ctx.analysed["foreign_callees_panicking"] = sorted(cls["panicking"])
    ctx.analysed["foreign_callees_assumed_non_panicking"] = sorted(cls["assumed-non-panicking"])


# ------------------------------------------------------------------------------------ explicit panics
    # the reviewed panic sites in the typed writers (tables/reviewed_panic_sites.json) are discharged by citing the layout laws: those
    # laws are therefore obligations of THIS property too — an index that can leave its array makes write_at's `len - offset` panic
    # (same rule instances as C01/index-bound, C01/dir-count, C16/write-at-window)
    from rules import c01 as _c01b, c16 as _c16b
    n_ib = _c01b.index_bound_sites(ctx, "C02/index-bound")
    ctx.floor("C02/index-bound", "set_value_at call sites", n_ib, 6)
    _c16b.rule_write_at_window(ctx, R="C02/write-at-window")
    # ... and the flush's `buffer[mark..]` is in range only because the mark is the section's own record of an earlier image length
    # (same rule instance as C09/append-flush)
    from rules import c09 as _c09f
    _c09f.rule_append_flush(ctx, R="C02/flush-mark-in-image")


def nearest_guard(b, o, block):
    """literal (atom, value) of the branch that immediately decides entering `block` (through unique predecessors)"""
    x = block
    hops = 0
    while hops < 12:
        ps = [p for p in b.preds.get(x, ()) if not b.blocks[p]["cleanup"]]
        if len(ps) != 1:
            return None
        p = ps[0]
        t = b.term(p)
        if t["k"] == "switch":
            atom, hint = switch_atom(b, o, p)
            for (s, lab) in b.succ_edges(p):
                if s == x and lab[0] == "sw":
                    return (atom, lab[1] if lab[1] != "otherwise" else ("not", lab[2]))
            return None
        x = p
        hops += 1
    return None


def load_json(name, key):
    p = os.path.join(VERIF, "tables", name)
    if not os.path.exists(p):
        return {}
    with open(p) as f:
        return {e["key"]: e["reason"] for e in json.load(f)[key]}


def rule_explicit_panic(ctx, taint, rule="C02/explicit-panic", scope=None):
    prog = ctx.prog
    reviewed = load_json("reviewed_explicit_panics.json", "sites")
    n = 0
    for f in sorted(taint.reach):
        if is_derived(f) or (scope and not scope(f)):
            continue
        for b in prog.by_short.get(f, ()):
            o = taint.origin(b)
            k = 0
            for bi, t in b.calls(lambda c: (c.short or "").startswith("core::panicking") or (c.short or "") in ("std::rt::begin_panic", "std::process::abort", "std::process::exit")):
                n += 1
                k += 1
                g = nearest_guard(b, o, bi)
                key = (f, "panic#%d" % k)
                if g is None:
                    ctx.unproven(rule, key, b.where(bi), "explicit panic whose deciding branch cannot be identified")
                    continue
                atom, val = g
                if not taint.tainted(atom, f):
                    ctx.ok(rule, key, b.where(bi), "explicit panic decided by an input-independent condition: %s" % show(atom)[:120], nontrivial=False)
                    continue
                # precondition established at every call site?
                if precondition_at_callers(ctx, taint, b, atom, val):
                    ctx.ok(rule, key, b.where(bi), "assertion %s is established by a guard at every call site" % show(atom)[:100])
                    continue
                rk = "%s|%s" % (f, T.canon_key(atom))
                if rk in reviewed:
                    ctx.ok(rule, key, b.where(bi), "reviewed — %s" % reviewed[rk])
                    continue
                ctx.violated(rule, key, b.where(bi), "explicit panic reachable under a target/caller-controlled condition: %s == %s" % (show(atom)[:160], val), detail={"review_key": rk})
    return n


def precondition_at_callers(ctx, taint, body, atom, val):
    """assert!(P(params)) inside `body`: every local call site must carry P(args) on all paths"""
    if not (atom[0] == "bin" and atom[1] in ("Lt", "Le", "Gt", "Ge") and all(core(x)[0] == "param" for x in (atom[2], atom[3]))):
        return False
    # panic happens when the assertion is false: val is the value of the comparison on the panicking edge
    want_true = (val == 0)
    if not want_true:
        return False
    pa, pb = core(atom[2])[1], core(atom[3])[1]
    sites = 0
    for f in taint.reach:
        for cb in ctx.prog.by_short.get(f, ()):
            co = taint.origin(cb)
            for x, t in cb.calls(lambda c: c.target == body.short or c.short == body.short):
                sites += 1
                args = co.call_args(x)
                a, b_ = args[pa - 1], args[pb - 1]
                dnf = conditions(cb, x, origin=co, relevant=lambda at: at[0] == "bin" and at[1] in ("Lt", "Le", "Gt", "Ge"))
                if not dnf:
                    return False
                def ok(at, v):
                    if T._same(at[2], a) and T._same(at[3], b_):
                        return (at[1] == atom[1] and v == 1) or ({"Lt": "Ge", "Le": "Gt", "Gt": "Le", "Ge": "Lt"}[atom[1]] == at[1] and v == 0)
                    if T._same(at[2], b_) and T._same(at[3], a):
                        flip = {"Lt": "Gt", "Le": "Ge", "Gt": "Lt", "Ge": "Le"}[atom[1]]
                        return (at[1] == flip and v == 1) or ({"Lt": "Ge", "Le": "Gt", "Gt": "Le", "Ge": "Lt"}[flip] == at[1] and v == 0)
                    return False
                if not all(any(ok(at, v) for (at, v) in c) for c in dnf):
                    return False
    return sites > 0


# ------------------------------------------------------------------------------------ iterator finiteness
# iterators that do NOT terminate by themselves on malformed input: after the first unparsable item goblin's NoteDataIterator
# keeps its offset and yields the same Err on every call.  They may only be driven by a loop that leaves on an Err item.
STICKY_ERR_ITER = {"goblin::elf::note::NoteDataIterator": "does not advance past an unparsable note: it yields Err for ever"}
ITER_ADAPTORS = {"Map": 1, "Filter": 1, "FilterMap": 1, "Flatten": 1, "FlatMap": 1, "Enumerate": 1, "Zip": 2, "Rev": 1, "Skip": 1, "Take": 1, "Chain": 2,
                 "Peekable": 1, "Copied": 1, "Cloned": 1, "TakeWhile": 1, "SkipWhile": 1, "StepBy": 1, "Fuse": 1, "Inspect": 1, "MapWhile": 1, "Scan": 1}
FINITE_BASE = ("std::slice::", "std::vec::IntoIter", "std::vec::Drain", "std::ops::Range", "std::str::", "std::fs::ReadDir", "std::io::Lines", "std::io::Split", "std::collections::",
               "std::option::", "std::result::", "std::array::IntoIter", "std::char::", "std::path::", "std::env::", "procfs_core::process::MemoryMaps",
               "std::string::Drain", "std::iter::Once", "std::iter::Empty", "std::ffi::")
CONSUMERS = {"find", "find_map", "position", "rposition", "any", "all", "count", "last", "nth", "fold", "try_fold", "for_each", "try_for_each", "collect", "sum",
             "product", "max", "min", "max_by", "max_by_key", "min_by", "min_by_key", "reduce", "partition", "unzip", "eq", "ne", "lt", "le", "gt", "ge", "cmp",
             "partial_cmp", "extend", "from_iter", "advance_by", "is_sorted"}


def split_type(t):
    """'path<arg, arg>' -> (path, [args]) with nesting respected; leading &/&mut and lifetimes dropped"""
    t = t.strip()
    while t.startswith("&"):
        t = t[1:].strip()
        if t.startswith("mut "):
            t = t[4:].strip()
        if t.startswith("'"):
            t = t.split(" ", 1)[1].strip() if " " in t else t
    if "<" not in t:
        return t, []
    i = t.index("<")
    head, rest = t[:i], t[i + 1:t.rindex(">")]
    args, depth, cur = [], 0, ""
    for ch in rest:
        if ch in "<([{":
            depth += 1
        elif ch in ">)]}":
            depth -= 1
        if ch == "," and depth == 0:
            args.append(cur.strip())
            cur = ""
        else:
            cur += ch
    if cur.strip():
        args.append(cur.strip())
    return head, [a for a in args if not a.startswith("'")]


def iterator_verdict(t, local_finite=()):
    """('finite', why) | ('sticky', name) | ('unknown', name) for an iterator type string"""
    head, args = split_type(t)
    if head.startswith("std::iter::") and head.split("::")[-1] in ITER_ADAPTORS:
        n = ITER_ADAPTORS[head.split("::")[-1]]
        for a in args[:n]:
            v = iterator_verdict(a, local_finite)
            if v[0] != "finite":
                return v
        return ("finite", "adaptor over finite iterators")
    for k in STICKY_ERR_ITER:
        if head.startswith(k):
            return ("sticky", k)
    if any(head.startswith(p_) for p_ in FINITE_BASE):
        return ("finite", head)
    if any(head.startswith(l_) for l_ in local_finite):
        return ("finite", head)
    return ("unknown", head)


_SELF_OF = re.compile(r"^<(.*) as std::iter::(?:Iterator|DoubleEndedIterator|FromIterator<.*>|Extend<.*>)>::")


def rule_internal_iteration(ctx, taint, rule="C02/internal-iteration", scope=None):
    """consuming iterator methods (find, count, collect, fold ...) loop inside std: their receiver must be a finite iterator"""
    n = 0
    local = tuple(k.split(" as ")[0].lstrip("<") for k in LOCAL_FINITE_ITER)
    for f in sorted(taint.reach):
        if is_derived(f) or (scope and not scope(f)):
            continue
        for b in ctx.prog.by_short.get(f, ()):
            k = 0
            for bi, t in b.calls():
                cv = CalleeView(t["callee"])
                nm = cv.target or cv.short or ""
                if lastseg_(nm) not in CONSUMERS or "iter::" not in nm:
                    continue
                m = _SELF_OF.match(cv.inst or "")
                if not m:
                    continue
                n += 1
                k += 1
                v = iterator_verdict(m.group(1), local)
                key = (f, "%s#%d" % (lastseg_(nm), k))
                if v[0] == "finite":
                    ctx.ok(rule, key, b.where(bi), "%s consumes a finite iterator (%s)" % (lastseg_(nm), m.group(1)[:80]), nontrivial=False)
                elif v[0] == "sticky":
                    ctx.violated(rule, key, b.where(bi), "%s() is driven over %s, which %s: on such input the call never returns" % (lastseg_(nm), v[1], STICKY_ERR_ITER[v[1]]))
                elif re.fullmatch(r"[A-Z][A-Za-z0-9_]*", v[1] or ""):
                    ctx.ok(rule, key, b.where(bi), "%s on a generic iterator parameter (decided at the instantiations)" % lastseg_(nm), nontrivial=False)
                else:
                    ctx.unproven(rule, key, b.where(bi), "%s() consumes an iterator that is not known to be finite: %s" % (lastseg_(nm), v[1]))
    return n


# ------------------------------------------------------------------------------------ loops
FINITE_ITER = ("std::slice::Iter<", "std::slice::IterMut<", "std::iter::Enumerate<", "std::iter::Map<", "std::iter::Filter<", "std::iter::Chain<",
               "std::vec::IntoIter<", "std::ops::Range<", "std::ops::RangeInclusive<", "std::slice::ChunksExactMut<", "std::slice::ChunksExact<",
               "std::slice::RChunksExactMut<", "std::slice::Chunks<", "std::slice::ChunksMut<", "std::slice::RChunks<", "std::slice::RChunksExact<", "std::slice::Windows<", "std::slice::SplitN<", "std::str::Split<", "std::io::Lines<", "std::io::Split<", "std::fs::ReadDir",
               "std::iter::range::<impl std::iter::Iterator for std::ops::Range", "&mut I", "procfs_core::process::MemoryMaps", "std::iter::Rev<", "std::str::CharIndices")

def flag_clears(b):
    """blocks of ProcfsAuxvIter::next that store false to the FIELD self.keep_going (directly, or through mem::replace/take of a reference to
    that place) — decided on MIR places, because the origin engine cannot tell `&mut self.keep_going` from `&mut copy_of_it`"""
    def is_flag(pl):
        pj = pl.get("proj") or []
        return pl["l"] == 1 and len(pj) >= 2 and pj[0]["k"] == "deref" and pj[-1].get("n") == "keep_going"
    clears = set()
    for bi, blk in enumerate(b.blocks):
        for st in blk["stmts"]:
            if st["k"] == "assign" and is_flag(st["p"]) and st["r"]["k"] == "use" and st["r"]["o"].get("k") == "const" and st["r"]["o"].get("v") == 0:
                clears.add(bi)
        # `mem::replace(&mut self.keep_going, false)` / `mem::take(&mut self.keep_going)`: the same store, made by std through a reference to the field
        tt = blk["term"]
        if tt["k"] == "call" and CalleeView(tt["callee"]).short in ("std::mem::replace", "std::mem::take") and \
                any(st["k"] == "assign" and st["r"]["k"] == "ref" and st["r"]["bk"] == "mut" and is_flag(st["r"]["p"]) for st in blk["stmts"]):
            a = tt["args"]
            if CalleeView(tt["callee"]).short == "std::mem::take" or (len(a) > 1 and a[1].get("k") == "const" and a[1].get("v") == 0):
                clears.add(bi)
    return clears


def rule_local_iter_fused(ctx, R="C02/iter-fused"):
    """the loop ledger takes ProcfsAuxvIter for a finite iterator because it is FUSED: `keep_going` is cleared before anything that can
    fail, so after an error item (EOF before AT_NULL, an io error) the next call returns None.  try_filling_missing_info answers an error
    item with `push; continue` — with an unfused iterator that loop never ends and the soft-error list grows without bound.  Decided
    here: in next(), every path from the entry to a call passes a store `self.keep_going = false` (the field of self, not a local copy of
    it), and the entry tests that field."""
    b = ctx.body(R, "<linux::auxv::reader::ProcfsAuxvIter as std::iter::Iterator>::next")
    if b is None:
        return

    clears = flag_clears(b)
    ctx.floor(R, "stores of false to self.keep_going in next()", len(clears), 1)
    o = Origin(b)
    t0 = None
    for g in range(b.n):
        t = b.term(g)
        if t["k"] == "switch" and t.get("oty") == "bool":
            atom, _h = switch_atom(b, o, g)
            if any(q[0] == "field" and q[2] == "keep_going" and root(q[1]) == ("param", 1) for q in walk(atom)):
                t0 = g
                break
    c0 = min(clears) if clears else 0
    ctx.check(t0 is not None and (b.dominates(t0, c0) or b.dominates(c0, t0)), R, "tests-the-field", b.where(t0 or 0), "next() begins by testing self.keep_going",
              "no test of self.keep_going dominates the rest of next(): an iterator that has failed goes on reading")
    calls = [bi for bi, t in b.calls() if bi not in clears]
    bad = [b.where(x) for x in calls if must_pass(b, 0, {x}, clears) is not None]
    ctx.check(not bad and bool(clears), R, "cleared-before-any-call", b.where(min(clears)) if clears else b.where(0),
              "self.keep_going is cleared before anything that can fail: the iterator ends after its first error item",
              "call(s) in next() can be reached without `self.keep_going = false` having been stored (%s): after a failed read the iterator yields the same error for ever, and the loop that skips error items never ends" % ", ".join(bad[:4]))


LOCAL_FINITE_ITER = {
    "<linux::auxv::reader::ProcfsAuxvIter as std::iter::Iterator>::next": "yields until AT_NULL / EOF / first error of a finite procfs file (keep_going is cleared before each item)",
    "<linux::module_reader::DynIter<'_> as std::iter::Iterator>::next": "consumes a fixed-size entry of a finite slice per item",
}


def rule_loops(ctx, taint, rule="C02/unbounded-loop", scope=None):
    prog = ctx.prog
    reviewed = load_json("reviewed_loops.json", "loops")
    n = 0
    for f in sorted(taint.reach):
        if is_derived(f) or (scope and not scope(f)):
            continue
        for b in prog.by_short.get(f, ()):
            loops = b.loops()
            if not loops:
                continue
            o = taint.origin(b)
            back = b.back_edges()
            k = 0
            for h in sorted(loops):
                body = loops[h]
                n += 1
                k += 1
                key = (f, "loop#%d" % k)
                latches = [t_ for (t_, hh) in back if hh == h]
                verdict = None
                # (a) iterator driven
                for x in body:
                    t = b.term(x)
                    if t["k"] == "call" and lastseg_(CalleeView(t["callee"]).short) == "next" and all(b.dominates(x, l) for l in latches):
                        cv = CalleeView(t["callee"])
                        inst = cv.inst or ""
                        tgt = cv.target or ""
                        sw = t["t"]
                        exits_here = b.term(sw)["k"] == "switch" and any(s not in body for s in b.succs(sw, unwind=False))
                        if not exits_here:
                            continue
                        if tgt in LOCAL_FINITE_ITER:
                            verdict = ("ok", "driven by %s: %s" % (tgt.split("::")[-2] if "::" in tgt else tgt, LOCAL_FINITE_ITER[tgt]))
                        elif any(p in inst for p in FINITE_ITER) or any(p in tgt for p in FINITE_ITER):
                            verdict = ("ok", "driven by a finite std iterator (%s)" % (inst[:70]))
                        elif any(k_ in inst for k_ in STICKY_ERR_ITER):
                            # the loop must leave on an Err item: a branch on the item's Result discriminant whose Err side exits the loop
                            name = next(k_ for k_ in STICKY_ERR_ITER if k_ in inst)
                            leaves = False
                            for y in body:
                                if y == sw or b.term(y)["k"] != "switch":
                                    continue
                                a_, _ = switch_atom(b, o, y)
                                if a_[0] == "discr" and any(q[0] == "call" and lastseg_(q[1]) == "next" and name in q[1] for q in walk(a_[1])):
                                    errs = [tgt_ for (tgt_, lab) in b.succ_edges(y) if lab[0] == "sw" and lab[1] != 0 and b.term(tgt_)["k"] != "unreachable"]
                                    if errs and all(tgt_ not in body for tgt_ in errs):
                                        leaves = True
                            if leaves:
                                verdict = ("ok", "driven by %s and left on the first Err item (the iterator %s)" % (name.split("::")[-1], STICKY_ERR_ITER[name]))
                            else:
                                verdict = ("violated", "loop over %s does not leave on an Err item, but the iterator %s" % (name, STICKY_ERR_ITER[name]), "%s|sticky" % f)
                        elif "goblin" in inst:
                            verdict = ("unproven", "driven by a goblin iterator whose termination on malformed input is not classified: %s" % inst[:80], "%s|goblin" % f)
                if verdict is None:
                    verdict = counter_loop(b, o, h, body, latches, taint, f)
                if verdict is None:
                    rk = "%s|loop@%s" % (f, loop_signature(b, o, h, body))
                    if rk in reviewed:
                        verdict = ("ok", "reviewed — %s" % reviewed[rk])
                    else:
                        tainted_exit = False
                        for x in body:
                            if b.term(x)["k"] == "switch" and any(s not in body for s in b.succs(x, unwind=False)):
                                a, _ = switch_atom(b, o, x)
                                if taint.tainted(a, f):
                                    tainted_exit = True
                        verdict = ("violated" if tainted_exit else "unproven", "loop with no structural bound%s" % (": its exit depends on target/caller-controlled data" if tainted_exit else ""), rk)
                if verdict[0] == "ok":
                    ctx.ok(rule, key, b.where(h), verdict[1])
                elif verdict[0] == "violated":
                    ctx.violated(rule, key, b.where(h), verdict[1], detail={"review_key": verdict[2]})
                else:
                    ctx.unproven(rule, key, b.where(h), verdict[1], detail={"review_key": verdict[2]})
    # recursion: no cycle in the reachable call graph
    cg, _ = prog.callgraph()
    cyc = find_cycle({f: [c for c in cg.get(f, ()) if c in taint.reach] for f in taint.reach if not is_derived(f)})
    ctx.check(cyc is None, rule, "no-recursion", None, "no recursion among the %d reachable functions" % len(taint.reach), "recursive call cycle: %s" % (cyc,), nontrivial=False)
    return n


def lastseg_(n):
    return n.split("::")[-1] if n else ""


def loop_signature(b, o, h, body):
    """stable key of a loop: canonical exit atoms"""
    atoms = []
    for x in sorted(body):
        if b.term(x)["k"] == "switch" and any(s not in body and b.term(s)["k"] != "unreachable" for s in b.succs(x, unwind=False)):
            a, _ = switch_atom(b, o, x)
            atoms.append(T.canon_key(a)[:60])
    return ";".join(atoms)[:200]


def counter_loop(b, o, h, body, latches, taint, f):
    """exit condition compares a value that strictly increases every iteration against a loop-invariant bound"""
    for x in sorted(body):
        t = b.term(x)
        if t["k"] != "switch" or not any(s not in body for s in b.succs(x, unwind=False)):
            continue
        if not all(b.dominates(x, l) for l in latches):
            continue
        a, _ = switch_atom(b, o, x)
        if not (a[0] == "bin" and a[1] in ("Lt", "Le", "Gt", "Ge")):
            continue
        for var, bound in ((a[2], a[3]), (a[3], a[2])):
            v = strip(var)
            # collection length that grows by a push on every iteration
            if v[0] == "call" and lastseg_(v[1]) == "len" and is_const(core(bound)):
                coll = strip(v[2][0])
                pushes = [y for y in body if b.term(y)["k"] == "call" and lastseg_(CalleeView(b.term(y)["callee"]).short) == "push" and nosite(strip(o.call_args(y)[0])) == nosite(coll)]
                if pushes and all(must_pass(b, h_succ, {h}, set(pushes)) is None for h_succ in [s for s in b.succs(x, unwind=False) if s in body]):
                    return ("ok", "bounded: exits when len(%s) reaches the constant %s and every iteration pushes one element" % (show(coll)[:40], core(bound)[1]))
            if v[0] != "phi":
                continue
            incs = []
            okform = True
            selfs = set()
            rest = []
            for alt in v[1]:
                al = strip(alt)
                if al[0] == "loop":
                    selfs.add(al[1])
                    continue
                c = core(al)
                step = None
                base = None
                stepkind = None
                if c[0] == "bin" and c[1] in ("Add", "AddUnchecked"):
                    base, step = c[2], c[3]
                    stepkind = "add"        # overflow panics (C02/panic-site): it cannot silently stop progressing
                elif c[0] == "call" and lastseg_(c[1]) == "checked_add" and len(c[2]) == 2:
                    base, step = c[2][0], c[2][1]
                    stepkind = "checked"    # None leaves the loop (or the function)
                elif c[0] == "call" and lastseg_(c[1]) == "saturating_add" and len(c[2]) == 2:
                    base, step = c[2][0], c[2][1]
                    stepkind = "saturating"  # may stick at MAX: needs a strict comparison or a bound below MAX
                if base is not None and any(s[0] == "loop" for s in walk(base)) and not any(s[0] == "loop" for s in walk(step)):
                    st_ = core(step)
                    positive = (is_const(st_) and st_[1] > 0) or (not is_const(st_) and T.maxval(st_) is not None) or (st_[0] == "field" and st_[2] == "page_size") or (st_[0] == "call" and lastseg_(st_[1]) in ("size_of", "size_with"))
                    if positive:
                        incs.append(stepkind)
                        bs = strip(base)
                        if bs[0] == "loop":
                            selfs.add(bs[1])
                        elif bs[0] == "phi":
                            for z in bs[1]:
                                if strip(z)[0] == "loop":
                                    selfs.add(strip(z)[1])
                        continue
                rest.append(al)
            # the remaining alternatives are initial values: they must not depend on this loop's own variable
            for al in rest:
                if any(s[0] == "loop" and s[1] in selfs for s in walk(al)):
                    okform = False
            inv = not any(s[0] == "loop" and s[1] in selfs for s in walk(bound))
            if "saturating" in incs:
                # var = var.saturating_add(step) stops growing at MAX: `var <= bound` never becomes false when bound can be MAX
                strict = (a[1] == "Lt" and var is a[2]) or (a[1] == "Gt" and var is a[3])
                mb = T.maxval(bound)
                if not strict and not (mb is not None and mb < (1 << 64) - 1):
                    okform = False
            if okform and incs and inv:
                return ("ok", "counting loop: %s advances by a loop-invariant positive step towards the loop-invariant bound %s" % (show(v)[:50], show(bound)[:50]))
    return None


def find_cycle(g):
    color = {}
    def dfs(u, stack):
        color[u] = 1
        stack.append(u)
        for v in g.get(u, ()):
            if color.get(v, 0) == 1:
                return stack[stack.index(v):] + [v]
            if color.get(v, 0) == 0:
                r = dfs(v, stack)
                if r:
                    return r
        stack.pop()
        color[u] = 2
        return None
    import sys
    sys.setrecursionlimit(10000)
    for u in list(g):
        if color.get(u, 0) == 0:
            r = dfs(u, [])
            if r:
                return r
    return None


# ------------------------------------------------------------------------------------ /dev open
OPEN_CALLS = ("std::fs::File::open", "std::fs::read", "std::fs::read_to_string", "std::fs::read_dir", "std::fs::OpenOptions::open",
              "procfs_core::FromRead::from_file", "std::fs::File::create", "std::fs::copy")
SAFE = "linux::maps_reader::MappingInfo::is_mapped_file_safe_to_open"
CONST_PREFIXES = ("/proc/", "/etc/", "/sys/")


def const_prefixed(e):
    for s in walk(e):
        if s[0] == "str":
            txt = "".join(ch for ch in s[1] if ch.isprintable() and ord(ch) >= 32 and ch != "�")
            if txt.startswith(CONST_PREFIXES) or any(p in s[1][:12] for p in CONST_PREFIXES):
                return True
    return False


def name_core(e):
    """the mapping-name value a path expression is derived from (through Some/unwrap/clone/Path::new/...)"""
    e = strip(e)
    while True:
        if e[0] == "call" and lastseg_(e[1]) in ("unwrap_or_default", "unwrap", "as_os_str", "as_path", "to_path_buf", "from", "new", "to_owned", "into", "as_ref", "display", "join") and e[2]:
            e = strip(e[2][0])
        elif e[0] in ("some", "okval", "conv"):
            e = strip(e[1])
        else:
            return e


def guarded_by_safe(b, o, block, path_expr):
    dnf = conditions(b, block, origin=o, relevant=lambda a: a[0] == "call" and a[1] == SAFE)
    if not dnf:
        return False
    want = nosite(name_core(path_expr))
    def ok(a, v):
        return v == 1 and nosite(name_core(a[2][0])) == want
    return all(any(ok(a, v) for (a, v) in c) for c in dnf)


def rule_dev_open(ctx, taint, rule="C02/dev-open"):
    prog = ctx.prog
    n_guarded = 0
    n_total = 0
    seen_keys = {}

    def check(b, block, path_expr, chain, depth):
        """returns list of (verdict, msg) for one open obligation at (b, block) with path origin path_expr"""
        o = taint.origin(b)
        f = b.short
        if const_prefixed(path_expr):
            return [("exempt", "constant /proc|/etc path")]
        if guarded_by_safe(b, o, block, path_expr):
            return [("guarded", "dominated by is_mapped_file_safe_to_open(same name) in %s" % f.split("::")[-1])]
        c = name_core(path_expr)
        # obligation exported through a parameter (or a closure up-var)
        params = [s for s in walk(c) if s[0] == "param"]
        if c[0] == "param" and depth < 4:
            res = []
            callers = 0
            for g in taint.reach | {x.short for x in prog.bodies}:
                for cb in prog.by_short.get(g, ()):
                    co = taint.origin(cb)
                    for x, t in cb.calls(lambda cv: cv.target == f or cv.short == f):
                        callers += 1
                        args = co.call_args(x)
                        if c[1] - 1 < len(args):
                            res += check(cb, x, args[c[1] - 1], chain + [f], depth + 1)
            if callers == 0:
                return [("no-caller", "no caller in the crate (public API entry)")]
            return res
        if not taint.tainted(path_expr, f):
            return [("untainted", "path is not derived from target-controlled data")]
        return [("open", "target-derived path %s is opened in %s without is_mapped_file_safe_to_open" % (show(c)[:80], f.split("::")[-1]))]

    for f in sorted({x.short for x in prog.bodies}):
        if is_derived(f) or f.endswith("::tests") or "::test::" in f:
            continue
        for b in prog.by_short.get(f, ()):
            o = None
            for bi, t in b.calls(lambda cv: (cv.short or "") in OPEN_CALLS or (cv.target or "") in OPEN_CALLS):
                if o is None:
                    o = taint.origin(b)
                n_total += 1
                args = o.call_args(bi)
                path_expr = args[0] if args else ("unit",)
                res = check(b, bi, path_expr, [], 0)
                k0 = (f, lastseg_(CalleeView(t["callee"]).short))
                seen_keys[k0] = seen_keys.get(k0, 0) + 1
                key = k0 + ("#%d" % seen_keys[k0],)
                bad = [m for v, m in res if v == "open"]
                if any(v == "guarded" for v, m in res):
                    n_guarded += 1
                ctx.check(not bad, rule, key, b.where(bi), "open of %s: %s" % (show(name_core(path_expr))[:60], "; ".join(sorted({m for v, m in res}))[:200]),
                          "; ".join(bad)[:300], nontrivial=any(v in ("guarded", "open") for v, m in res))
    ctx.floor(rule, "open call sites in the crate", n_total, 10)
    ctx.floor(rule, "opens of mapping names guarded by is_mapped_file_safe_to_open", n_guarded, 2)


def rule_dev_prefix(ctx, rule="C02/dev-prefix"):
    b = ctx.body(rule, SAFE)
    if b is None:
        return
    o = Origin(b)
    # all assignments to _0
    rets = []
    for bi, blk in enumerate(b.blocks):
        for si, st in enumerate(blk["stmts"]):
            if st["k"] == "assign" and st["p"]["l"] == 0 and not st["p"]["proj"]:
                v = o._rvalue(st["r"], (bi, si), 0)
                rets.append((bi, si, v))
    sw = [s for x, t in b.calls(lambda c: lastseg_(c.short) == "starts_with") for s in [o.call_args(x)]]
    ctx.floor(rule, "starts_with test", len(sw), 1)
    for a in sw:
        lit = [s for s in walk(a[1]) if s[0] == "str"]
        recv = a[0]
        ok = bool(lit) and lit[0][1].startswith("/dev/") and len(lit[0][1].rstrip("\x00")) == 5 and any(s[0] == "call" and lastseg_(s[1]) == "as_bytes" for s in walk(recv)) and any(s == ("param", 1) for s in walk(recv))
        ctx.check(ok, rule, "literal", b.where(0), "the name's bytes are tested against the literal prefix \"/dev/\"", "prefix test is starts_with(%s) on %s" % ([s[1] for s in lit], show(recv)[:80]))
    falses = [(bi, si) for bi, si, v in rets if is_const(v) and v[1] == 0]
    trues = [(bi, si) for bi, si, v in rets if is_const(v) and v[1] == 1]
    ctx.check(len(falses) == 1 and len(trues) >= 1 and len(falses) + len(trues) == len(rets), rule, "returns", b.where(0), "one `false` return and otherwise `true`", "returns are %s" % [show(v) for _, _, v in rets])
    for bi, si in falses:
        dnf = conditions(b, bi, origin=o, relevant=lambda a: a[0] == "call" and lastseg_(a[1]) == "starts_with")
        ok = bool(dnf) and all(any(v == 1 for (_, v) in c) for c in dnf)
        ctx.check(ok, rule, "false-iff-dev", b.where(bi, si), "`false` is returned exactly on the starts_with(\"/dev/\") branch", "`false` is not tied to the /dev/ prefix test")
    for bi, si in trues:
        dnf = conditions(b, bi, origin=o, relevant=lambda a: a[0] == "call" and lastseg_(a[1]) == "starts_with")
        ok = dnf is not None and all(not any(v == 1 for (_, v) in c) for c in dnf)
        ctx.check(ok, rule, "true-never-dev", b.where(bi, si), "`true` is never returned for a name with the /dev/ prefix", "`true` can be returned for a /dev/ name")
