"""C02 — dumping is total: returns, never panics or hangs, never opens /dev (structural clauses, E5)."""
import json, os
from engine.mir import CalleeView, norm
from engine.origin import Origin, strip, core, show, root, walk, nosite, is_const, alts
from engine.paths import Exits, must_pass, conditions, switch_atom, witness_path
from engine import taint as T

PROPERTY = "C02"
VERIF = os.path.dirname(os.path.dirname(os.path.abspath(__file__)))

ENTRIES = ["linux::minidump_writer::MinidumpWriter::dump"]


def is_derived(f):
    return ("_serde" in f or "serde::Serialize" in f or "as std::fmt::Debug>" in f or "as std::fmt::Display>" in f or "as std::error::Error>" in f
            or "as std::clone::Clone>" in f or "as std::convert::From<" in f and "::from" in f and "AuxvDumpInfo" not in f)


def ledger(ctx, taint, rule, scope=None):
    sinks = T.collect_sinks(taint, skip_fn=is_derived)
    if scope is not None:
        sinks = [s for s in sinks if scope(s.fn)]
    reviewed = load_reviewed()
    stats = {"total": 0, "const": 0, "untainted": 0, "guarded": 0, "reviewed": 0, "open": 0}
    seen = {}
    for s in sinks:
        stats["total"] += 1
        why = []
        lc = s.kind in ("Overflow:Add", "Overflow:Mul")
        ops_t = [taint.tainted(e, s.fn, why=why, len_clean=lc) for e in s.ops]
        base = (s.fn, s.kind, "|".join(T.canon_key(e) for e in s.ops))
        seen[base] = seen.get(base, 0) + 1
        key = base + ("#%d" % seen[base],)
        if all(is_const(core(e)) for e in s.ops) and s.kind.startswith(("Overflow", "BoundsCheck")):
            stats["const"] += 1
            continue
        if s.kind in ("Overflow:Shr", "Overflow:Shl") and is_const(core(s.ops[1])) and 0 <= core(s.ops[1])[1] < 64:
            stats["const"] += 1
            continue
        if s.kind.startswith("call:") and s.kind.split(":")[1] in T.CONST_ARG_OK and len(s.ops) > 1 and is_const(core(s.ops[1])) and core(s.ops[1])[1] > 0:
            stats["const"] += 1
            continue
        if not any(ops_t):
            stats["untainted"] += 1
            ctx.ok(rule, key, s.where, "%s: operands are not target/caller controlled" % s.desc[:160], nontrivial=False)
            continue
        g = False
        try:
            if s.kind == "Overflow:Sub":
                g = T.guarded_sub(s, taint)
            elif s.kind == "BoundsCheck":
                g = T.guarded_index(s, taint)
            elif s.kind in ("call:unwrap", "call:expect"):
                g = T.guarded_unwrap(s, taint)
        except Exception:
            g = False
        if g:
            stats["guarded"] += 1
            ctx.ok(rule, key, s.where, "%s: discharged by a dominating guard" % s.desc[:160])
            continue
        rk = "|".join(str(k) for k in key)
        if rk in reviewed:
            stats["reviewed"] += 1
            ctx.ok(rule, key, s.where, "%s: reviewed — %s" % (s.desc[:120], reviewed[rk]))
            continue
        stats["open"] += 1
        ctx.violated(rule, key, s.where, "tainted value reaches a panic site without a guard: %s  [tainted via %s]" % (s.desc[:200], "; ".join(sorted(set(why)))[:160]),
                     detail={"kind": s.kind, "ops": [show(e)[:300] for e in s.ops]})
    return stats


def load_reviewed():
    p = os.path.join(VERIF, "tables", "reviewed_panic_sites.json")
    if not os.path.exists(p):
        return {}
    with open(p) as f:
        return {e["key"]: e["reason"] for e in json.load(f)["sites"]}


def run(ctx):
    taint = T.Taint(ctx.prog, ENTRIES)
    ctx.analysed["reachable_functions"] = len(taint.reach)
    ctx.analysed["tainted_params"] = len(taint.params)
    ctx.analysed["taint_rounds"] = taint.rounds
    st = ledger(ctx, taint, "C02/panic-site")
    ctx.analysed["panic_sinks"] = st
