"""C01 — a successful dump is a structurally sound minidump (structural clauses).

Rules (DESIGN §4/C01): dir-count, stream-unique, count-array, index-bound, rva-origin,
pos-append.  `one-flush-owner` is C19/stale-field (run by rules.c19, re-exported here).
"""
from engine.mir import CalleeView, norm, AnchorMissing
from engine.origin import Origin, strip, core, nosite, show, walk, is_const, alts, field_of
from engine.paths import Exits, conditions, must_pass
from engine import lenalg as LA
from engine.summ import return_origins

PROPERTY = "C01"
EXPLANATION = ("Static rules on MIR: (dir-count) every success path of generate_dump emits exactly the declared number "
               "of directory entries; (stream-unique) their stream types are pairwise distinct constants; "
               "(count-array) each list stream's count header has the same abstract length as the array allocated "
               "immediately after it and the directory size is header+array; (index-bound) every typed-array slot "
               "write uses an index ranging over the allocated length (length algebra); (rva-origin) every stored "
               "RVA/location originates from a typed writer's location; (pos-append) position-derived RVAs are followed "
               "by the append they describe; (string-length) every string blob's u32 header is 2 * the number of UTF-16 units of the body "
               "array that directly follows it (same rule as C16/string).")
TRUSTED = ["scroll SizeWith/TryIntoCtx sizes of minidump-common records", "std iterator length semantics (enumerate/filter/count/len)"]
ASSUMPTIONS = ["size!(T) equals the on-disk record size (minidump-common)", "only the Linux x86_64 configuration is analysed; the mac writer shares DirSection/Buffer only"]

GEN = "linux::minidump_writer::MinidumpWriter::generate_dump"
W2F = "dir_section::DirSection::write_to_file"

LIST_STREAMS = [
    "linux::sections::thread_list_stream::write",
    "linux::sections::thread_names_stream::write",
    "linux::sections::memory_list_stream::write",
    "linux::sections::mappings::write",
    "linux::sections::memory_info_list_stream::write",
    "linux::sections::handle_data_stream::write",
]


# ---------------------------------------------------------------------------------- dir-count
def option_variant(e):
    e = strip(e) if e[0] != "some" else e
    if e[0] == "agg" and e[1].endswith("option::Option"):
        return e[2]
    return None


def rule_dir_count(ctx):
    R = "C01/dir-count"
    b = ctx.body(R, GEN)
    if b is None:
        return
    o = Origin(b)
    sites = {}
    for bi, t in b.calls(lambda c: c.is_(W2F)):
        args = o.call_args(bi)
        v = option_variant(args[2]) if len(args) > 2 else None
        sites[bi] = v
        if v is None:
            ctx.unproven(R, ("site", "flush#%d" % (len(sites))), b.where(bi),
                         "write_to_file argument is not a literal Some/None: %s" % show(args[2])[:200])
    n_some = sum(1 for v in sites.values() if v == "Some")
    n_none = sum(1 for v in sites.values() if v == "None")
    ctx.floor(R, "write_to_file(Some) call sites in generate_dump", n_some, 18)
    ctx.floor(R, "write_to_file(None) flushes in generate_dump", n_none, 1)
    cyc = b.in_cycle_blocks()
    for bi in sites:
        if bi in cyc:
            ctx.unproven(R, ("loop", "flush#%d" % (sorted(sites).index(bi) + 1)), b.where(bi), "directory entry emitted inside a loop: count is not a path constant")
    # declared count: argument of DirSection::new and header.stream_count
    declared = set()
    new_sites = list(b.calls(lambda c: c.is_("dir_section::DirSection::new")))
    ctx.floor(R, "DirSection::new call in generate_dump", len(new_sites), 1)
    for bi, t in new_sites:
        a = o.call_args(bi)
        declared.add(("index_length", core(a[1])))
    hdr = []
    for bi, blk in enumerate(b.blocks):
        for si, st in enumerate(blk["stmts"]):
            if st["k"] == "assign" and st["r"]["k"] == "agg" and st["r"].get("ak") == "adt" and norm(st["r"]["adt"]).endswith("MINIDUMP_HEADER"):
                e = o._rvalue(st["r"], (bi, si), 0)
                for fn, fe in e[3]:
                    if fn == "stream_count":
                        declared.add(("stream_count", core(fe)))
                        hdr.append((bi, si))
    ctx.floor(R, "MDRawHeader aggregate with stream_count", len(hdr), 1)
    vals = {v for _, v in declared}
    if len(vals) != 1 or not all(is_const(v) for v in vals):
        ctx.violated(R, "declared-agree", b.where(0),
                     "DirSection::new index_length and header.stream_count do not share one constant origin: %s" % sorted(show(v) for v in vals))
        return
    N = list(vals)[0][1]
    ctx.ok(R, "declared-agree", b.where(new_sites[0][0]) if new_sites else None,
           "index_length and stream_count both originate from the constant %d" % N)
    # path counts: forward dataflow of the set of possible counts (normal edges only)
    order = b.rpo(unwind=False)
    counts = {0: {0}}
    for x in order:
        cur = counts.get(x)
        if cur is None:
            continue
        add = 1 if sites.get(x) == "Some" else 0
        for s in b.succs(x, unwind=False):
            if (x, s) in set(b.back_edges()):
                continue
            # a call block's successor is reached only after the call returned
            nxt = {c + add for c in cur}
            counts.setdefault(s, set()).update(nxt)
    ex = Exits(b)
    okb = ex.ok_blocks()
    ctx.floor(R, "success returns of generate_dump", len(okb), 1)
    for ob in okb:
        cs = counts.get(ob, set())
        ctx.check(cs == {N}, R, ("paths", "ok-exit"), b.where(ob),
                  "every path to the success return emits exactly %d directory entries" % N,
                  "paths to the success return emit %s directory entries, declared %d" % (sorted(cs), N),
                  detail={"counts": sorted(cs), "declared": N})
    # error exits must never have emitted more than N either (would overwrite the first stream)
    worst = max((max(c) for c in counts.values() if c), default=0)
    ctx.check(worst <= N, R, ("paths", "max-any-exit"), b.where(0),
              "no path emits more than %d entries" % N, "some path emits %d entries > declared %d" % (worst, N))
    ctx.analysed["generate_dump_blocks"] = b.n
    return N


# ---------------------------------------------------------------------------------- stream-unique
def stream_types(prog, e, depth=0):
    """set of possible stream_type values of a MINIDUMP_DIRECTORY-valued origin expression"""
    if depth > 6:
        return {"unknown:depth"}
    k = e[0]
    if k in ("okval", "some", "conv", "try"):
        return stream_types(prog, e[1], depth)
    if k == "phi":
        s = set()
        for x in e[1]:
            s |= stream_types(prog, x, depth)
        return s
    if k == "agg" and e[1].endswith("MINIDUMP_DIRECTORY"):
        for fn, fe in e[3]:
            if fn == "stream_type":
                c = core(fe)
                if is_const(c):
                    return {c[1]}
                return {"unknown:" + show(c)[:60]}
    if k == "upd":
        if e[2] and e[2][0] == ("field", "stream_type"):
            c = core(e[3])
            return {c[1]} if is_const(c) else {"unknown:" + show(c)[:60]}
        return stream_types(prog, e[1], depth)
    if k == "call":
        name = e[1]
        last = name.split("::")[-1]
        if last == "default" and not e[2]:
            return {"default"}
        if last == "unwrap_or_default":
            return stream_types(prog, e[2][0], depth) | {"default"}
        if last == "map" and len(e[2]) == 2 and e[2][1][0] == "closure":
            outs = return_origins(prog, e[2][1][1])
            if outs:
                s = set()
                for x in outs:
                    s |= stream_types(prog, x, depth + 1)
                return s
        outs = return_origins(prog, name)
        if outs:
            s = set()
            for x in outs:
                s |= stream_types(prog, x, depth + 1)
            return s
    return {"unknown:" + show(e)[:80]}


def rule_stream_unique(ctx):
    R = "C01/stream-unique"
    b = ctx.body(R, GEN)
    if b is None:
        return
    o = Origin(b)
    seen = {}
    n = 0
    for bi, t in b.calls(lambda c: c.is_(W2F)):
        args = o.call_args(bi)
        if option_variant(args[2]) != "Some":
            continue
        payload = dict(args[2][3]).get("0")
        ts = stream_types(ctx.prog, payload)
        n += 1
        unk = [x for x in ts if isinstance(x, str) and x.startswith("unknown")]
        if unk:
            ctx.unproven(R, ("site", n), b.where(bi), "cannot resolve the stream type of this directory entry: %s" % unk)
            continue
        real = [x for x in ts if x != "default"]
        if len(real) != 1:
            ctx.violated(R, ("site", n), b.where(bi), "directory entry may carry %d different stream types %s" % (len(real), real))
            continue
        ty = real[0]
        if ty == 0:
            ctx.violated(R, ("type", ty), b.where(bi), "stream type 0 (unused) emitted as a real stream")
        elif ty in seen:
            ctx.violated(R, ("type", ty), b.where(bi), "stream type %#x emitted twice (also at %s)" % (ty, seen[ty]))
        else:
            seen[ty] = b.where(bi)
            ctx.ok(R, ("type", ty), b.where(bi), "entry %d carries stream type %#x%s" % (n, ty, " or the all-zero unused entry" if "default" in ts else ""))
    ctx.floor(R, "distinct stream types", len(seen), 18)


# ---------------------------------------------------------------------------------- count-array
ALLOC_HEADER = ("mem_writer::MemoryWriter::alloc_with_val",)
ALLOC_ARRAY = ("mem_writer::MemoryArrayWriter::alloc_array", "mem_writer::MemoryArrayWriter::alloc_from_array",
               "mem_writer::MemoryArrayWriter::alloc_from_iter")
COUNT_FIELDS = {"MINIDUMP_MEMORY_INFO_LIST": "number_of_entries", "MINIDUMP_HANDLE_DATA_STREAM": "number_of_descriptors"}


def buffer_mut_arg(t):
    return any(a["k"] in ("copy", "move") and a["p"]["ty"] == "&mut mem_writer::Buffer" for a in t["args"])


def rule_count_array(ctx, R="C01/count-array"):
    n_ok = 0
    for fn in LIST_STREAMS:
        b = ctx.body(R, fn)
        if b is None:
            continue
        key = fn.split("::")[-2]
        o = Origin(b)
        # returned dirent on success
        outs = return_origins(ctx.prog, fn) or []
        if not outs:
            ctx.unproven(R, (key, "ret"), b.where(0), "no success return found")
            continue
        hdr_sites = set()
        arr_sites = set()
        shape_ok = True
        for e in outs:
            # expect: [upd](agg MINIDUMP_DIRECTORY{location: call location(HDR)}, location.data_size := Add(.., call location(ARR).data_size))
            alts = list(strip(e)[1]) if strip(e)[0] == "phi" else [strip(e)]
            for alt in alts:
                base = alt
                upds = []
                while base[0] == "upd":
                    upds.append(base)
                    base = base[1]
                if not (base[0] == "agg" and base[1].endswith("MINIDUMP_DIRECTORY")):
                    ctx.unproven(R, (key, "dirent-shape"), b.where(0), "returned directory entry is not a MINIDUMP_DIRECTORY aggregate: %s" % show(alt)[:200])
                    shape_ok = False
                    continue
                loc = dict(base[3]).get("location")
                hc = strip(loc)
                if not (hc[0] == "call" and hc[1].endswith("MemoryWriter::location")):
                    ctx.violated(R, (key, "dir-location"), b.where(0), "directory location is not <count header>.location(): %s" % show(loc)[:200])
                    shape_ok = False
                    continue
                hw = strip(hc[2][0])
                if hw[0] == "call":
                    hdr_sites.add(hw[3][1])
                if len(upds) > 1:
                    ctx.violated(R, (key, "dir-size"), b.where(0), "directory size is adjusted %d times" % len(upds))
                    shape_ok = False
                for u in upds:
                    path, val = u[2], u[3]
                    if path != (("field", "location"), ("field", "data_size")):
                        ctx.violated(R, (key, "dir-size"), b.where(0), "unexpected update of the directory entry at %s" % (path,))
                        shape_ok = False
                        continue
                    # val = Add(hdrloc.data_size, ARRloc.data_size)
                    v = strip(val)
                    okv = False
                    if v[0] == "bin" and v[1] == "Add":
                        terms = [strip(v[2]), strip(v[3])]
                        arr = [t for t in terms if t[0] == "field" and t[2] == "data_size" and strip(t[1])[0] == "call" and strip(t[1])[1].endswith("MemoryArrayWriter::location")]
                        own = [t for t in terms if t[0] == "field" and t[2] == "data_size" and strip(t[1])[0] == "call" and strip(t[1])[1].endswith("MemoryWriter::location")]
                        if len(arr) == 1 and len(own) == 1:
                            aw = strip(strip(arr[0][1])[2][0])
                            if aw[0] == "call":
                                arr_sites.add(aw[3][1])
                                okv = True
                    if not okv:
                        ctx.violated(R, (key, "dir-size"), b.where(0), "directory size is not header size + array.location().data_size: %s" % show(val)[:200])
                        shape_ok = False
        if not shape_ok:
            continue
        if len(hdr_sites) != 1 or len(arr_sites) != 1:
            ctx.unproven(R, (key, "sites"), b.where(0), "could not identify one header allocation and one array allocation (%s / %s)" % (hdr_sites, arr_sites))
            continue
        hb, ab = list(hdr_sites)[0], list(arr_sites)[0]
        ht, at = b.term(hb), b.term(ab)
        hcv, acv = CalleeView(ht["callee"]), CalleeView(at["callee"])
        if not hcv.is_(*ALLOC_HEADER) or not acv.is_(*ALLOC_ARRAY):
            ctx.unproven(R, (key, "alloc-kind"), b.where(hb), "header/array not allocated by the typed writers (%s / %s)" % (hcv.short, acv.short))
            continue
        # count written in header
        hv = o.call_args(hb)[1]
        hv_s = strip(hv)
        if hv_s[0] == "agg":
            fld = COUNT_FIELDS.get(hv_s[1].split("::")[-1])
            cnt = dict(hv_s[3]).get(fld) if fld else None
            if cnt is None:
                ctx.unproven(R, (key, "count-field"), b.where(hb), "unknown list header type %s" % hv_s[1])
                continue
        else:
            cnt = hv
        lc = LA.alen(cnt, ctx.prog)
        aargs = o.call_args(ab)
        if acv.short.endswith("alloc_array"):
            la = LA.alen(aargs[1], ctx.prog)
        elif acv.short.endswith("alloc_from_array"):
            la = LA.alen_coll(aargs[1], ctx.prog)
        else:
            la = LA.alen_iter(aargs[1], ctx.prog)
        same = (lc == la) and lc[0] != "Unknown"
        ctx.check(same, R, (key, "count=len"), b.where(ab),
                  "count header %s and array length %s are the same abstract length" % (LA.show_len(lc), LA.show_len(la)),
                  "count header is %s but the array has %s elements" % (LA.show_len(lc), LA.show_len(la)),
                  unproven=(lc[0] == "Unknown" or la[0] == "Unknown"))
        # the counted collection is not grown between the two sites
        base_locals = set()
        for s in walk(cnt):
            pass
        between = (b.reachable_from(hb, unwind=False) & can_reach(b, ab)) - {hb, ab}
        offenders = []
        for x in between:
            t = b.term(x)
            if t["k"] == "call" and buffer_mut_arg(t):
                offenders.append(b.where(x))
        # header and array allocation must be adjacent in the buffer
        if not b.dominates(hb, ab):
            ctx.violated(R, (key, "adjacent"), b.where(ab), "array allocation is not dominated by the header allocation")
        else:
            ctx.check(not offenders, R, (key, "adjacent"), b.where(ab),
                      "no buffer-growing call between count header and its array",
                      "buffer-growing call(s) between count header and array: %s" % offenders)
        # mutation of the counted collection between count and array
        # ... from the moment the count is READ: a `len()` hoisted above the statements that still grow the collection (a second loop of
        # pushes) announces fewer records than are written although nothing happens between the two allocations
        ev_sites = sorted({s_[3][1] for s_ in walk(cnt) if s_[0] == "call" and s_[1].split("::")[-1] in ("len", "count") and len(s_) > 3 and s_[3]})
        mut = sorted({m for st_ in (ev_sites or [hb]) for m in mutated_between(b, o, cnt, st_, ab)} | set(mutated_between(b, o, cnt, hb, ab)))
        ctx.check(not mut, R, (key, "stable"), b.where(ab), "counted collection is not mutated between the read of its length (%s) and the array" % ("block %s" % ev_sites if ev_sites else "at the header"),
                  "counted collection may be mutated between the read of its length and the array at %s" % mut)
        n_ok += 1
    ctx.floor(R, "list streams analysed", n_ok, 6)


def can_reach(b, target):
    seen = set()
    st = [target]
    while st:
        x = st.pop()
        if x in seen:
            continue
        seen.add(x)
        for p in b.preds.get(x, ()):
            if p not in seen:
                st.append(p)
    return seen


def mutated_between(b, o, cnt_expr, hb, ab):
    """sites between hb and ab that take a &mut borrow of a local the count was computed from"""
    # locals read by the count computation: find `len`-like call in hb's argument chain
    roots = set()
    for s in walk(cnt_expr):
        if s[0] == "param":
            roots.add(("param", s[1]))
    # conservative and simple: look for &mut borrows of user locals of Vec type between the sites
    between = (b.reachable_from(hb, unwind=False) & can_reach(b, ab)) - {ab}
    out = []
    for x in between:
        for si, st in enumerate(b.blocks[x]["stmts"]):
            if st["k"] == "assign" and st["r"]["k"] == "ref" and st["r"]["bk"] == "mut":
                ty = st["r"]["p"]["ty"]
                if ty.startswith("std::vec::Vec<") or ty.startswith("alloc::vec::Vec<"):
                    out.append(b.where(x, si))
    return out


# ---------------------------------------------------------------------------------- index-bound
SET_AT = "mem_writer::MemoryArrayWriter::set_value_at"


def closure_pred_equiv_guard(ctx, b, o, site_block, loop_header, pred):
    return False


def index_bound_sites(ctx, R, only_fn=None):
    """evaluate every set_value_at site in the crate (or in one function)"""
    prog = ctx.prog
    n = 0
    for b in prog.bodies:
        if only_fn and b.short != only_fn:
            continue
        sites = list(b.calls(lambda c: c.is_(SET_AT)))
        if not sites:
            continue
        o = Origin(b)
        for bi, t in sites:
            n += 1
            args = o.call_args(bi)
            writer, idx = strip(args[0]), args[3]
            key = (b.short.replace("linux::", ""), n if only_fn is None else "site")
            key = (b.short, "set_value_at#%d" % (sum(1 for x, _ in sites if x <= bi)))
            where = b.where(bi)
            if b.short == "dir_section::DirSection::dump_dir_entry":
                # directory slot index = curr_idx; bounded by C01/dir-count (entries emitted == declared)
                ok = strip(idx)[0] == "field" and strip(idx)[2] == "curr_idx"
                ctx.check(ok, R, key, where, "directory slot index is DirSection.curr_idx (bounded by C01/dir-count)",
                          "directory slot index is not curr_idx: %s" % show(idx)[:120])
                continue
            if not (writer[0] == "call" and writer[1].endswith("MemoryArrayWriter::alloc_array")):
                ctx.unproven(R, key, where, "array writer does not originate from alloc_array in this function: %s" % show(writer)[:160])
                continue
            alloc_n = LA.alen(writer[2][1], prog)
            form = LA.index_form(idx, prog)
            if form[0] == "EnumIdx":
                L = form[1]
                if L == alloc_n and L[0] != "Unknown":
                    ctx.ok(R, key, where, "index enumerates %s = allocated length" % LA.show_len(L))
                elif alloc_n[0] == "CountFiltered" and alloc_n[1] == L:
                    ctx.violated(R, key, where,
                                 "index enumerates ALL %s elements but the array was allocated for the filtered count %s: "
                                 "entries land beyond / are misplaced in the array whenever the filter drops an element" % (
                                     LA.show_len(L), LA.show_len(alloc_n)),
                                 detail={"index": LA.show_len(L), "allocated": LA.show_len(alloc_n)})
                else:
                    ctx.unproven(R, key, where, "index ranges over %s, array allocated with %s" % (LA.show_len(L), LA.show_len(alloc_n)))
                continue
            # counter idiom
            cf = counter_form(ctx, b, o, bi, t, alloc_n)
            if cf is True:
                ctx.ok(R, key, where, "index is a counter advanced once per written element under the same predicate as the allocated count %s" % LA.show_len(alloc_n))
            elif isinstance(cf, tuple) and cf and cf[0] == "VIOLATED":
                ctx.violated(R, key, where, cf[1])
            else:
                ctx.unproven(R, key, where, "index %s not provably within allocated length %s (%s)" % (form, LA.show_len(alloc_n), cf))
    return n


def counter_form(ctx, b, o, bi, t, alloc_n):
    """Counter(L) idiom: the index is a user local initialised to 0 outside the loop and incremented by
    exactly 1 on every path from the write back to the loop header, nowhere else; the loop iterates the
    collection the array was counted from and the write is guarded by the count's filter predicate."""
    a = t["args"][3]
    if a["k"] not in ("copy", "move"):
        return "index operand is a constant"
    # find the user local: chase copies of temporaries
    l = a["p"]["l"]
    hops = 0
    while hops < 4:
        ds = [d for d in b.defs.get(l, ()) if d[2] == "assign"]
        if len(ds) == 1 and ds[0][3]["r"]["k"] == "use" and ds[0][3]["r"]["o"]["k"] in ("copy", "move") and not ds[0][3]["r"]["o"]["p"]["proj"]:
            l = ds[0][3]["r"]["o"]["p"]["l"]
            hops += 1
        else:
            break
    defs = [d for d in b.defs.get(l, ()) if d[2] in ("assign", "call")]
    loops = b.loops()
    inner = [h for h, body in loops.items() if bi in body]
    if not inner:
        return "write is not inside a loop"
    h = min(inner, key=lambda h: len(loops[h]))
    lb = loops[h]
    init = [d for d in defs if d[0] not in lb]
    incs = [d for d in defs if d[0] in lb]
    if len(init) != 1 or init[0][2] != "assign":
        return "counter has %d initialisations outside the loop" % len(init)
    iv = o._rvalue(init[0][3]["r"], (init[0][0], init[0][1]), 0)
    if not (is_const(iv) and iv[1] == 0):
        return "counter not initialised to 0"
    if len(incs) != 1:
        return "counter assigned %d times inside the loop" % len(incs)
    inc = incs[0]
    ie = o._rvalue(inc[3]["r"], (inc[0], inc[1]), 0)
    # ie should be Add(<counter>, 1)
    if not (ie[0] == "bin" and ie[1] == "Add" and is_const(ie[3]) and ie[3][1] == 1):
        return "counter update is not +1: %s" % show(ie)[:80]
    # increment happens on every path from the write to the loop header and only after a write
    from engine.paths import must_pass
    w = must_pass(b, b.term(bi)["t"], {h}, {inc[0]})
    if w is not None:
        return "a path from the write back to the loop head skips the increment"
    # no path from loop header to the increment avoiding the write
    w2 = must_pass(b, h, {inc[0]}, {bi})
    if w2 is not None:
        if alloc_n[0] == "CountFiltered":
            return ("VIOLATED", "the slot counter advances also for elements that are NOT written (it counts positions in the walked list) while the array was allocated for the filtered count %s: "
                    "every skipped element shifts the later entries by one slot and the last ones land behind the array" % LA.show_len(alloc_n))
        return "the counter can be incremented without a write"
    # loop iterates over the counted collection and write guard == count predicate
    if alloc_n[0] == "CountFiltered":
        L, pred = alloc_n[1], alloc_n[2]
        item = loop_item(b, o, h)
        if item is None:
            return "loop is not an iterator loop"
        itexpr, itlen = item
        if itlen != L:
            return "loop iterates %s, count was over %s" % (LA.show_len(itlen), LA.show_len(L))
        # guard of the write relative to loop header
        dnf = conditions(b, bi, relevant=None, entry=h, origin=o)
        if dnf is None:
            return "too many paths"
        want = guard_from_pred(pred)
        if want is None:
            return "count predicate not recognised: %s" % LA.show_pred(pred)
        fld, val = want
        elem = ("some", itexpr)

        def lit_ok(atom, v):
            return (atom[0] == "discr" and strip_elem(atom[1]) == ("field", "ELEM", fld) and v == val)

        def strip_elem(e):
            # replace the loop element expression by ELEM
            if e == elem:
                return "ELEM"
            if e[0] == "field":
                return ("field", strip_elem(e[1]), e[2])
            return e
        if not all(any(lit_ok(a_, v_) for a_, v_ in c) for c in dnf) or not dnf:
            return "write is not guarded by the count predicate (%s is Some)" % fld
        # and every element satisfying the predicate reaches the write unless an error return happens: accepted
        return True
    if alloc_n[0] == "LenOf":
        item = loop_item(b, o, h)
        if item and item[1] == alloc_n:
            return True
    if alloc_n[0] == "CountLeadingRun":
        return ("VIOLATED", "the array is allocated for the LEADING RUN of elements that satisfy %s (take_while) but a slot is written for every element that does: "
                "one rejected element before an accepted one and the later entries are written behind the array" % LA.show_pred(alloc_n[2]))
    return "allocated length form %s not supported by the counter idiom" % (alloc_n[0],)


def loop_item(b, o, header):
    """(next-call expr, abstract length) for an iterator-driven loop with header `header`"""
    for x in b.loops()[header]:
        t = b.term(x)
        if t["k"] == "call" and CalleeView(t["callee"]).short == "std::iter::Iterator::next":
            e = o.call_expr(x)
            it = strip(e[2][0])
            return e, LA.alen_iter(it, b.prog)
    return None


def guard_from_pred(pred):
    """pred -> (field name, discriminant value) for predicates of the form |t| t.<field>.is_some()"""
    if pred[0] != "pred" or len(pred[1]) != 1:
        return None
    e = list(pred[1])[0]
    if e[0] == "call" and e[1].endswith("Option::is_some") and e[2]:
        x = e[2][0]
        if x[0] == "field" and x[1][0] == "param":
            return (x[2], 1)
    return None


def rule_index_bound(ctx):
    R = "C01/index-bound"
    n = index_bound_sites(ctx, R)
    ctx.floor(R, "set_value_at call sites", n, 6)


# ---------------------------------------------------------------------------------- rva-origin
RVA_FIELDS = {
    "MINIDUMP_THREAD": ["thread_context"],
    "MINIDUMP_MEMORY_DESCRIPTOR": ["memory"],
    "MINIDUMP_MODULE": ["module_name_rva", "cv_record"],
    "MINIDUMP_THREAD_NAME": ["thread_name_rva"],
    "MINIDUMP_HANDLE_DESCRIPTOR": ["object_name_rva"],
    "MINIDUMP_SYSTEM_INFO": ["csd_version_rva"],
    "MINIDUMP_EXCEPTION_STREAM": ["thread_context"],
    "MINIDUMP_DIRECTORY": ["location"],
    "MINIDUMP_HEADER": ["stream_directory_rva"],
    "MINIDUMP_LOCATION_DESCRIPTOR": ["rva"],
    "LINK_MAP_64": ["name"], "LINK_MAP_32": ["name"],
    "DSO_DEBUG_64": ["map"], "DSO_DEBUG_32": ["map"],
}
LOCATION_CALLS = ("MemoryWriter::location", "MemoryArrayWriter::location", "MemoryArrayWriter::location_of_index",
                  "mem_writer::write_string_to_location", "DirSection::position", "Buffer::position")


def rva_ok(e, adt_field, depth=0):
    """is the origin expression an accepted source for an RVA/location field? returns (ok, why)"""
    e = strip(e)
    k = e[0]
    if k == "phi":
        for x in e[1]:
            ok, why = rva_ok(x, adt_field, depth + 1)
            if not ok:
                return ok, why
        return True, "all alternatives"
    if k == "cast":
        return rva_ok(e[1], adt_field, depth + 1)
    if k == "const":
        if e[1] == 0:
            return True, "zero"
        if adt_field[1] == "map" and e[1] in (0xFFFFFFFF, -1):
            return True, "u32::MAX (no link map)"
        return False, "non-zero constant %s" % (e[1],)
    if k == "call":
        nm = e[1]
        if any(nm.endswith(s) for s in LOCATION_CALLS):
            return True, nm.split("::")[-1]
        if nm.endswith("::default") and not e[2]:
            return True, "Default"
        if nm.endswith("unwrap_or_default") or nm.endswith("Result::map") or nm.endswith("Result::or_else"):
            return True, "combinator over a location-returning call"
        if nm.endswith("MinidumpWriter::write_file") or nm.endswith("minidump_writer::write_soft_errors"):
            return True, "write_file/write_soft_errors return section.location()"
        if nm.endswith("write_dso_debug_stream"):
            return True, "dso dirent"
        return False, "call %s" % nm
    if k in ("field", "variant", "index"):
        # copies of location-typed places: x.location / x.rva / x.position / payload of CrashingThreadContext / thread.stack
        names = []
        x = e
        while x[0] in ("field", "variant", "index", "some", "okval"):
            if x[0] == "field":
                names.append(x[2])
            x = x[1]
        if x[0] == "call":
            ok, why = rva_ok(x, adt_field, depth + 1)
            if ok:
                return True, "projection of " + why
        if names and names[0] in ("rva", "position", "location", "memory", "thread_context", "stack", "0", "1", "cv_record", "module_name_rva"):
            return True, "copy of a location-typed place .%s" % ".".join(reversed(names))
        return False, "field read %s" % show(e)[:80]
    if k == "agg" and e[1].endswith("MINIDUMP_LOCATION_DESCRIPTOR"):
        rv = dict(e[3]).get("rva")
        return rva_ok(rv, ("MINIDUMP_LOCATION_DESCRIPTOR", "rva"), depth + 1)
    if k == "agg" and e[1].endswith("MINIDUMP_MEMORY_DESCRIPTOR"):
        return rva_ok(dict(e[3]).get("memory"), adt_field, depth + 1)
    if k == "upd":
        # base struct with some field updated: the RVA part is whichever applies
        ok1, why1 = rva_ok(e[1], adt_field, depth + 1)
        path = e[2]
        if path and path[-1] == ("field", "data_size"):
            return ok1, why1
        ok2, why2 = rva_ok(e[3], adt_field, depth + 1)
        return (ok1 and ok2), why1 + " / " + why2
    if k == "bin":
        return False, "arithmetic on an RVA: %s" % show(e)[:100]
    if k == "param":
        return True, "parameter (checked at the caller's store)"
    if k in ("loop",):
        return True, "loop-carried"
    return False, "unrecognised origin %s" % show(e)[:100]


def rule_rva_origin(ctx):
    R = "C01/rva-origin"
    n = 0
    per = {}
    for b in ctx.prog.bodies:
        if b.short.startswith("mem_writer::"):
            continue  # the typed writers themselves: their layout arithmetic is C16/slot-siblings
        o = None
        for bi, blk in enumerate(b.blocks):
            for si, st in enumerate(blk["stmts"]):
                if st["k"] != "assign":
                    continue
                r = st["r"]
                stores = []
                if r["k"] == "agg" and r.get("ak") == "adt":
                    an = norm(r["adt"]).split("::")[-1]
                    if an in RVA_FIELDS:
                        fs = r.get("fields") or []
                        for fn, op in zip(fs, r["ops"]):
                            if fn in RVA_FIELDS[an]:
                                stores.append((an, fn, ("op", op)))
                # direct field stores  x.f = v
                p = st["p"]
                if p["proj"]:
                    last = p["proj"][-1]
                    if last["k"] == "field" and last.get("adt"):
                        an = norm(last["adt"]).split("::")[-1]
                        if an in RVA_FIELDS and last["n"] in RVA_FIELDS[an]:
                            stores.append((an, last["n"], ("rv", r)))
                for an, fn, src in stores:
                    if o is None:
                        o = Origin(b)
                    e = o.operand(src[1], (bi, si)) if src[0] == "op" else o._rvalue(src[1], (bi, si), 0)
                    ok, why = rva_ok(e, (an, fn))
                    n += 1
                    k = (b.short, "%s.%s" % (an, fn))
                    per[k] = per.get(k, 0) + 1
                    key = (b.short, "%s.%s#%d" % (an, fn, per[k]))
                    ctx.check(ok, R, key, b.where(bi, si), "%s.%s <- %s" % (an, fn, why),
                              "%s.%s is stored from a value that is not a typed writer's location: %s (%s)" % (an, fn, why, show(e)[:160]))
    ctx.floor(R, "stores into RVA/location fields", n, 14)


# ---------------------------------------------------------------------------------- pos-append
HARD_WRITERS = ("thread_list_stream::write", "sections::mappings::write", "app_memory::write", "memory_list_stream::write", "exception_stream::write",
                "systeminfo_stream::write", "memory_info_list_stream::write")


def rule_hard_streams(ctx, R, only=None):
    """(registered under the properties that need the stream to BE there: C04/C05/C06/C20 thread list, C05 exception, C07 memory, C08
    modules, C18 system and memory info — not under C01, for which an unused directory entry is still a sound dump.)
    The streams a reader cannot do without are all-or-nothing.  generate_dump returns Ok only on paths where each
    of the core stream writers (thread list, modules, application memory, memory list, exception, system info, memory info) returned Ok;
    none of their failures is survived (demoted to a soft error or a default directory entry), which would hand out a "successful" dump
    without threads, or with an exception record that points at nothing."""
    b = ctx.body(R, "linux::minidump_writer::MinidumpWriter::generate_dump")
    if b is None:
        return
    o = Origin(b)
    oks = sorted(Exits(b).ok_blocks())
    n = 0
    for w in HARD_WRITERS:
        if only and w not in only:
            continue
        calls = list(b.calls(lambda c: (c.short or "").endswith(w)))
        if len(calls) != 1:
            ctx.violated(R, ("anchor", w), b.where(0), "anchor lost: %d calls of %s in generate_dump (expected 1)" % (len(calls), w))
            continue
        n += 1
        good = bool(oks)
        for ob in oks:
            dnf = conditions(b, ob, origin=o, relevant=lambda a: a[0] == "discr" and any(q[0] == "call" and q[1].endswith(w) for q in walk(a)) and not any(q[0] == "call" and q[1].endswith("write_to_file") for q in walk(a)))
            good = good and bool(dnf) and all(any(v == 0 for (a, v) in c) for c in dnf)
        ctx.check(good, R, ("hard", w.split("::")[-2]), b.where(calls[0][0]), "generate_dump succeeds only if %s returned Ok" % w,
                  "generate_dump can return Ok although %s failed: its error is survived, and the dump reports success without that stream (and with whatever depended on it unset)" % w)
    ctx.floor(R, "core stream writers in generate_dump", n, len(only) if only else len(HARD_WRITERS))


def rule_pos_append(ctx, R="C01/pos-append"):
    b = ctx.body(R, "linux::sections::thread_list_stream::fill_thread_stack")
    if b is None:
        return
    o = Origin(b)
    n = 0
    # stack_location = MDLocationDescriptor{ data_size: len(bytes), rva: buffer.position() }
    for bi, blk in enumerate(b.blocks):
        for si, st in enumerate(blk["stmts"]):
            if st["k"] == "assign" and st["r"]["k"] == "agg" and st["r"].get("ak") == "adt" and norm(st["r"]["adt"]).endswith("MINIDUMP_LOCATION_DESCRIPTOR"):
                e = o._rvalue(st["r"], (bi, si), 0)
                d = dict(e[3])
                rva, ds = core(d["rva"]), core(d["data_size"])
                if not (rva[0] == "call" and rva[1].endswith("Buffer::position")):
                    continue
                n += 1
                pos_b = rva[3][1]
                # next buffer-growing call after position() on every path must be write_all(bytes) with len(bytes) == data_size
                frontier = first_buffer_growth_after(b, pos_b)
                good = True
                msgs = []
                for fb in frontier:
                    t = b.term(fb)
                    cv = CalleeView(t["callee"])
                    if not cv.is_("mem_writer::Buffer::write_all"):
                        good = False
                        msgs.append("%s grows the buffer first (%s)" % (cv.short, b.where(fb)))
                        continue
                    bytes_e = o.call_args(fb)[1]
                    lb = LA.alen_coll(bytes_e, ctx.prog)
                    ld = LA.alen(ds, ctx.prog)
                    if lb != ld:
                        good = False
                        msgs.append("descriptor size %s but appended %s" % (LA.show_len(ld), LA.show_len(lb)))
                if not frontier:
                    good = False
                    msgs.append("no append follows the recorded position")
                else:
                    # ... and no success return in between: a descriptor whose bytes are never appended names whatever comes next
                    ex_ = Exits(b)
                    for ob in ex_.ok_blocks():
                        if must_pass(b, pos_b, {ob}, set(frontier)) is not None:
                            good = False
                            msgs.append("a success return (%s) is reachable after the position was recorded without the bytes having been appended" % b.where(ob))
                            break
                ctx.check(good, R, (b.short, "position-rva#%d" % n), b.where(bi, si),
                          "RVA taken from Buffer::position() is followed on every path by the append of exactly the described bytes",
                          "; ".join(msgs))
    ctx.floor(R, "position-derived location descriptors in fill_thread_stack", n, 1)
    # ... which names the right bytes only if the append puts them AT the recorded position: position() is the image length and
    # write_all changes the image by appending the caller's bytes and in no other way (no padding, no reservation ahead of them)
    pb = ctx.body(R, "mem_writer::Buffer::position")
    if pb is not None:
        op = Origin(pb)
        rets = [core(op._rvalue(st["r"], (bi, si), 0)) for bi, blk in enumerate(pb.blocks) for si, st in enumerate(blk["stmts"])
                if st["k"] == "assign" and st["p"]["l"] == 0 and not st["p"]["proj"]]
        ok = len(rets) == 1 and rets[0][0] == "call" and rets[0][1] == "std::vec::Vec::len" and strip(rets[0][2][0]) == ("field", ("param", 1), "inner")
        ctx.check(ok, R, ("position", "is-image-length"), pb.where(0), "Buffer::position() is the length of the image", "Buffer::position() returns %s" % [show(r)[:80] for r in rets])
    from rules import c16 as _c16w
    _c16w.write_all_only_appends(ctx, R, ("write_all", "appends-at-position"))


def first_buffer_growth_after(b, start):
    """blocks containing the first call with a &mut Buffer argument on each path after `start`"""
    out = set()
    seen = set()
    st = list(b.succs(start, unwind=False))
    while st:
        x = st.pop()
        if x in seen:
            continue
        seen.add(x)
        t = b.term(x)
        if t["k"] == "call" and buffer_mut_arg(t):
            out.add(x)
            continue
        st.extend(b.succs(x, unwind=False))
    return out


# ---------------------------------------------------------------------------------- size-origin
def rule_size_origin(ctx, R="C01/size-origin"):
    """every memory descriptor that is emitted (pushed to memory_blocks) carries a location whose size is the size of
    the object actually written: a typed writer's location() as a whole, or (position, len(appended bytes))"""
    from engine.origin import field_of, alts
    n = 0
    for b in ctx.prog.bodies:
        pushes = list(b.calls(lambda c: c.short == "std::vec::Vec::push"))
        if not pushes:
            continue
        o = Origin(b)
        k = 0
        for bi, t in pushes:
            a = o.call_args(bi)
            recv = strip(a[0])
            if not (recv[0] == "field" and recv[2] == "memory_blocks"):
                continue
            n += 1
            k += 1
            mem = field_of(a[1], "memory")
            ok = mem is not None
            why = ""
            for m in (alts(mem) if mem is not None else []):
                m = strip(m)
                if m[0] == "call" and (m[1].endswith("MemoryArrayWriter::location") or m[1].endswith("MemoryWriter::location")):
                    continue
                if m[0] == "agg" and m[1].endswith("MINIDUMP_LOCATION_DESCRIPTOR"):
                    d = dict(m[3])
                    ds, rva = core(d["data_size"]), core(d["rva"])
                    if ds[0] == "call" and ds[1].split("::")[-1] == "len" and rva[0] == "call" and rva[1].endswith("Buffer::position"):
                        continue
                ok = False
                why = show(m)[:160]
            ctx.check(ok, R, (b.short, "memory_blocks.push#%d" % k), b.where(bi),
                      "the emitted descriptor's location is a typed writer's location() (rva and size of what was written) or (position, len(appended bytes))",
                      "the emitted memory descriptor's rva/size are not taken together from the object that was written: %s" % why)
    ctx.floor(R, "memory descriptors emitted", n, 3)


def rule_fresh_record(ctx, R="C01/fresh-record"):
    """a record written inside a loop is built in that iteration: its origin has no loop-carried part.  A record hoisted out of
    the loop and patched per iteration keeps whatever the patching forgets (e.g. the previous thread's stack size for a thread that
    gets no stack), and then describes bytes that belong to another object"""
    n = 0
    for b in ctx.prog.bodies:
        if not (b.short.startswith("linux::sections::") or b.short.startswith("linux::dso_debug") or b.short.startswith("dir_section")):
            continue
        loops = b.loops()
        if not loops:
            continue
        o = None
        for bi, t in b.calls(lambda c: c.is_(SET_AT) or (c.short or "").endswith("Vec::push")):
            if not any(bi in body for body in loops.values()):
                continue
            o = o or Origin(b)
            a = o.call_args(bi)
            val = a[2] if CalleeView(t["callee"]).is_(SET_AT) else a[1]
            if not any(isinstance(x, tuple) and x and x[0] == "agg" for x in walk(val)):
                continue   # not a record (a plain number / location pushed to a list)
            n += 1
            # a loop-carried RECORD: the loop placeholder is the base that fields are patched into (loop(..){f := v}), or an alternative of the
            # value itself — a loop-carried address or counter inside an argument of a call that produces the record is fine
            def alts_(e):
                e = strip(e)
                if e[0] == "phi":
                    for y in e[1]:
                        yield from alts_(y)
                else:
                    yield e
            carried = []
            for alt in alts_(val):
                base = alt
                while isinstance(base, tuple) and base and base[0] == "upd":
                    base = strip(base[1])
                    if base[0] == "phi":
                        for z in alts_(base):
                            zz = z
                            while zz[0] == "upd":
                                zz = strip(zz[1])
                            if zz[0] == "loop":
                                carried.append(zz)
                if isinstance(base, tuple) and base and base[0] == "loop":
                    carried.append(base)
            ctx.check(not carried, R, (b.short.split("::")[-2] + "::" + b.short.split("::")[-1], "#%d" % n), b.where(bi),
                      "the record written in this loop is constructed in the same iteration",
                      "the record written in this loop carries state over from the previous iteration (it is patched, not rebuilt): %s" % show(val)[:200])
    ctx.floor(R, "records written inside loops", n, 4)


def rule_every_slot_filled(ctx, R="C01/every-slot-filled"):
    """an array allocated for n elements and filled by a loop over the n source elements gets EVERY slot written: each iteration that does
    not return an error reaches the set_value_at for its enumerated index.  A skipped iteration leaves an all-zero record in the stream —
    offset 0, i.e. a 'name' or 'stack' that overlaps the header"""
    n = 0
    for b in ctx.prog.bodies:
        if not (b.short.startswith("linux::sections::") or b.short.startswith("linux::dso_debug") or b.short.startswith("mem_writer::")):
            continue
        loops = b.loops()
        if not loops:
            continue
        o = None
        for bi, t in b.calls(lambda c: c.is_(SET_AT)):
            inner = [h for h, body in loops.items() if bi in body]
            if not inner:
                continue
            o = o or Origin(b)
            idx = strip(o.call_args(bi)[3])
            if not (idx[0] == "field" and idx[2] == "0" and any(q[0] == "call" and q[1].split("::")[-1] == "enumerate" for q in walk(idx))):
                continue     # counter idiom (only matching elements get a slot) is decided by index-bound
            h = max(inner, key=lambda x: len(loops[x]))
            # the loop body: successor of the iterator's Some arm
            nxt = [x for x in loops[h] if b.term(x)["k"] == "call" and (CalleeView(b.term(x)["callee"]).short or "").split("::")[-1] == "next" and all(b.dominates(x, l) for (l, hh) in b.back_edges() if hh == h)]
            if not nxt:
                continue
            sw = b.term(nxt[0])["t"]
            entry = None
            for (tgt, lab) in b.succ_edges(sw):
                if lab[0] == "sw" and lab[1] == 1:
                    entry = tgt
            if entry is None:
                continue
            n += 1
            w = must_pass(b, entry, {h}, {bi})
            ctx.check(w is None, R, (b.short.split("::")[-2] + "::" + b.short.split("::")[-1], "#%d" % n), b.where(bi),
                      "every iteration that continues writes its slot (no element of the allocated array is left zero)",
                      "an iteration can go on to the next element without writing its slot: the array keeps an all-zero record whose offsets point at the header",
                      detail={"path": w})
    ctx.floor(R, "enumerated fill loops", n, 3)


STREAM_WRITERS = {
    "thread_list_stream::write": 1, "mappings::write": 1, "app_memory::write": 1, "memory_list_stream::write": 1, "exception_stream::write": 1,
    "systeminfo_stream::write": 1, "memory_info_list_stream::write": 1, "MinidumpWriter::write_file": 8, "dso_debug::write_dso_debug_stream": 1,
    "thread_names_stream::write": 1, "handle_data_stream::write": 1, "minidump_writer::write_soft_errors": 1,
}


def rule_stream_attempted(ctx, R="C01/every-stream-attempted", only=None):
    """no stream is dropped for a reason the property does not name: every section writer is called on EVERY success path of
    generate_dump (a writer may fail softly, but it is never skipped under an option, a size test or an earlier outcome)"""
    b = ctx.body(R, GEN)
    if b is None:
        return
    ex = Exits(b)
    oks = ex.ok_blocks()
    for suffix, count in sorted(STREAM_WRITERS.items()):
        if only is not None and suffix not in only:
            continue
        calls = [bi for bi, t in b.calls(lambda c: (c.short or "").endswith(suffix) or (c.target or "").endswith(suffix))]
        ctx.floor(R, "calls of %s in generate_dump" % suffix, len(calls), count)
        skipped = [bi for bi in calls if any(must_pass(b, 0, {ob}, {bi}) is not None for ob in oks)]
        ctx.check(bool(calls) and not skipped, R, ("unconditional", suffix), b.where(skipped[0]) if skipped else (b.where(calls[0]) if calls else None),
                  "%s runs on every success path of generate_dump (%d call site(s))" % (suffix, len(calls)),
                  "%s can be skipped: a success path of generate_dump does not call it — the stream is silently absent from that dump" % suffix)


def rule_written_records(ctx, R="C01/written-records"):
    """the offsets checked where they are assigned must still be in the record when it is written: for every record with an offset
    field that is handed to set_value / set_value_at / alloc_with_val, every alternative of the written value still carries a
    definition of that field (a record that is reset or replaced wholesale on some path loses its offset: 0 names the header)."""
    prog = ctx.prog
    n = 0
    for b in prog.bodies:
        if b.short.startswith("mem_writer::") or "_serde" in b.short:
            continue
        o = None
        for bi, t in b.calls(lambda c: (c.short or "") in ("mem_writer::MemoryWriter::set_value", "mem_writer::MemoryArrayWriter::set_value_at", "mem_writer::MemoryWriter::alloc_with_val")):
            inst = t["callee"].get("inst") or ""
            rec = [k for k in RVA_FIELDS if ("::" + k + ">") in inst or ("::" + k + ",") in inst]
            if not rec or rec[0] in ("MINIDUMP_LOCATION_DESCRIPTOR",):
                continue
            o = o or Origin(b)
            a = o.call_args(bi)
            val = a[1] if (t["callee"].get("def") or "").endswith("alloc_with_val") else a[2]
            for fld in RVA_FIELDS[rec[0]]:
                n += 1
                def undefined(x):
                    fo = field_of(x, fld)
                    # a bare projection of the alternative itself: nothing on this path assigned the field
                    return fo is None or (fo[0] == "field" and fo[2] == fld and nosite(strip(fo[1])) == nosite(strip(x)) and strip(x)[0] in ("call", "const", "agg") and not (strip(x)[0] == "agg"))
                missing = [x for x in alts(val) if strip(x)[0] != "loop" and undefined(x)]
                k = sum(1 for x, _ in b.calls(lambda c: (c.short or "") == (CalleeView(t["callee"]).short or "")) if x <= bi)
                ctx.check(not missing, R, ("::".join(b.short.split("::{closure")[0].split("::")[-2:]), rec[0], fld, k), b.where(bi),
                          "%s.%s is defined on every path to the write" % (rec[0], fld),
                          "%s.%s is lost on a path to the write: the record is %s there (offset 0 would name the header)" % (rec[0], fld, show(missing[0])[:80] if missing else ""))
    ctx.floor(R, "offset fields of written records", n, 8)


def run(ctx):
    rule_written_records(ctx)
    rule_stream_attempted(ctx)
    rule_size_origin(ctx)
    rule_dir_count(ctx)
    rule_stream_unique(ctx)
    rule_count_array(ctx)
    rule_index_bound(ctx)
    rule_rva_origin(ctx)
    rule_pos_append(ctx)
    rule_fresh_record(ctx)
    rule_every_slot_filled(ctx)
    # string blobs (module/thread/handle/link-map names, OS version): the length header is the byte length of the body that follows it
    from rules import c16
    c16.rule_string(ctx, R="C01/string-length")
    # debug-id records: the location stored in a module record is the location of the bytes that were written for it, with their length
    # (same rule instance as C08/module-fields) — a record longer than what was written runs into the module's name
    from rules import c08
    c08.rule_module_fields(ctx, R="C01/module-record-objects")
    try:
        from rules import c19
        c19.rule_stale_field(ctx, rule="C01/one-flush-owner", only=("memory_blocks",))
    except ImportError:
        pass
    # "the produced image" is also what lands in the destination: directory slots are written at start + slot rva and the append position
    # is restored to what it was, whatever the destination already holds (same rule instances as C09/seek-targets, C09/save-restore)
    from rules import c09 as _c09
    _c09.rule_seek_targets(ctx, R="C01/destination/seek-targets")
    _c09.rule_save_restore(ctx, R="C01/destination/save-restore")
    # the LinuxDsoDebug entry names exactly the record plus the bytes appended behind it (same rule instance as C18/dso-extent)
    from rules import c18 as _c18
    _c18.rule_dso_extent(ctx, R="C01/dso-extent")
    # no two objects overlap / every object has the length its header declares: the builder's layout laws (rules/families.py)
    from rules import families as _fam2
    _fam2.image_builder(ctx, "C01")
    # memory descriptors are final when pushed and the memory list is that list as it is (same rule instances as C07/memory-blocks-writers,
    # C07/list-after-producers)
    from rules import c07 as _c07m
    _c07m.rule_memory_blocks_writers(ctx, R="C01/memory-blocks-writers")
    _c07m.rule_list_after_producers(ctx, R="C01/memory-list-as-produced")
    # the small accessors and pass-through wrappers the rules above look through by name return what their names say (rules/accessors.py)
    from rules import accessors as _acc
    _acc.rule_accessors(ctx, "C01")
    # "no two objects overlap": every module record owns its name string and CodeView record (same rule instance as C08/identity-per-mapping)
    from rules import c08 as _c08i
    _c08i.rule_identity_per_mapping(ctx, R="C01/module-records-fresh")
    # the exception context may share bytes only with the BLAMED thread's context: which entry that is, is decided by tid (same rule instance as C05/branch-select)
    from rules import c05 as _c05bs
    _c05bs.rule_branch_select(ctx, R="C01/exception-context-of-blamed-tid")
    # every flush hands the destination exactly the pending bytes and records how far it got (rules/families.py, destination family)
    from rules import families as _famd2
    _famd2.destination(ctx, "C01")
