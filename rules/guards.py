"""Guards for what the rule sets themselves assume about the program (not properties of the product).

names-unambiguous: many rules identify a callee by the last segment of its resolved path (`read_link`, `saturating_sub`, `parse`) or by a
path suffix.  That is sound only while no *other* function of the crate carries the same name: a private helper, an inherent method or an
extension-trait method with the name of a std/nix/goblin function (or of another function of this crate) changes what an untouched call
site refers to — and a rule that goes by the name takes it for the original (seeded C15-q).  The collisions that exist today are
listed and were reviewed; a new one is reported for review under every property, because any rule may be the one that is fooled."""
import collections
from engine.mir import CalleeView
from engine import names as _names

# last segment -> functions of this crate that carry it today (hand-written ones; impls of std traits are boilerplate and skipped)
REVIEWED_LOCAL = {
    "fill_cpu_context": {"linux::crash_context::x86_64::<impl linux::crash_context::CrashContext>::fill_cpu_context", "linux::thread_info::x86::ThreadInfoX86::fill_cpu_context"},
    "get_instruction_pointer": {"linux::crash_context::x86_64::<impl linux::crash_context::CrashContext>::get_instruction_pointer", "linux::thread_info::x86::ThreadInfoX86::get_instruction_pointer"},
    "location": {"mem_writer::MemoryArrayWriter::location", "mem_writer::MemoryWriter::location"},
    "position": {"dir_section::DirSection::position", "mem_writer::Buffer::position"},
    "read": {"linux::mem_reader::MemReader::read", "linux::module_reader::ProcessMemory::read"},
}
# names of crate functions that are also names of foreign functions the crate calls (reviewed: the rules use full paths for these)
REVIEWED_FOREIGN = _names.REVIEWED_FOREIGN     # one list: the loader (engine/names.py) leaves exactly these unrenamed
# families that are one-per-module by design (each section has its `write`, each type its `new`): membership is free, the rules address
# them by module path
FREE_FAMILIES = {"write", "new", "read_from_module", "create"}


def _handwritten(b):
    s = b.short
    if "{closure" in s or s.startswith("bin::") or "::test" in s or "_serde" in s:
        return False
    import re
    if re.search(r"( as |<impl )(std|core|serde|alloc)::", s):
        return False     # an impl of a std/serde trait: the method name is the trait's, resolution goes through the trait
    return True


def rule_names_unambiguous(ctx, P):
    R = P + "/names-unambiguous"
    rule_write_only_copy(ctx, P)      # the other guard of what the engines assume (copies are values, not objects); same hook
    prog = ctx.prog
    local = collections.defaultdict(set)
    for b in prog.bodies:
        if _handwritten(b):
            local[_names.unmangle_seg(b.short.split("::")[-1])].add(b.short)
    foreign = set()
    for b in prog.bodies:
        for x, t in b.calls():
            c = t["callee"]
            if isinstance(c, dict) and not c.get("local"):
                s = CalleeView(c).short
                if s:
                    foreign.add(s.split("::")[-1])
    # ... and the foreign functions the REVIEWED tree calls (tables/foreign_names.json): a local function that captures every call of a
    # foreign one removes the foreign name from today's program
    import json, os
    tp = os.path.join(os.path.dirname(os.path.dirname(os.path.abspath(__file__))), "tables", "foreign_names.json")
    try:
        frozen = set(json.load(open(tp))["names"])
    except Exception:
        frozen = None
    ctx.check(frozen is not None and len(frozen) >= 200, R, "foreign-table", None, "the frozen list of foreign callee names is present (%d names)" % len(frozen or ()),
              "tables/foreign_names.json is missing or short: collisions with captured foreign functions cannot be seen", nontrivial=False, unproven=True)
    foreign |= frozen or set()
    new_ll = []
    for n, members in sorted(local.items()):
        if len(members) < 2 or n in FREE_FAMILIES:
            continue
        extra = members - REVIEWED_LOCAL.get(n, set())
        if n not in REVIEWED_LOCAL or extra:
            new_ll.append("%s: %s" % (n, sorted(extra or members)))
    # the free families are addressed by `<module>::write`: two functions with the same last TWO segments defeat that as well
    two = collections.defaultdict(set)
    for members in local.values():
        for m in members:
            two["::".join(m.split("::")[-2:])].add(m)
    dup2 = sorted("%s: %s" % (k, sorted(v)) for k, v in two.items() if len(v) > 1 and ">" not in k and "<" not in k)
    ctx.check(not dup2, R, "module-qualified", None, "no two functions of the crate share their last two path segments (`<module>::<name>` is unambiguous)",
              "functions that share `<module>::<name>` — %s: a module declared next to a glob import shadows the imported one, call sites that say `%s(..)` now reach the new function" % ("; ".join(dup2)[:260], dup2[0].split(":")[0] if dup2 else ""),
              nontrivial=False, unproven=True)
    new_lf = sorted(n for n in local if n in foreign and n not in REVIEWED_FOREIGN)
    ctx.check(not new_ll, R, "crate-functions", None, "no two functions of the crate share a name beyond the %d reviewed groups" % len(REVIEWED_LOCAL),
              "new function(s) share their name with another function of the crate — %s: rules that go by the name of a callee must be reviewed (a same-named helper changes what an untouched call site refers to)" % "; ".join(new_ll)[:300],
              nontrivial=False, unproven=True)
    ctx.check(not new_lf, R, "foreign-functions", None, "no function of the crate carries the name of a foreign function it calls, beyond the reviewed ones",
              "function(s) of the crate named like a foreign function the crate calls — %s: an unqualified call or method call may now resolve to the local one" % ", ".join("%s (%s)" % (n, sorted(local[n])[0]) for n in new_lf)[:300],
              nontrivial=False, unproven=True)



COPY_FUNCS = {"std::clone::Clone::clone", "core::slice::<impl [T]>::to_vec", "alloc::slice::<impl [T]>::to_vec", "std::slice::<impl [T]>::to_vec",
              "std::borrow::ToOwned::to_owned"}


def rule_write_only_copy(ctx, P):
    """lost updates: the origin engine treats `x.clone()`, `s.to_vec()`, `s.to_owned()` as the value they copy (right for "where does
    this value come from", blind to "which object is written").  An owned copy that is borrowed mutably and never read afterwards — not
    moved, not passed on, not returned, not borrowed shared — receives updates nobody sees: `let mut rest = chunks.into_remainder().to_vec();
    for b in &mut rest { *b = 0 }` zeroes a temporary and leaves the caller's bytes as they were (seeded C12-t).  Checked for every
    copying call of the crate, under every property (whichever rule follows the value through the copy is the one that is fooled)."""
    import json
    R = P + "/lost-update"
    n = 0
    for b in ctx.prog.bodies:
        if "::test" in b.short or b.short.startswith("bin::"):
            continue
        for bi, t in b.calls():
            cv = CalleeView(t["callee"])
            if cv.short not in COPY_FUNCS or not t.get("dest") or t["dest"]["proj"]:
                continue
            n += 1
            L = t["dest"]["l"]
            muts = reads = 0
            if L == 0:
                reads += 1
            p1, p2 = '"l": %d,' % L, '"l": %d}' % L
            for blk in b.blocks:
                for st in blk["stmts"]:
                    if st["k"] != "assign":
                        continue
                    r = st["r"]
                    if r["k"] == "ref" and r["p"]["l"] == L:
                        if r["bk"] == "mut":
                            muts += 1
                        else:
                            reads += 1
                    else:
                        js = json.dumps(r)
                        if p1 in js or p2 in js:
                            reads += 1
                tt = blk["term"]
                if tt["k"] == "call":
                    for a in tt["args"]:
                        if isinstance(a, dict) and a.get("k") in ("copy", "move") and a["p"]["l"] == L:
                            reads += 1
                elif tt["k"] == "switch" and "p" in tt["o"] and tt["o"]["p"]["l"] == L:
                    reads += 1
            if muts and not reads:
                ctx.violated(R, ("write-only-copy", b.short.split("::{closure")[0].split("::")[-1]), b.where(bi),
                             "%s makes an owned copy (%s, a %s) that is then only written to and dropped: every update applied to it is lost, the original keeps its contents" % (b.short, cv.short.split("::")[-1], b.locals[L]["ty"][:40]))
    ctx.check(n >= 20, R, "copy-sites", None, "%d copying calls (clone / to_vec / to_owned) examined: none is a write-only copy" % n,
              "only %d copying calls found (floor 20): the scan is not looking at the crate" % n, nontrivial=False)
