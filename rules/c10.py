"""C10 — every prefix of the output is a consistent truncated minidump (ordering clauses)."""
from engine.mir import CalleeView, norm
from engine.origin import Origin, strip, core, show, root
from engine.paths import Exits, must_pass, witness_path, reachable_after
from rules import c01, c09

PROPERTY = "C10"
EXPLANATION = ("Ordering rules on MIR: (header-first) in generate_dump the first destination effect on every path is the "
               "write_to_file(None) flush that carries header + zeroed directory, after DirSection::new and header.set_value and "
               "before any section writer; (bytes-before-dirent) inside DirSection::write_to_file(Some(d)) the append of the new "
               "image bytes reaches the destination before the directory entry that names them; dump_dir_entry has no other caller; "
               "(stream-then-flush) each directory entry handed to write_to_file was produced after the previous flush, and "
               "blobs referenced across streams (memory descriptors, crash context) are produced by an earlier or the same writer; "
               "(append-position) every seek goes either to start_offset + slot rva or back to the position saved before it, so each flush "
               "appends directly behind the previous one wherever the destination started.")
TRUSTED = ["a write_all that returned has delivered its bytes in order (no torn-write model)"]
ASSUMPTIONS = ["crash points are boundaries between destination write/seek calls; torn writes inside one write_all and file-system durability are out of scope",
               "mac writer not analysable on this host; it shares DirSection, so bytes-before-dirent covers its flush order"]

GEN = c01.GEN
W2F = c01.W2F
DS = c09.DS


def rule_header_first(ctx):
    R = "C10/header-first"
    b = ctx.body(R, GEN)
    if b is None:
        return
    o = Origin(b)
    flushes = [(bi, c01.option_variant(o.call_args(bi)[2])) for bi, t in b.calls(lambda c: c.is_(W2F))]
    # first flush on every path: the set of write_to_file calls reachable from entry without passing another one
    first = set()
    seen = set()
    st = [0]
    fl = {bi for bi, _ in flushes}
    while st:
        x = st.pop()
        if x in seen:
            continue
        seen.add(x)
        if x in fl:
            first.add(x)
            continue
        st.extend(b.succs(x, unwind=False))
    kinds = {dict(flushes)[x] for x in first}
    ctx.check(len(first) == 1 and kinds == {"None"}, R, "first-flush-is-header", b.where(min(first)) if first else None,
              "the first destination write on every path is the header/directory flush write_to_file(None)",
              "the first flush is %s at %s" % (kinds, [b.where(x) for x in first]))
    if len(first) != 1:
        return
    f0 = list(first)[0]
    # before it: DirSection::new and header set_value dominate it; only header alloc / DirSection::new / set_value touch the buffer
    news = [bi for bi, t in b.calls(lambda c: c.is_(DS + "::new"))]
    sets = [bi for bi, t in b.calls(lambda c: c.is_("mem_writer::MemoryWriter::set_value"))]
    ctx.check(bool(news) and all(b.dominates(x, f0) for x in news), R, "dir-allocated-before", b.where(news[0]) if news else None,
              "the (zeroed) directory is allocated before the first flush", "DirSection::new does not dominate the first flush")
    hs = [x for x in sets if b.dominates(x, f0)]
    okh = False
    for x in hs:
        v = strip(o.call_args(x)[2])
        if v[0] == "agg" and v[1].endswith("MINIDUMP_HEADER"):
            okh = True
    ctx.check(okh, R, "header-set-before", b.where(hs[0]) if hs else None, "the header value is stored before the first flush",
              "no MDRawHeader set_value dominates the first flush")
    allowed = ("mem_writer::MemoryWriter::alloc", DS + "::new", "mem_writer::MemoryWriter::set_value", DS + "::position")
    pre = set()
    st = [0]
    while st:
        x = st.pop()
        if x in pre or x == f0:
            continue
        pre.add(x)
        st.extend(b.succs(x, unwind=False))
    bad = []
    for x in pre:
        t = b.term(x)
        if t["k"] == "call" and c01.buffer_mut_arg(t):
            cv = CalleeView(t["callee"])
            if not cv.is_(*allowed):
                bad.append("%s (%s)" % (cv.short, b.where(x)))
    ctx.check(not bad, R, "no-stream-before-header", b.where(f0), "no section writer runs before the header/directory flush", "buffer written before the header flush by %s" % bad)
    # header is the first allocation: MemoryWriter::<MDRawHeader>::alloc dominates DirSection::new
    allocs = [bi for bi, t in b.calls(lambda c: c.is_("mem_writer::MemoryWriter::alloc")) if "MINIDUMP_HEADER" in (CalleeView(t["callee"]).inst or "")]
    ctx.check(bool(allocs) and bool(news) and b.dominates(allocs[0], news[0]), R, "header-at-offset-0", b.where(allocs[0]) if allocs else None,
              "the header slot is allocated first (offset 0), the directory right after", "header allocation does not precede the directory allocation")


def rule_bytes_before_dirent(ctx, R="C10/bytes-before-dirent"):
    b = ctx.body(R, W2F)
    if b is None:
        return
    o = Origin(b)
    dd = [bi for bi, t in b.calls(lambda c: c.is_(DS + "::dump_dir_entry"))]
    from rules.c09 import append_sites
    sites = append_sites(ctx, b, o)
    ap = [x[0] for x in sites]
    ctx.floor(R, "dump_dir_entry call in write_to_file", len(dd), 1)
    ctx.floor(R, "append write in write_to_file", len(ap), 1)
    if not dd or not ap:
        return
    # no path from entry reaches the directory-entry write without having appended the image bytes first
    for d in dd:
        w = must_pass(b, 0, {d}, set(ap))
        ctx.check(w is None, R, ("write_to_file", "append-then-entry"), b.where(d),
                  "the appended image bytes reach the destination before the directory entry that names them",
                  "DirSection::write_to_file writes the directory entry (seek, write, seek back) BEFORE appending the stream bytes: "
                  "a death between the two leaves an entry pointing past the end of the destination",
                  detail={"path": w})
        # and the mark is updated before too (so a failure in dump_dir_entry leaves a consistent flushed prefix)
    # the flush that precedes the entry writes EVERYTHING appended so far (not just the range the entry names):
    # blobs a stream references may lie behind the stream's own range in the image
    o2 = Origin(b)
    for (a, wa, cov, why) in sites:
        if cov is not True:
            ctx.check(False, R, ("write_to_file", "flush-complete"), b.where(a), "", "the flush before a directory entry does not hand every pending byte to the destination — %s" % why, unproven=cov is None)
        okall = False
        if wa[0] == "call" and wa[1].split("::")[-1] == "index":
            rng = strip(wa[2][1])
            okall = root(strip(wa[2][0])) == ("param", 2) and rng[0] == "agg" and rng[1].endswith("ops::RangeFrom")
        ctx.check(okall, R, ("write_to_file", "flush-all-pending"), b.where(a), "the flush before a directory entry covers every byte appended so far (buffer[flushed..])",
                  "the flush before a directory entry stops short of the end of the image: data a stream references behind its own range is not yet at the destination when its entry is written")
    # dump_dir_entry has no other caller
    callers = set()
    for body in ctx.prog.bodies:
        for bi, t in body.calls(lambda c: c.is_(DS + "::dump_dir_entry")):
            callers.add(body.short)
    ctx.check(callers == {W2F}, R, ("dump_dir_entry", "sole-caller"), None, "dump_dir_entry is called only from write_to_file",
              "dump_dir_entry is also called from %s" % sorted(callers - {W2F}))
    # inside dump_dir_entry the in-memory slot is set before the destination write of the slot
    db = ctx.body(R, DS + "::dump_dir_entry")
    if db is not None:
        sets = [bi for bi, t in db.calls(lambda c: c.is_(c01.SET_AT))]
        wr = [bi for bi, t in db.calls(lambda c: c.short == "std::io::Write::write_all")]
        ok = bool(sets) and bool(wr) and all(db.dominates(s, w_) for s in sets for w_ in wr)
        ctx.check(ok, R, ("dump_dir_entry", "set-then-write"), db.where(sets[0]) if sets else None,
                  "the slot is filled in the image before its bytes are written to the destination", "slot bytes are written before the slot is filled")


def rule_stream_then_flush(ctx):
    R = "C10/stream-then-flush"
    b = ctx.body(R, GEN)
    if b is None:
        return
    o = Origin(b)
    flushes = [bi for bi, t in b.calls(lambda c: c.is_(W2F))]
    n = 0
    for bi in flushes:
        a = o.call_args(bi)
        if c01.option_variant(a[2]) != "Some":
            continue
        n += 1
        payload = dict(a[2][3]).get("0")
        # producer call sites of this dirent (local calls inside the payload origin)
        from engine.origin import walk
        prods = [s[3][1] for s in walk(payload) if s[0] == "call" and s[3][0] == b.short and c01.buffer_mut_arg(b.term(s[3][1]))]
        if not prods:
            ctx.unproven(R, ("entry", n), b.where(bi), "no producing section writer found for this directory entry")
            continue
        # between every producer and this flush there is no other flush
        bad = []
        for p in prods:
            between = (b.reachable_from(p, unwind=False) & c01.can_reach(b, bi)) - {p, bi}
            bad += [b.where(x) for x in between if x in flushes]
        ctx.check(not bad, R, ("entry", n), b.where(bi), "the entry is flushed by the write_to_file that directly follows its producer",
                  "another flush lies between the producer and the flush of this entry: %s" % bad)
    ctx.floor(R, "directory entries with producers", n, 18)
    # cross-stream references: producers of memory_blocks / crashing_thread_context precede their consumers
    order = {}
    for bi, t in b.calls():
        cv = CalleeView(t["callee"])
        if cv.short:
            order.setdefault(cv.short, []).append(bi)
    pairs = [("linux::sections::thread_list_stream::write", "linux::sections::memory_list_stream::write", "stack/IP-window descriptors"),
             ("linux::sections::app_memory::write", "linux::sections::memory_list_stream::write", "application memory descriptors"),
             ("linux::sections::thread_list_stream::write", "linux::sections::exception_stream::write", "crashing thread context")]
    for prod, cons, what in pairs:
        ps, cs = order.get(prod, []), order.get(cons, [])
        ok = bool(ps) and bool(cs) and all(b.dominates(p, c) for p in ps for c in cs)
        ctx.check(ok, R, ("xref", what), b.where(cs[0]) if cs else None, "%s are produced (and flushed) before the stream that references them" % what,
                  "%s: producer %s does not precede consumer %s" % (what, prod.split("::")[-2], cons.split("::")[-2]))


def run(ctx):
    rule_header_first(ctx)
    rule_bytes_before_dirent(ctx)
    rule_stream_then_flush(ctx)
    # a prefix is only consistent if every append lands directly behind the previous one: after patching a directory slot the
    # destination position must be put back where it was (same rule instances as C09/seek-targets and C09/save-restore)
    c09.rule_seek_targets(ctx, R="C10/append-position")
    c09.rule_save_restore(ctx, R="C10/append-position-restore")
    # ... and a failed write/seek aborts the request: carrying on after one would append at an unknown position
    c09.rule_dest_errors_abort(ctx, R="C10/dest-errors-abort")
    c09.rule_append_flush(ctx, R="C10/flush-state")     # the flushed mark starts at 0 (the header is part of the first flush) and advances only after a write
    # "everything a stream references is completely present" needs the references to be exact: a memory descriptor names the bytes
    # that WERE appended (their location), not the bytes that were asked for (same rule instance as C01/size-origin)
    c01.rule_size_origin(ctx, R="C10/references-are-written")
    # ... and a string blob declares exactly the bytes that were appended for it (same rule instance as C16/string): a header that
    # claims more reaches past what has arrived when the stream's entry is flushed
    from rules import c16
    c16.rule_string(ctx, R="C10/strings-are-written")
    # ... and only descriptors recorded for THIS image are referenced: a descriptor left over from an aborted request points into
    # bytes that were never appended to this one (same rule instance as C19/stale-field)
    from rules import c19
    c19.rule_stale_field(ctx, rule="C10/no-stale-references", only=("memory_blocks", "crashing_thread_context"))
    # the LinuxDsoDebug entry names exactly the record plus the bytes appended behind it (same rule instance as C18/dso-extent)
    from rules import c18 as _c18
    _c18.rule_dso_extent(ctx, R="C10/dso-extent")
    # a stack descriptor that names a position is followed, on every path to a success return, by the append of exactly those bytes
    # (same rule instance as C01/pos-append)
    from rules import c01 as _c01pa
    _c01pa.rule_pos_append(ctx, R="C10/stack-descriptor-then-bytes")
    # what a directory entry names was appended before: the builder's layout laws (rules/families.py)
    from rules import families as _fam2
    _fam2.image_builder(ctx, "C10")
    # memory descriptors are final when pushed and the memory list is that list as it is (same rule instances as C07/memory-blocks-writers,
    # C07/list-after-producers)
    from rules import c07 as _c07m
    _c07m.rule_memory_blocks_writers(ctx, R="C10/memory-blocks-writers")
    _c07m.rule_list_after_producers(ctx, R="C10/memory-list-as-produced")
    # the small accessors and pass-through wrappers the rules above look through by name return what their names say (rules/accessors.py)
    from rules import accessors as _acc
    _acc.rule_accessors(ctx, "C10")
    # a directory entry names exactly the bytes of its stream: count header, array and entry size agree (same rule instance as C01/count-array)
    from rules import c01 as _c01c
    _c01c.rule_count_array(ctx, R="C10/count-array")
    # every flush hands the destination exactly the pending bytes and records how far it got (rules/families.py, destination family)
    from rules import families as _famd2
    _famd2.destination(ctx, "C10")
