"""C16 — the image builder obeys its layout laws (structural clauses on mem_writer.rs)."""
from engine.mir import CalleeView, norm
from engine.origin import Origin, strip, core, nosite, show, walk, root, is_const
from engine.paths import Exits
from engine import lenalg as LA

PROPERTY = "C16"
EXPLANATION = ("Static rules on mem_writer.rs: (no-mut-view) Buffer implements Deref but no mutable view trait, its only public "
               "mutator is the append write_all, and Buffer.inner is mutably borrowed only by reserve/write_at/write_all; "
               "(append-law) reserve returns the old length and grows by exactly len; alloc/alloc_with_val/alloc_array/"
               "alloc_from_array/alloc_from_iter/write_bytes record the position before growing and grow by n*size!(T); "
               "(slot-siblings) set_value_at, location_of_index, alloc_from_array and alloc_from_iter all address element i at "
               "position + size!(T)*i, location() is (position, size) resp. (position, array_size*size); (write-at-window) write_at "
               "writes inner[offset..offset+size!(N)] and only grows by the missing tail; (position-owner) position/array_size are "
               "stored only by the constructors; (string) header = 2*len(utf16), body of len(utf16) u16 at enumerated indices, "
               "returned size = both parts. Compile-fail witnesses (thorough tier) show external code cannot obtain a mutable view.")
TRUSTED = ["scroll little-endian encodings and SizeWith sizes", "Vec::resize/extend_from_slice semantics", "str::encode_utf16"]
ASSUMPTIONS = ["external code does not overwrite the public `position` field of a writer after construction"]

BUF = "mem_writer::Buffer"
MUT_VIEW_TRAITS = ("std::ops::DerefMut", "std::convert::AsMut", "std::ops::IndexMut", "std::borrow::BorrowMut", "std::io::Write", "std::io::Seek")
PUB_BUFFER_API = {"with_capacity", "position", "write_all"}
INNER_MUTATORS = {"mem_writer::Buffer::reserve", "mem_writer::Buffer::write_at", "mem_writer::Buffer::write_all"}


def canon(e):
    """canonical layout expression: casts dropped, size!(T) -> SIZE, call sites erased, commutative ops sorted"""
    e = core(e)
    if not isinstance(e, tuple):
        return e
    k = e[0]
    if k == "call":
        if e[1].endswith("SizeWith::size_with"):
            return ("SIZE",)
        return ("call", e[1], tuple(canon(a) for a in e[2]))
    if k == "bin":
        a, b = canon(e[2]), canon(e[3])
        op = e[1].replace("Unchecked", "")
        if op in ("Add", "Mul"):
            a, b = sorted((a, b), key=repr)
        return ("bin", op, a, b)
    if k == "field":
        inner = core(e[1])
        # writer.location().rva is the writer's position (C16/slot-siblings checks location() itself)
        if e[2] == "rva" and inner[0] == "call" and inner[1].split("::")[-1] == "location" and "Writer" in inner[1] and len(inner[2]) == 1:
            return ("field", canon(inner[2][0]), "position")
        return ("field", canon(e[1]), e[2])
    if k in ("param", "const", "str", "unit"):
        return e
    if k == "upd":
        return canon(e[1])
    return (k,) + tuple(canon(x) if isinstance(x, tuple) and x and isinstance(x[0], str) else x for x in e[1:])


def rule_no_mut_view(ctx, rule="C16/no-mut-view"):
    R = rule
    prog = ctx.prog
    impls = [i for i in prog.impls if i["self_ty"] == BUF]
    traits = sorted(i["trait"] for i in impls if i["trait"])
    ctx.floor(R, "impl blocks for Buffer", len(impls), 2)
    bad = [t for t in traits if t in MUT_VIEW_TRAITS]
    ctx.check(not bad, R, "traits", None, "Buffer implements %s and no mutable-view trait" % traits, "Buffer implements mutable-view trait(s) %s" % bad, nontrivial=False)
    ctx.check("std::ops::Deref" in traits, R, "deref", None, "Buffer derefs (read-only) to [u8]", "Buffer no longer implements Deref", nontrivial=False)
    pub = set()
    for i in impls:
        if i["trait"] is None:
            for it in i["items"]:
                if it["pub"]:
                    pub.add(it["name"])
    extra = pub - PUB_BUFFER_API
    ctx.check(not extra, R, "public-api", None, "public inherent Buffer API is %s" % sorted(pub), "Buffer exposes additional public method(s) %s (only append/read are allowed)" % sorted(extra), nontrivial=False)
    adt = prog.adts.get(BUF)
    if adt is None:
        ctx.violated(R, ("anchor", BUF), None, "ADT mem_writer::Buffer not found")
    else:
        pf = [f["name"] for v in adt["variants"] for f in v["fields"] if f["pub"]]
        ctx.check(not pf, R, "private-fields", None, "Buffer has no public field", "Buffer has public field(s) %s" % pf, nontrivial=False)
    # who borrows Buffer.inner mutably / stores into it / moves it out
    offenders = []
    n = 0
    for b in prog.bodies:
        for bi, blk in enumerate(b.blocks):
            for si, st in enumerate(blk["stmts"]):
                if st["k"] != "assign":
                    continue
                touched = False
                pj = st["p"]["proj"]
                if any(e["k"] == "field" and e.get("n") == "inner" and norm(e.get("adt") or "") == BUF for e in pj):
                    touched = True
                r = st["r"]
                if r["k"] in ("ref", "rawptr") and r.get("bk") in ("mut", "Mut"):
                    if any(e["k"] == "field" and e.get("n") == "inner" and norm(e.get("adt") or "") == BUF for e in r["p"]["proj"]):
                        touched = True
                if touched:
                    n += 1
                    if b.short not in INNER_MUTATORS:
                        offenders.append("%s (%s)" % (b.short, b.where(bi, si)))
    ctx.check(not offenders, R, "inner-mutators", None, "Buffer.inner is mutably borrowed only in reserve/write_at/write_all (%d sites)" % n,
              "Buffer.inner is mutably accessed in %s" % offenders)
    ctx.floor(R, "mutable accesses of Buffer.inner", n, 3)
    # write_all only appends
    write_all_only_appends(ctx, R, "write_all-appends")


BUFFER_READS = ("std::vec::Vec::len", "std::vec::Vec::capacity", "std::vec::Vec::is_empty", "mem_writer::Buffer::position", "mem_writer::Buffer::len", "mem_writer::Buffer::is_empty")


def write_all_only_appends(ctx, R, key):
    """write_all changes the image by one Vec::extend_from_slice(self.inner, <caller's bytes>) and in no other way: every other call
    that is handed (part of) self is one of the read-only queries, and nothing is stored through self directly"""
    from engine.origin import Origin, strip, core
    wb = ctx.body(R, "mem_writer::Buffer::write_all")
    if wb is None:
        return
    ow = Origin(wb)

    def self_rooted(e):
        e = strip(e)
        while isinstance(e, tuple) and e and e[0] in ("field", "deref", "ref"):
            e = strip(e[1])
        return e == ("param", 1)
    appends, others = [], []
    for bi, t in wb.calls():
        cv = CalleeView(t["callee"])
        a = ow.call_args(bi)
        if not any(self_rooted(x) for x in a) or cv.short in BUFFER_READS:
            continue
        if cv.short == "std::vec::Vec::extend_from_slice" and strip(a[0]) == ("field", ("param", 1), "inner") and core(a[1]) == ("param", 2):
            appends.append(bi)
        else:
            others.append("%s (%s)" % (cv.short, wb.where(bi)))
    stores = [wb.where(bi, si) for bi, blk in enumerate(wb.blocks) for si, st in enumerate(blk["stmts"])
              if st["k"] == "assign" and st["p"]["proj"] and st["p"]["proj"][0]["k"] == "deref" and st["p"]["l"] == 1]
    ctx.check(len(appends) == 1 and not others and not stores, R, key, wb.where(0),
              "write_all changes the image by appending the caller's bytes at position() and in no other way",
              "write_all does not simply append the caller's bytes at position(): %d plain append(s), other changes to the image: %s" % (len(appends), others + stores), nontrivial=False)


def rule_append_law(ctx, R="C16/append-law"):
    # reserve
    b = ctx.body(R, "mem_writer::Buffer::reserve")
    if b is not None:
        o = Origin(b)
        rs = list(b.calls(lambda c: c.short == "std::vec::Vec::resize"))
        ctx.floor(R, "resize in reserve", len(rs), 1)
        for bi, t in rs:
            a = o.call_args(bi)
            new = canon(a[1])
            want = ("bin", "Add", *sorted((("call", "std::vec::Vec::len", (("field", ("param", 1), "inner"),)), ("param", 2)), key=repr))
            ctx.check(new == want and canon(a[2]) == ("const", 0, "u8"), R, ("reserve", "grows-by-len"), b.where(bi),
                      "reserve resizes inner to inner.len() + len, zero-filled", "reserve resizes to %s" % show(a[1]))
        ex = Exits(b)
        for (bi, si) in ex.ok_defs:
            if si == "term":
                v = o.call_expr(bi)
            else:
                st = b.blocks[bi]["stmts"][si]
                v = o._rvalue(st["r"], (bi, si), 0)
            lenc = strip(v)
            okm = lenc[0] == "call" and lenc[1] == "std::vec::Vec::len" and all(b.dominates(lenc[3][1], rb) for rb, _ in rs)
            ctx.check(okm, R, ("reserve", "returns-old-len"), b.where(bi, si), "reserve returns inner.len() taken before the resize",
                      "reserve returns %s" % show(v))
    # constructors: position recorded before growth, growth by n*SIZE
    specs = [
        ("mem_writer::MemoryWriter::alloc", "reserve", ("SIZE",)),
        ("mem_writer::MemoryArrayWriter::alloc_array", "reserve", ("bin", "Mul", *sorted((("SIZE",), ("param", 2)), key=repr))),
        ("mem_writer::MemoryArrayWriter::alloc_from_array", "reserve", None),
        ("mem_writer::MemoryArrayWriter::alloc_from_iter", "reserve", None),
    ]
    for fn, how, want in specs:
        b = ctx.body(R, fn)
        if b is None:
            continue
        o = Origin(b)
        short = fn.split("::")[-1]
        rcalls = list(b.calls(lambda c: c.short == "mem_writer::Buffer::reserve"))
        if len(rcalls) != 1:
            ctx.unproven(R, (short, "reserve"), b.where(0), "expected exactly one reserve (found %d)" % len(rcalls))
            continue
        rb, rt = rcalls[0]
        sz = canon(o.call_args(rb)[1])
        if want is None:
            # n * SIZE where n is the array_size stored in the writer
            okz = sz[0] == "bin" and sz[1] == "Mul" and ("SIZE",) in sz[2:]
        else:
            okz = sz == want
        ctx.check(okz, R, (short, "reserves-n-size"), b.where(rb), "reserves exactly n * size!(T) bytes", "reserves %s" % show(o.call_args(rb)[1]))
        # the constructed writer: position = reserve result; array_size = n
        for bi, blk in enumerate(b.blocks):
            for si, st in enumerate(blk["stmts"]):
                r = st["r"] if st["k"] == "assign" else None
                if r and r["k"] == "agg" and r.get("ak") == "adt" and norm(r["adt"]) in ("mem_writer::MemoryWriter", "mem_writer::MemoryArrayWriter"):
                    e = o._rvalue(r, (bi, si), 0)
                    d = dict(e[3])
                    pos = core(d["position"])
                    okp = pos[0] == "call" and pos[1] == "mem_writer::Buffer::reserve" and pos[3][1] == rb
                    ctx.check(okp, R, (short, "position=mark"), b.where(bi, si), "writer.position <- the mark returned by reserve", "writer.position <- %s" % show(pos))
                    if "array_size" in d and sz[0] == "bin":
                        n_e = [x for x in sz[2:] if x != ("SIZE",)]
                        ctx.check(bool(n_e) and canon(d["array_size"]) == n_e[0], R, (short, "array_size=n"), b.where(bi, si),
                                  "writer.array_size <- the n that was reserved", "writer.array_size <- %s but reserved %s" % (show(d["array_size"]), show(n_e[0]) if n_e else "?"))
    # alloc_with_val / write_bytes: position() read before the growing call
    for fn, grow in (("mem_writer::MemoryWriter::alloc_with_val", "mem_writer::Buffer::write"), ("mem_writer::MemoryArrayWriter::write_bytes", "mem_writer::Buffer::write_all")):
        b = ctx.body(R, fn)
        if b is None:
            continue
        o = Origin(b)
        short = fn.split("::")[-1]
        gs = [bi for bi, t in b.calls(lambda c: c.short == grow)]
        for bi, blk in enumerate(b.blocks):
            for si, st in enumerate(blk["stmts"]):
                r = st["r"] if st["k"] == "assign" else None
                if r and r["k"] == "agg" and r.get("ak") == "adt" and norm(r["adt"]) in ("mem_writer::MemoryWriter", "mem_writer::MemoryArrayWriter"):
                    e = o._rvalue(r, (bi, si), 0)
                    d = dict(e[3])
                    pos = core(d["position"])
                    okp = (pos[0] == "call" and pos[1] == "mem_writer::Buffer::position" and len(gs) == 1 and b.dominates(pos[3][1], gs[0]) and pos[3][1] != gs[0])
                    ctx.check(okp, R, (short, "position-before-write"), b.where(bi, si), "position is buffer.position() taken before the append", "position <- %s" % show(pos))
                    if "array_size" in d:
                        la = LA.alen(d["array_size"], ctx.prog)
                        wa = LA.alen_coll(o.call_args(gs[0])[1], ctx.prog) if gs else None
                        ctx.check(la == wa, R, (short, "array_size=len"), b.where(bi, si), "array_size is the length of the appended slice", "array_size %s vs appended %s" % (la, wa))
    # Buffer::write = write_at(inner.len(), val)
    b = ctx.body(R, "mem_writer::Buffer::write")
    if b is not None:
        o = Origin(b)
        for bi, t in b.calls(lambda c: c.short == "mem_writer::Buffer::write_at"):
            off = canon(o.call_args(bi)[1])
            ctx.check(off == ("call", "std::vec::Vec::len", (("field", ("param", 1), "inner"),)), R, ("write", "at-end"), b.where(bi),
                      "write() writes at the current end", "write() writes at %s" % show(o.call_args(bi)[1]))


def rule_slot_siblings(ctx, R="C16/slot-siblings"):
    want_elem = None
    forms = {}
    # set_value_at
    b = ctx.body(R, "mem_writer::MemoryArrayWriter::set_value_at")
    if b is not None:
        o = Origin(b)
        for bi, t in b.calls(lambda c: c.short == "mem_writer::Buffer::write_at"):
            forms["set_value_at"] = (canon(o.call_args(bi)[1]), b.where(bi), ("param", 4))
    b = ctx.body(R, "mem_writer::MemoryArrayWriter::location_of_index")
    if b is not None:
        o = Origin(b)
        from engine.summ import return_origins
        from engine.origin import field_of
        for e in return_origins(ctx.prog, b.short) or []:
            rva, ds = field_of(e, "rva"), field_of(e, "data_size")
            if rva is None or ds is None:
                ctx.unproven(R, ("location_of_index", "shape"), b.where(0), "cannot read rva/data_size of the returned location: %s" % show(e)[:120])
                continue
            forms["location_of_index"] = (canon(rva), b.where(0), ("param", 2))
            ctx.check(canon(ds) == ("SIZE",), R, ("location_of_index", "size"), b.where(0), "slot size is size!(T)",
                      "the location of ONE element reports the size %s instead of size!(T): it overlaps the neighbouring elements and reaches past the array" % show(ds)[:100])
    for fn in ("alloc_from_array", "alloc_from_iter"):
        b = ctx.body(R, "mem_writer::MemoryArrayWriter::" + fn)
        if b is None:
            continue
        o = Origin(b)
        for bi, t in b.calls(lambda c: c.short == "mem_writer::Buffer::write_at"):
            e = o.call_args(bi)[1]
            idx = None
            for s in walk(e):
                f = LA.index_form(s, ctx.prog)
                if f[0] == "EnumIdx":
                    idx = s
            forms[fn] = (canon(e), b.where(bi), canon(idx) if idx else None, LA.index_form(idx, ctx.prog) if idx else None)
    # abstract each form over (POS, IDX)
    def shape(form, posexpr, idxexpr):
        def sub(e):
            if e == idxexpr:
                return ("IDX",)
            if e == posexpr:
                return ("POS",)
            if isinstance(e, tuple):
                return tuple(sub(x) if isinstance(x, tuple) else x for x in e)
            return e
        r = sub(form)
        # re-sort commutative operands after substitution
        def resort(e):
            if isinstance(e, tuple) and e and e[0] == "bin" and e[1] in ("Add", "Mul"):
                a, b_ = sorted((resort(e[2]), resort(e[3])), key=repr)
                return ("bin", e[1], a, b_)
            return e
        return resort(r)
    target = ("bin", "Add", *sorted((("POS",), ("bin", "Mul", *sorted((("SIZE",), ("IDX",)), key=repr))), key=repr))
    n = 0
    for name, rec in forms.items():
        form, where, idx = rec[0], rec[1], rec[2]
        if name in ("set_value_at", "location_of_index"):
            pos = ("field", ("param", 1), "position")
        else:
            pos = ("call", "mem_writer::Buffer::reserve", None)
            # find the reserve call inside the form
            for s in walk(form):
                if isinstance(s, tuple) and s and s[0] == "call" and s[1] == "mem_writer::Buffer::reserve":
                    pos = s
        sh = shape(form, pos, idx)
        n += 1
        ctx.check(sh == target, R, (name, "elem-offset"), where, "element i is addressed at position + size!(T) * i",
                  "element offset is %s (expected POS + SIZE*IDX)" % (sh,))
        if len(rec) > 3:
            ctx.check(rec[3] is not None and rec[3][0] == "EnumIdx", R, (name, "enumerated"), where, "the index enumerates the source elements", "index form %s" % (rec[3],))
    ctx.floor(R, "element-offset sites", n, 4)
    # location()
    for fn, want in (("mem_writer::MemoryWriter::location", ("SIZE",)),
                     ("mem_writer::MemoryArrayWriter::location", ("bin", "Mul", *sorted((("SIZE",), ("field", ("param", 1), "array_size")), key=repr)))):
        b = ctx.body(R, fn)
        if b is None:
            continue
        o = Origin(b)
        from engine.summ import return_origins as _ro
        from engine.origin import field_of as _fo, alts as _alts
        rets = _ro(ctx.prog, b.short) or []
        if not rets:
            ctx.unproven(R, (fn.split("::")[-2] + "::location", "pos-size"), b.where(0), "cannot determine what location() returns")
        for e0 in rets:
            for e in _alts(e0):     # every alternative the function can return (an `if empty { zero }` special case is one of them)
                rva, ds = _fo(e, "rva"), _fo(e, "data_size")
                ok_ = rva is not None and ds is not None and canon(rva) == ("field", ("param", 1), "position") and canon(ds) == want
                ctx.check(ok_, R, (fn.split("::")[-2] + "::location", "pos-size"), b.where(0),
                          "location() = (position, %s)" % ("size!(T)" if want == ("SIZE",) else "array_size * size!(T)"),
                          "location() can return (%s, %s) — not (position, %s): the reported offset/size no longer is where the object was reserved"
                          % (show(rva)[:60] if rva is not None else show(e)[:60], show(ds)[:60] if ds is not None else "?", "size!(T)" if want == ("SIZE",) else "array_size * size!(T)"))
    b = ctx.body(R, "mem_writer::MemoryWriter::set_value")
    if b is not None:
        o = Origin(b)
        for bi, t in b.calls(lambda c: c.short == "mem_writer::Buffer::write_at"):
            ctx.check(canon(o.call_args(bi)[1]) == ("field", ("param", 1), "position"), R, ("set_value", "at-position"), b.where(bi),
                      "set_value writes at the slot's position", "set_value writes at %s" % show(o.call_args(bi)[1]))
        # filling a reserved slot succeeds whenever the write itself does: the only way set_value / set_value_at can fail is the error of
        # their write_at (a separate containment guard can only be wrong — the slot was handed out by alloc and lies inside the buffer)
    for fn in ("mem_writer::MemoryWriter::set_value", "mem_writer::MemoryArrayWriter::set_value_at"):
        b = ctx.body(R, fn)
        if b is None:
            continue
        o = Origin(b)
        ex = Exits(b)
        wa = [bi for bi, t in b.calls(lambda c: c.short == "mem_writer::Buffer::write_at")]
        local = []
        for (eb, si) in ex.err_defs:
            if si == "term":
                e = o.call_expr(eb)
            else:
                e = o._rvalue(b.blocks[eb]["stmts"][si]["r"], (eb, si), 0)
            if not any(q[0] == "call" and q[1] == "mem_writer::Buffer::write_at" for q in walk(e)):
                local.append("%s @ %s" % (show(e)[:60], b.where(eb, si)))
        ctx.check(bool(wa) and not local, R, (fn.split("::")[-1], "fails-only-with-write"), b.where(wa[0]) if wa else b.where(0),
                  "%s has no failure of its own: every error it returns is the error of its write_at" % fn.split("::")[-1],
                  "%s can fail before/without writing (%s): a slot that lies wholly inside the buffer may be left unfilled" % (fn.split("::")[-1], "; ".join(local)[:200]))


def rule_write_at_window(ctx, R="C16/write-at-window"):
    b = ctx.body(R, "mem_writer::Buffer::write_at")
    if b is None:
        return
    o = Origin(b)
    ims = list(b.calls(lambda c: c.short == "std::ops::IndexMut::index_mut"))
    ctx.floor(R, "index_mut in write_at", len(ims), 1)
    for bi, t in ims:
        rng = strip(o.call_args(bi)[1])
        ok = False
        if rng[0] == "agg" and rng[1].endswith("ops::Range"):
            d = dict(rng[3])
            ok = canon(d["start"]) == ("param", 2) and canon(d["end"]) == ("bin", "Add", *sorted((("SIZE",), ("param", 2)), key=repr))
        ctx.check(ok, R, "window", b.where(bi), "write_at writes exactly inner[offset .. offset + size!(N)]", "write_at window is %s" % show(rng)[:160])
    rs = list(b.calls(lambda c: c.short == "std::vec::Vec::resize"))
    for bi, t in rs:
        new = canon(o.call_args(bi)[1])
        L = ("call", "std::vec::Vec::len", (("field", ("param", 1), "inner"),))
        want = ("bin", "Sub", ("bin", "Add", *sorted((L, ("SIZE",)), key=repr)), ("bin", "Sub", L, ("param", 2)))
        ctx.check(new == want, R, "grow-missing-tail", b.where(bi), "write_at grows inner by size - (len - offset) only", "write_at resizes to %s" % show(o.call_args(bi)[1]))
        # guarded by remainder < to_write
        from engine.paths import conditions
        dnf = conditions(b, bi, origin=o, relevant=lambda a: a[0] == "bin" and a[1] in ("Lt", "Gt", "Le", "Ge"))
        okg = bool(dnf) and all(any(canon(a) in (("bin", "Lt", ("bin", "Sub", L, ("param", 2)), ("SIZE",)),) and v == 1 for a, v in c) for c in dnf)
        ctx.check(okg, R, "grow-guard", b.where(bi), "the resize happens only when fewer than size bytes remain", "resize guard not recognised")


def rule_position_owner(ctx, R="C16/position-owner"):
    allowed = {"mem_writer::MemoryWriter::alloc", "mem_writer::MemoryWriter::alloc_with_val", "mem_writer::MemoryArrayWriter::alloc_array",
               "mem_writer::MemoryArrayWriter::alloc_from_array", "mem_writer::MemoryArrayWriter::alloc_from_iter", "mem_writer::MemoryArrayWriter::write_bytes"}
    n = 0
    bad = []
    for b in ctx.prog.bodies:
        for bi, blk in enumerate(b.blocks):
            for si, st in enumerate(blk["stmts"]):
                if st["k"] != "assign":
                    continue
                hit = False
                r = st["r"]
                if r["k"] == "agg" and r.get("ak") == "adt" and norm(r["adt"]) in ("mem_writer::MemoryWriter", "mem_writer::MemoryArrayWriter"):
                    hit = True
                for src in (st["p"]["proj"], r["p"]["proj"] if r["k"] in ("ref", "rawptr") and r.get("bk") in ("mut", "Mut") else []):
                    if src and src[-1]["k"] == "field" and norm(src[-1].get("adt") or "") in ("mem_writer::MemoryWriter", "mem_writer::MemoryArrayWriter") and src[-1]["n"] in ("position", "array_size", "size"):
                        hit = True
                if hit:
                    n += 1
                    if b.short not in allowed:
                        bad.append("%s (%s)" % (b.short, b.where(bi, si)))
    ctx.check(not bad, R, "constructors-only", None, "writer position/array_size are stored only by the %d constructor sites" % n, "writer position/array_size stored outside constructors: %s" % bad)
    ctx.floor(R, "writer constructions", n, 6)


def rule_string(ctx, R="C16/string"):
    b = ctx.body(R, "mem_writer::write_string_to_location")
    if b is None:
        return
    o = Origin(b)
    hdr = list(b.calls(lambda c: c.short == "mem_writer::MemoryWriter::alloc_with_val"))
    arr = list(b.calls(lambda c: c.short == "mem_writer::MemoryArrayWriter::alloc_array"))
    ctx.floor(R, "header alloc", len(hdr), 1)
    ctx.floor(R, "body alloc", len(arr), 1)
    if not hdr or not arr:
        return
    hv = core(o.call_args(hdr[0][0])[1])
    # 2 * len(letters)
    okh = False
    L = None
    if hv[0] == "bin" and hv[1] == "Mul":
        parts = [core(hv[2]), core(hv[3])]
        consts = [p for p in parts if is_const(p)]
        # size_of::<u16>() is a call or const 2
        lens = [LA.alen(p, ctx.prog) for p in parts]
        L = [l for l in lens if l[0] == "LenOf"]
        two = [p for p in parts if (is_const(p) and p[1] == 2) or (p[0] == "call" and p[1].endswith("size_of"))]
        okh = len(L) == 1 and len(two) == 1
    ctx.check(okh, R, "header=2*len", b.where(hdr[0][0]), "the u32 header is len(utf16 letters) * size_of::<u16>()", "header value is %s" % show(hv)[:160])
    la = LA.alen(o.call_args(arr[0][0])[1], ctx.prog)
    ctx.check(bool(L) and la == L[0], R, "body=len", b.where(arr[0][0]), "the body array has len(utf16 letters) u16 elements", "body length %s vs header %s" % (la, L))
    letters = L[0][1] if L else None
    if letters is not None:
        src = strip(letters)
        oku = src[0] == "call" and src[1].endswith("collect") and strip(src[2][0])[0] == "call" and strip(src[2][0])[1].endswith("encode_utf16") and root(strip(strip(src[2][0])[2][0])) == ("param", 2)
        ctx.check(oku, R, "letters=utf16(text)", b.where(0), "letters = text.encode_utf16().collect()", "letters = %s" % show(src)[:160])
    # adjacency and returned location
    from rules.c01 import can_reach, buffer_mut_arg
    between = (b.reachable_from(hdr[0][0], unwind=False) & can_reach(b, arr[0][0])) - {hdr[0][0], arr[0][0]}
    off = [b.where(x) for x in between if b.term(x)["k"] == "call" and buffer_mut_arg(b.term(x))]
    ctx.check(not off, R, "adjacent", b.where(arr[0][0]), "header and body are adjacent in the buffer", "buffer grows between header and body at %s" % off)
    from engine.summ import return_origins
    for e in return_origins(ctx.prog, b.short) or []:
        e = strip(e)
        ok = (e[0] == "upd" and e[2] == (("field", "data_size"),) and strip(e[1])[0] == "call" and strip(e[1])[1].endswith("MemoryWriter::location"))
        if ok:
            v = strip(e[3])
            ok = v[0] == "bin" and v[1] == "Add" and any(strip(x)[0] == "field" and strip(strip(x)[1])[0] == "call" and strip(strip(x)[1])[1].endswith("MemoryArrayWriter::location") for x in (v[2], v[3]))
        ctx.check(ok, R, "returned-location", b.where(0), "returned location = header.location() with data_size += body.location().data_size", "returned location is %s" % show(e)[:200])
    # element writes: value letters[i] at index i
    for bi, t in b.calls(lambda c: c.short == "mem_writer::MemoryArrayWriter::set_value_at"):
        a = o.call_args(bi)
        val, idx = strip(a[2]), strip(a[3])
        okv = False
        if idx[0] == "field" and idx[2] == "0" and val[0] == "field" and val[2] == "1":
            okv = nosite(idx[1]) == nosite(val[1])
        ctx.check(okv, R, "letter-i-at-i", b.where(bi), "code unit i is written to slot i (same enumerate item)", "value %s at index %s" % (show(val)[:80], show(idx)[:80]))


def run(ctx):
    rule_no_mut_view(ctx)
    rule_append_law(ctx)
    rule_slot_siblings(ctx)
    rule_write_at_window(ctx)
    rule_position_owner(ctx)
    rule_string(ctx)
    from rules import c01
    n = c01.index_bound_sites(ctx, "C16/string-index-bound", only_fn="mem_writer::write_string_to_location")
    # the small accessors and pass-through wrappers the rules above look through by name return what their names say (rules/accessors.py)
    from rules import accessors as _acc
    _acc.rule_accessors(ctx, "C16")
    # the directory is an array reserved up front and filled later: entry k is slot k, by position (same rule instances as C01/index-bound, C09/same-slot)
    from rules import c01 as _c01i, c09 as _c09s
    n_ib = _c01i.index_bound_sites(ctx, "C16/index-bound")
    ctx.floor("C16/index-bound", "set_value_at call sites", n_ib, 6)
    _c09s.rule_same_slot(ctx, R="C16/same-slot")
    # src/dir_section.rs is one of this property's anchors: a returned location names bytes of the image, and the copy of the image the
    # directory section maintains in the destination must keep every byte at its offset too — the flush mark advances only past bytes that
    # were handed over (rules/families.py, destination family; seeded C16-s moved the mark update in front of the fallible write)
    from rules import families as _famd
    _famd.destination(ctx, "C16")


def thorough(ctx):
    from engine import witness
    return witness.run(ctx, "C16")
