"""C05 — crash attribution matches what the caller supplied (structural clauses)."""
from engine.mir import CalleeView, norm
from engine.origin import Origin, strip, core, show, root, walk, nosite, is_const, alts, field_of, unupd
from engine.paths import Exits, must_pass, conditions
from engine.summ import return_origins
from rules import regmap, c01
from rules.regmap import ABI

PROPERTY = "C05"
EXPLANATION = ("(greg-map) in CrashContext::fill_cpu_context every general register and eflags is stored on every path from gregs[k] where the "
               "x86-64 ucontext index table (oracle, written independently) names k as that register; cs/gs/fs come from gregs[CSGSFS] with shifts "
               "0/16/32 and mask 0xffff; the FXSAVE words come from float_state; get_instruction_pointer/get_stack_pointer read gregs[RIP]/[RSP]; "
               "(exception-record) exception_code/flags/address <- siginfo signo/code/addr, thread_id <- blamed_thread, thread_context <- the "
               "payload of crashing_thread_context, and without a crash context the code is DUMP_REQUESTED with the stored address; "
               "(same-context) in the blamed-thread branch of the thread list the thread's context location and the location stored in "
               "crashing_thread_context are the same written section, filled from crash_context.fill_cpu_context resp. the same ThreadInfo whose "
               "instruction pointer is stored; (branch-select) the crash-context branch is taken iff crash_context is Some and thread_id == blamed_thread; "
               "(lane-copy) the st/xmm word-to-u128 helper shared with the ptrace path preserves every 32-bit lane (C04/lane-copy).")
TRUSTED = ["tables/abi_x86_64.json", "crash-context crate layout of CrashContext"]
ASSUMPTIONS = ["ds/es/ss are not part of the Linux ucontext and are left zero by design"]

CC = "linux::crash_context::x86_64::<impl crash_context::CrashContext>"
GREGS_PATH = ("inner", "context", "uc_mcontext", "gregs")


def is_gregs(e):
    """e == self.inner.context.uc_mcontext.gregs"""
    names = []
    x = strip(e)
    while x[0] == "field":
        names.append(x[2])
        x = strip(x[1])
    return tuple(reversed(names)) == GREGS_PATH and root(x) == ("param", 1)


def greg_index(e):
    """(k) if e == gregs[k] (through casts), else None"""
    c = core(e)
    if c[0] == "index" and is_const(c[2]) and is_gregs(c[1]):
        return c[2][1]
    return None


def find_cc_body(ctx, R, name):
    hits = [b for b in ctx.prog.bodies if b.short.startswith("linux::crash_context::x86_64::") and b.short.endswith("::" + name) and "CrashContext" in b.short]
    if len(hits) != 1:
        ctx.violated(R, ("anchor", name), None, "anchor missing: CrashContext::%s (%d matches)" % (name, len(hits)))
        return None
    return hits[0]


def rule_greg_map(ctx, R="C05/greg-map"):
    b = find_cc_body(ctx, R, "fill_cpu_context")
    if b is None:
        return
    o = Origin(b)
    st = regmap.out_stores(b, o)
    name_of = {int(k): v for k, v in ABI["gregs"].items()}
    n = 0
    for reg in ABI["crash_context_gp"]:
        recs = st.get(reg, [])
        if len(recs) != 1:
            ctx.violated(R, ("reg", reg), b.where(0), "CONTEXT field %s is stored %d times (expected once)" % (reg, len(recs)))
            continue
        bi, si, e = recs[0]
        k = greg_index(e)
        n += 1
        ctx.check(k is not None and name_of.get(k) == reg and regmap.on_every_path(b, bi), R, ("reg", reg), b.where(bi, si),
                  "out.%s <- gregs[%s] (ABI index of %s)" % (reg, k, reg),
                  "out.%s is filled from %s — the ucontext table says gregs[%s] holds %s" % (reg, show(core(e))[:100], k, name_of.get(k) if k is not None else "?"))
    for seg, sh in ABI["csgsfs_shift"].items():
        recs = st.get(seg, [])
        if len(recs) != 1:
            ctx.violated(R, ("reg", seg), b.where(0), "CONTEXT field %s is stored %d times" % (seg, len(recs)))
            continue
        bi, si, e = recs[0]
        c = core(e)
        ok = False
        if c[0] == "bin" and c[1] == "BitAnd":
            terms = [core(c[2]), core(c[3])]
            mask = [t for t in terms if is_const(t) and t[1] == 0xffff]
            rest = [t for t in terms if not is_const(t)]
            if len(mask) == 1 and len(rest) == 1:
                r = rest[0]
                if sh == 0:
                    ok = greg_index(r) is not None and name_of.get(greg_index(r)) == "csgsfs"
                elif r[0] == "bin" and r[1] == "Shr" and is_const(core(r[3])) and core(r[3])[1] == sh:
                    ok = greg_index(r[2]) is not None and name_of.get(greg_index(r[2])) == "csgsfs"
        n += 1
        ctx.check(ok and regmap.on_every_path(b, bi), R, ("reg", seg), b.where(bi, si), "out.%s <- (gregs[CSGSFS] >> %d) & 0xffff" % (seg, sh), "out.%s is filled from %s" % (seg, show(c)[:120]))
    ctx.floor(R, "register stores checked", n, 21)
    regmap.check_float_block(ctx, R, b, o, lambda e: strip(e)[0] == "field" and strip(e)[2] == "float_state" and strip(strip(e)[1])[0] == "field" and strip(strip(e)[1])[2] == "inner" and root(strip(strip(e)[1])[1]) == ("param", 1), "crash")
    for fn, reg in (("get_instruction_pointer", "rip"), ("get_stack_pointer", "rsp")):
        gb = find_cc_body(ctx, R, fn)
        if gb is None:
            continue
        outs = return_origins(ctx.prog, gb.short) or []
        ks = [greg_index(e) for e in outs]
        ctx.check(bool(ks) and all(k is not None and name_of.get(k) == reg for k in ks), R, ("getter", fn), gb.where(0), "%s() reads gregs[%s]" % (fn, reg.upper()),
                  "%s() reads %s" % (fn, [show(e)[:80] for e in outs]))


def rule_exception_record(ctx):
    R = "C05/exception-record"
    b = ctx.body(R, "linux::sections::exception_stream::write")
    if b is None:
        return
    o = Origin(b)
    n = 0
    for bi, t in b.calls(lambda c: c.is_("mem_writer::MemoryWriter::alloc_with_val")):
        v = strip(o.call_args(bi)[1])
        if not (v[0] == "agg" and v[1].endswith("MINIDUMP_EXCEPTION_STREAM")):
            continue
        n += 1
        d = dict(v[3])
        tid = core(d["thread_id"])
        ctx.check(tid[0] == "field" and tid[2] == "blamed_thread" and root(tid[1]) == ("param", 1), R, "thread_id", b.where(bi), "thread_id <- config.blamed_thread", "thread_id <- %s" % show(tid))
        # thread_context: payload of config.crashing_thread_context (both carrying variants) or zero
        tc = d["thread_context"]
        good = True
        variants = set()
        for a in alts(tc):
            a = strip(a)
            if a[0] == "agg" and a[1].endswith("MINIDUMP_LOCATION_DESCRIPTOR"):
                dd = dict(a[3])
                if not all(is_const(core(x)) and core(x)[1] == 0 for x in dd.values()):
                    good = False
                continue
            names = []
            x = a
            while x[0] in ("field", "variant"):
                names.append(x[2])
                x = strip(x[1])
            if "crashing_thread_context" in names and root(x) == ("param", 1):
                variants |= {nm for nm in names if nm in ("CrashContext", "CrashContextPlusAddress")}
            else:
                good = False
        ctx.check(good and variants == {"CrashContext", "CrashContextPlusAddress"}, R, "thread_context", b.where(bi),
                  "thread_context <- the location carried by crashing_thread_context (both variants), else zero", "thread_context <- %s" % show(tc)[:200])
        rec = d["exception_record"]
        with_ctx, without = [], []
        for a in alts(rec):
            a = unupd(a)
            if a[0] != "agg":
                good = False
                continue
            dd = dict(a[3])
            code = core(dd["exception_code"])
            if code[0] == "field":
                with_ctx.append(dd)
            else:
                without.append(dd)
        okw = len(with_ctx) == 1
        if okw:
            dd = with_ctx[0]
            def sig(e, f):
                c = core(e)
                return c[0] == "field" and c[2] == f and strip(c[1])[0] == "field" and strip(c[1])[2] == "siginfo" and any(s[0] == "field" and s[2] == "crash_context" for s in walk(c))
            okw = sig(dd["exception_code"], "ssi_signo") and sig(dd["exception_flags"], "ssi_code") and sig(dd["exception_address"], "ssi_addr")
        ctx.check(okw, R, "with-context", b.where(bi), "code/flags/address <- siginfo.ssi_signo/ssi_code/ssi_addr of the supplied context",
                  "exception record with a crash context is %s" % [{k: show(v)[:60] for k, v in dd.items() if k.startswith("exception_")} for dd in with_ctx])
        okn = len(without) == 1
        if okn:
            dd = without[0]
            code = core(dd["exception_code"])
            addr = core(dd["exception_address"])
            okn = is_const(code) and code[1] == 0xFFFFFFFF
            # address: payload .1 of CrashContextPlusAddress, or 0
            for a in alts(addr):
                a = core(a)
                if is_const(a) and a[1] == 0:
                    continue
                names = [s[2] for s in walk(a) if s[0] in ("field", "variant")]
                if not ("CrashContextPlusAddress" in names and "crashing_thread_context" in names):
                    okn = False
        ctx.check(okn, R, "without-context", b.where(bi), "without a crash context: code = DUMP_REQUESTED (0xFFFFFFFF), address <- the stored instruction pointer",
                  "exception record without a crash context is %s" % [{k: show(v)[:60] for k, v in dd.items() if k.startswith("exception_")} for dd in without])
        # which alternative is chosen: with_ctx iff crash_context is Some
    ctx.floor(R, "MDRawExceptionStream writes", n, 1)


def rule_same_context(ctx):
    R = "C05/same-context"
    b = ctx.body(R, "linux::sections::thread_list_stream::write")
    if b is None:
        return
    o = Origin(b)
    # stores to config.crashing_thread_context
    stores = []
    for bi, blk in enumerate(b.blocks):
        for si, st in enumerate(blk["stmts"]):
            if st["k"] == "assign" and st["p"]["proj"] and st["p"]["proj"][-1].get("n") == "crashing_thread_context":
                stores.append((bi, si, o._rvalue(st["r"], (bi, si), 0)))
    ctx.floor(R, "stores to crashing_thread_context", len(stores), 2)
    sets = list(b.calls(lambda c: c.is_(c01.SET_AT)))
    if not sets:
        return
    rec_alts = alts(o.call_args(sets[0][0])[2])
    for bi, si, e in stores:
        e = strip(e)
        vname = e[2] if e[0] == "agg" else "?"
        payload = dict(e[3]).get("0") if e[0] == "agg" else None
        if vname == "CrashContext":
            loc = strip(payload)
            ip = None
        elif vname == "CrashContextPlusAddress":
            tup = strip(payload)
            loc, ip = (strip(tup[1][0]), tup[1][1]) if tup[0] == "tuple" else (None, None)
        else:
            ctx.unproven(R, ("store", vname), b.where(bi, si), "unexpected value stored to crashing_thread_context: %s" % show(e)[:100])
            continue
        okl = loc is not None and loc[0] == "call" and loc[1].endswith("MemoryWriter::location")
        sect = strip(loc[2][0]) if okl else None
        if vname == "CrashContext":
            # "for every ucontext content": once the blamed thread's stack step has succeeded, every path to the record write stores the
            # supplied context's location (nothing in between — a lookup of the instruction pointer, a size test — may skip it)
            from rules.c09 import success_successor
            fts = [x for x, t in b.calls(lambda c: (c.short or "").endswith("fill_thread_stack")) if b.dominates(x, bi)]
            okp = False
            if fts:
                f0 = max(fts, key=lambda x: sum(1 for y in fts if b.dominates(y, x)))
                nxt = success_successor(b, f0)
                okp = nxt is not None and must_pass(b, nxt, {x for x, _ in sets}, {bi}) is None
            ctx.check(okp, R, (vname, "on-every-path"), b.where(bi, si), "with a crash context and the blamed thread, every path to the thread record stores the supplied context",
                      "the supplied crash context can be skipped for the blamed thread: a path from the stack step to the record write bypasses the store to crashing_thread_context")
        # the thread record of this branch uses the same section
        same = False
        for ra in rec_alts:
            tc = field_of(ra, "thread_context")
            if tc is None:
                continue
            tcs = strip(tc)
            if tcs[0] == "call" and tcs[1].endswith("MemoryWriter::location") and sect is not None and nosite(strip(tcs[2][0])) == nosite(sect) and strip(tcs[2][0])[3] == sect[3]:
                same = True
        ctx.check(okl and same, R, (vname, "same-section"), b.where(bi, si), "the stored context location is the section the blamed thread's record points at",
                  "crashing_thread_context location %s is not the blamed thread's context section" % (show(loc)[:120] if loc else "?"))
        # the section content: alloc_with_val(buffer, cpu) where cpu was filled by X.fill_cpu_context(&mut cpu)
        if sect is not None and sect[0] == "call" and sect[1].endswith("alloc_with_val"):
            alloc_b = sect[3][1]
            fills = [x for x, t in b.calls(lambda c: (c.short or "").endswith("fill_cpu_context")) if b.dominates(x, alloc_b)]
            # nearest dominating fill
            fills = sorted(fills, key=lambda x: sum(1 for y in fills if b.dominates(y, x)))
            if not fills:
                ctx.violated(R, (vname, "filled-from"), b.where(alloc_b), "the context section is written without a preceding fill_cpu_context")
                continue
            f = fills[-1]
            fa = o.call_args(f)
            src = strip(fa[0])
            if vname == "CrashContext":
                oks = any(s[0] == "field" and s[2] == "crash_context" for s in walk(src)) and "crash_context::" in (CalleeView(b.term(f)["callee"]).short or "")
                ctx.check(oks, R, (vname, "filled-from"), b.where(f), "the section holds the CPU context filled from config.crash_context", "the section is filled from %s" % show(src)[:120])
            else:
                oks = src[0] == "call" and src[1].endswith("get_thread_info_by_index")
                ipc = core(ip)
                oki = ipc[0] == "call" and ipc[1].endswith("get_instruction_pointer") and nosite(strip(ipc[2][0])) == nosite(src)
                ctx.check(oks and oki, R, (vname, "filled-from"), b.where(f), "the section is filled from the ThreadInfo whose instruction pointer is stored as the crash address",
                          "section filled from %s, address from %s" % (show(src)[:100], show(ipc)[:100]))


def rule_branch_select(ctx, R="C05/branch-select"):
    b = ctx.body(R, "linux::sections::thread_list_stream::write")
    if b is None:
        return
    o = Origin(b)
    loops = b.loops()
    n = 0
    for bi, blk in enumerate(b.blocks):
        for si, st in enumerate(blk["stmts"]):
            if st["k"] == "assign" and st["p"]["proj"] and st["p"]["proj"][-1].get("n") == "crashing_thread_context":
                e = strip(o._rvalue(st["r"], (bi, si), 0))
                vname = e[2] if e[0] == "agg" else "?"
                inner = [h for h, body in loops.items() if bi in body]
                h = max(inner, key=lambda x: len(loops[x])) if inner else 0

                def rel(a):
                    if a[0] == "call" and a[1].endswith("Option::is_some"):
                        return True
                    if a[0] == "bin" and a[1] == "Eq":
                        return any(s[0] == "field" and s[2] == "blamed_thread" for s in walk(a))
                    return False
                dnf = conditions(b, bi, origin=o, entry=h, relevant=rel)
                n += 1
                if dnf is None or not dnf:
                    ctx.unproven(R, (vname, "guard"), b.where(bi, si), "cannot compute the branch condition")
                    continue
                def has(c, kind, val):
                    for (a, v) in c:
                        if kind == "some" and a[0] == "call" and a[1].endswith("Option::is_some") and any(s[0] == "field" and s[2] == "crash_context" for s in walk(a)) and v == val:
                            return True
                        if kind == "eq" and a[0] == "bin" and a[1] == "Eq" and v == val:
                            return True
                    return False
                if vname == "CrashContext":
                    ok = all(has(c, "some", 1) and has(c, "eq", 1) for c in dnf)
                    ctx.check(ok, R, (vname, "guard"), b.where(bi, si), "the supplied context is used iff crash_context.is_some() and thread_id == blamed_thread",
                              "crash-context branch condition is %s" % [[(show(a)[:60], v) for a, v in c] for c in dnf])
                else:
                    # the other branch: (not some) or (not eq) for the else arm, and tid == blamed for the store
                    ok = all(has(c, "eq", 1) and (has(c, "some", 0) or has(c, "eq", 0)) for c in dnf)
                    ctx.check(ok, R, (vname, "guard"), b.where(bi, si), "the live-thread context is recorded for tid == blamed_thread when the crash-context branch is not taken",
                              "live-thread branch condition is %s" % [[(show(a)[:60], v) for a, v in c] for c in dnf])
    ctx.floor(R, "crashing_thread_context stores", n, 2)


def rule_context_before_record(ctx, R="C05/context-recorded-first"):
    """`points at a CPU context ... the blamed thread's thread-list entry uses the same context`: the exception stream reads what the
    thread-list stream recorded in `crashing_thread_context`.  In generate_dump the exception stream is written only on paths where
    thread_list_stream::write returned Ok (today: its `?`); a thread-list failure that is survived — demoted to a soft error, say —
    would leave an exception record pointing at no context in a dump that reports success."""
    b = ctx.body(R, "linux::minidump_writer::MinidumpWriter::generate_dump")
    if b is None:
        return
    o = Origin(b)
    calls = list(b.calls(lambda c: (c.short or "").endswith("exception_stream::write")))
    ctx.floor(R, "exception_stream::write in generate_dump", len(calls), 1)
    for k, (x, t) in enumerate(calls):
        dnf = conditions(b, x, origin=o, relevant=lambda a: a[0] == "discr" and any(q[0] == "call" and q[1].endswith("thread_list_stream::write") for q in walk(a)))
        ok = bool(dnf) and all(any(v == 0 and strip(a[1])[0] in ("call", "try") and (strip(a[1])[1].endswith("thread_list_stream::write") if strip(a[1])[0] == "call" else True) for (a, v) in c) for c in dnf)
        ctx.check(ok, R, ("exception-after-thread-list-ok", k + 1), b.where(x), "the exception stream is written only after thread_list_stream::write returned Ok",
                  "the exception stream can be written although thread_list_stream::write failed (its error is survived): the record then points at no CPU context and no thread-list entry shares it")


def run(ctx):
    rule_context_before_record(ctx)
    rule_greg_map(ctx)
    rule_exception_record(ctx)
    rule_same_context(ctx)
    rule_branch_select(ctx)
    # the u32-word -> u128-slot helper shared with the ptrace path (C04/lane-copy)
    from rules import c04
    c04.rule_lane_copy(ctx, R="C05/lane-copy")
    # "what the caller supplied": the crash context and the blamed thread reach the writer as given (set_crash_context stores the context
    # and nothing else; same rule instance as C19/setters-verbatim, C19/fresh-writer)
    from rules import c19
    c19.rule_setters_verbatim(ctx, R="C05/supplied-verbatim", only=("crash_context",))
    c19.rule_fresh_writer(ctx, R="C05/blamed-thread-from-new")
    # the supplied crash context is what every dump from this writer attributes the crash to (same rule instance as C19/config-preserved)
    from rules import c19 as _c19
    _c19.rule_config_preserved(ctx, R="C05/options-kept", only=("crash_context", "blamed_thread", "process_id"))
    # the stream is attempted in every dump: its writer is on every success path of generate_dump (same rule instance as C01/every-stream-attempted)
    from rules import c01 as _c01
    _c01.rule_stream_attempted(ctx, R="C05/stream-attempted", only=("exception_stream::write",))
    # "names the blamed thread ... the blamed thread's thread-list entry": a thread whose name cannot be read is still listed
    # (same rule instance as C04/every-tid-listed)
    from rules import c04 as _c04e
    _c04e.rule_every_tid_listed(ctx, R="C05/blamed-thread-listed")
    # shared infrastructure this property leans on (rules/families.py): each member is the same rule instance as in its home property
    from rules import families as _fam
    _fam.thread_list(ctx, "C05")
    _fam.registers(ctx, "C05")
    # the stream reaches the caller's file where the directory says, wherever in the destination the dump starts (rules/families.py)
    from rules import families as _famd
    _famd.destination(ctx, "C05")
    # the small accessors and pass-through wrappers the rules above look through by name return what their names say (rules/accessors.py)
    from rules import accessors as _acc
    _acc.rule_accessors(ctx, "C05")
    # the stream this property talks about is all-or-nothing: generate_dump succeeds only if its writer returned Ok (rules/c01.py rule_hard_streams)
    from rules import c01 as _c01h
    _c01h.rule_hard_streams(ctx, R="C05/hard-streams", only=('thread_list_stream::write', 'exception_stream::write'))
    # the thread list fails as a whole when a stack or the window around the crash address cannot be read (`?` in thread_list_stream): the reader must
    # try every strategy before it gives up (rules/families.py, reader family)
    from rules import families as _famr
    _famr.reader(ctx, "C05")
