"""C09 — the destination receives exactly the image that was built (structural clauses)."""
from engine.mir import CalleeView, norm
from engine.origin import Origin, strip, core, nosite, show, walk, root
from engine.paths import Exits, must_pass, witness_path, reachable_after, switch_atom
from rules import c01

PROPERTY = "C09"
EXPLANATION = ("Static rules on DirSection and its users: (seek-targets) every Seek::seek is SeekFrom::Start of either "
               "destination_start_offset + the directory slot's RVA or the position saved at the top of the same function; "
               "(save-restore) in dump_dir_entry the slot seek is followed by exactly one write of buffer[rva..rva+size] of the "
               "same slot and then the restoring seek on every success path; (append-flush) write_to_file writes "
               "buffer[last_position_written_to_file..] and advances that field to buffer.position() only after the write "
               "succeeded, nowhere else; (sole-writer) the destination flows only into DirSection and no other function "
               "writes or seeks a Write+Seek value; (append-only-image) Buffer exposes no mutable view (C16 rules + compile-fail witnesses).")
TRUSTED = ["the caller's Write+Seek implementation honours write_all/seek contracts"]
ASSUMPTIONS = ["a conforming destination; short writes inside write_all are std's concern"]

DS = "dir_section::DirSection"
DEST_METHODS = ("std::io::Write::write_all", "std::io::Write::write", "std::io::Write::flush", "std::io::Seek::seek",
                "std::io::Write::write_fmt", "std::io::Write::write_vectored", "std::io::Seek::rewind", "std::io::Seek::seek_relative")


def dest_calls(body):
    return [(bi, t) for bi, t in body.calls(lambda c: c.short in DEST_METHODS)]


def rule_seek_targets(ctx, R="C09/seek-targets"):
    n = 0
    for b in ctx.prog.bodies:
        seeks = list(b.calls(lambda c: c.short in ("std::io::Seek::seek", "std::io::Seek::rewind", "std::io::Seek::seek_relative")))
        if not seeks:
            continue
        o = Origin(b)
        k = 0
        for bi, t in seeks:
            n += 1
            k += 1
            key = (b.short, "seek#%d" % k)
            cv = CalleeView(t["callee"])
            if cv.short != "std::io::Seek::seek":
                ctx.violated(R, key, b.where(bi), "%s used on the destination (only absolute seeks are allowed)" % cv.short)
                continue
            if not b.short.startswith(DS + "::"):
                ctx.violated(R, key, b.where(bi), "Seek::seek outside DirSection (in %s)" % b.short)
                continue
            arg = strip(o.call_args(bi)[1])
            if not (arg[0] == "agg" and arg[1].endswith("io::SeekFrom") and arg[2] == "Start"):
                ctx.violated(R, key, b.where(bi), "seek target is not SeekFrom::Start(..): %s" % show(arg)[:120])
                continue
            x = strip(dict(arg[3])["0"])
            form = None
            if x[0] == "bin" and x[1] == "Add":
                terms = [core(x[2]), core(x[3])]
                off = [t_ for t_ in terms if t_[0] == "field" and t_[2] == "destination_start_offset" and root(t_[1]) == ("param", 1)]
                rva = [t_ for t_ in terms if t_[0] == "field" and t_[2] == "rva" and strip(t_[1])[0] == "call" and strip(t_[1])[1].endswith("MemoryArrayWriter::location_of_index")]
                if len(off) == 1 and len(rva) == 1 and (len(x) < 5 or x[4] in ("u64", None)):
                    li = strip(rva[0][1])
                    sec, idx = core(li[2][0]), core(li[2][1])
                    if sec[0] == "field" and sec[2] == "section" and idx[0] == "field" and idx[2] == "curr_idx":
                        form = "destination_start_offset + rva(directory slot curr_idx)"
            elif x[0] == "call" and x[1] == "std::io::Seek::stream_position" and x[3][0] == b.short:
                # saved earlier in the same function, on the same destination
                if b.dominates(x[3][1], bi):
                    form = "position saved by stream_position() at the top of this function"
            ctx.check(form is not None, R, key, b.where(bi), "seek target = %s" % form,
                      "seek target is neither start_offset + slot rva nor the saved position: %s" % show(x)[:200])
    ctx.floor(R, "Seek::seek call sites", n, 2)
    # "wherever the destination was positioned at the start": the starting offset is kept at full width — DirSection::new stores
    # stream_position() (u64) unnarrowed, the field is 64 bits wide, and the slot address is computed in 64 bits
    nb = ctx.prog.by_short.get(DS + "::new")
    if nb:
        nb = nb[0]
        no = Origin(nb)
        from engine.summ import return_origins
        from engine.origin import field_of, INT_BITS
        vals = []
        for e in return_origins(ctx.prog, nb.short) or []:
            v = field_of(e, "destination_start_offset")
            if v is not None:
                vals.append(v)
        narrowing = [q for v in vals for q in walk(v) if isinstance(q, tuple) and q and q[0] == "cast" and INT_BITS.get(q[3], 64) < INT_BITS.get(q[2], 64)]
        okv = bool(vals) and all(any(q[0] == "call" and q[1] == "std::io::Seek::stream_position" for q in walk(v)) for v in vals) and not narrowing
        ctx.check(okv, R, ("start-offset", "stored-unnarrowed"), nb.where(0), "destination_start_offset <- destination.stream_position() without a narrowing cast",
                  "the starting offset of the destination is stored as %s: offsets of 4 GiB and more are truncated, directory slots are then patched at the wrong place" % [show(v)[:80] for v in vals])
    adt = next((a for nme, a in ctx.prog.adts.items() if nme.endswith("dir_section::DirSection")), None)
    fty = None
    if adt:
        for v_ in adt.get("variants", []):
            for f_ in v_.get("fields", []):
                if f_.get("name") == "destination_start_offset":
                    fty = f_.get("ty")
    ctx.check(fty == "u64", R, ("start-offset", "field-width"), None, "DirSection::destination_start_offset is a u64", "DirSection::destination_start_offset has type %s (a destination offset needs 64 bits)" % fty)


def rule_save_restore(ctx, R="C09/save-restore"):
    b = ctx.body(R, DS + "::dump_dir_entry")
    if b is None:
        return
    o = Origin(b)
    seeks = [bi for bi, t in b.calls(lambda c: c.short == "std::io::Seek::seek")]
    writes = [bi for bi, t in b.calls(lambda c: c.short in ("std::io::Write::write_all", "std::io::Write::write"))]
    saves = [bi for bi, t in b.calls(lambda c: c.short == "std::io::Seek::stream_position")]
    ctx.floor(R, "seeks in dump_dir_entry", len(seeks), 2)
    ctx.floor(R, "destination writes in dump_dir_entry", len(writes), 1)
    ctx.floor(R, "position saves in dump_dir_entry", len(saves), 1)
    if len(seeks) != 2 or len(writes) != 1 or len(saves) != 1:
        ctx.unproven(R, "shape", b.where(0), "expected exactly save, seek, write, seek (found %d saves, %d seeks, %d writes)" % (len(saves), len(seeks), len(writes)))
        return
    ex = Exits(b)
    okb = ex.ok_blocks()
    # order along dominance: save dom seek1 dom write dom seek2 dom ok
    chain = sorted(seeks + writes + saves, key=lambda x: sum(1 for y in seeks + writes + saves if b.dominates(y, x)))
    s1, s2 = sorted(seeks, key=lambda x: sum(1 for y in seeks if b.dominates(y, x)))
    w = writes[0]
    sv = saves[0]
    good = b.dominates(sv, s1) and b.dominates(s1, w) and b.dominates(w, s2) and all(b.dominates(s2, k) for k in okb)
    ctx.check(good, R, "order", b.where(s1), "save -> seek(slot) -> write -> seek(saved) dominate the success return in this order",
              "the save/seek/write/restore sequence is not on every success path in order")
    # s1 is the slot seek, s2 the restore
    a1 = strip(dict(strip(o.call_args(s1)[1])[3]).get("0", ("?",))) if strip(o.call_args(s1)[1])[0] == "agg" else ("?",)
    a2 = strip(dict(strip(o.call_args(s2)[1])[3]).get("0", ("?",))) if strip(o.call_args(s2)[1])[0] == "agg" else ("?",)
    ctx.check(a2[0] == "call" and a2[1] == "std::io::Seek::stream_position" and a2[3][1] == sv, R, "restore", b.where(s2),
              "the last seek restores the position saved before the slot write", "the last seek does not restore the saved position: %s" % show(a2)[:120])
    # written bytes = buffer[rva .. rva+data_size] of the same slot the seek addressed
    wa = strip(o.call_args(w)[1])
    okw = False
    why = show(wa)[:200]
    if wa[0] == "call" and wa[1].split("::")[-1] == "index":
        base, rng = strip(wa[2][0]), strip(wa[2][1])
        if root(base) == ("param", 2) and rng[0] == "agg" and rng[1].endswith("ops::Range"):
            d = dict(rng[3])
            st, en = core(d["start"]), core(d["end"])
            slot_calls = {nosite(c) for c in walk(a1) if c[0] == "call" and c[1].endswith("location_of_index")}
            okst = st[0] == "field" and st[2] == "rva" and nosite(strip(st[1])) in slot_calls
            oken = (en[0] == "bin" and en[1] == "Add" and
                    {core(en[2])[2] if core(en[2])[0] == "field" else None, core(en[3])[2] if core(en[3])[0] == "field" else None} == {"rva", "data_size"} and
                    all(nosite(strip(core(x)[1])) in slot_calls for x in (en[2], en[3]) if core(x)[0] == "field"))
            okw = okst and oken
    ctx.check(okw, R, "slot-bytes", b.where(w), "the write is buffer[slot.rva .. slot.rva + slot.data_size] of the slot the seek addressed",
              "the bytes written at the slot are not exactly that slot's bytes: %s" % why)


COVERING_ITERS = ("chunks", "rchunks", "iter", "into_iter")
LOSSY_ITERS = {"chunks_exact": "drops the remainder that does not fill a whole chunk", "rchunks_exact": "drops the remainder that does not fill a whole chunk",
               "windows": "yields overlapping windows", "array_chunks": "drops the remainder", "step_by": "skips elements", "take": "stops early", "skip": "skips the head",
               "take_while": "stops early", "skip_while": "skips the head", "filter": "skips elements"}


def _helper_covers(prog, hb, k):
    """does local helper `hb` hand ALL of its slice parameter k to a writer on every success path?  -> (True/False/None, reason)"""
    from rules.c01 import loop_item
    ho = Origin(hb)
    ex = Exits(hb)
    loops = hb.loops()
    through, why = set(), []
    for bi, t in hb.calls(lambda c: c.short in ("std::io::Write::write_all",)):
        a = strip(ho.call_args(bi)[1])
        if a == ("param", k):
            through.add(bi)
            continue
        inner = [h for h, body in loops.items() if bi in body]
        if not inner:
            return None, "writes %s" % show(a)[:80]
        h = min(inner, key=lambda x: len(loops[x]))
        item = loop_item(hb, ho, h)
        if not item or nosite(strip(a)) != nosite(strip(("some", item[0]))) and nosite(a) != nosite(("some", item[0])):
            return None, "the loop does not write its own item (%s)" % show(a)[:80]
        it = strip(item[0][2][0])
        names = []
        cur = it
        while cur[0] == "call" and cur[2]:
            names.append(cur[1].split("::")[-1])
            cur = strip(cur[2][0])
        lossy = [n for n in names if n in LOSSY_ITERS]
        if lossy:
            return False, "the pending bytes are walked with %s(), which %s" % (lossy[0], LOSSY_ITERS[lossy[0]])
        if cur != ("param", k) or not names or any(n not in COVERING_ITERS for n in names):
            return None, "the loop iterates %s" % show(it)[:80]
        # the loop is left only when the iterator is exhausted or on an error exit
        for x in loops[h]:
            for (s_, lab) in hb.succ_edges(x):
                if lab == ("unwind",) or s_ in loops[h]:
                    continue
                t2 = hb.term(x)
                exhausted = t2["k"] == "switch" and strip(switch_atom(hb, ho, x)[0])[0] == "discr" and strip(strip(switch_atom(hb, ho, x)[0])[1])[0] == "call" and strip(strip(switch_atom(hb, ho, x)[0])[1])[1].split("::")[-1] == "next"
                if exhausted or hb.term(s_)["k"] == "unreachable":
                    continue
                reach = hb.reachable_from(s_, unwind=False)
                if any(ob in reach for ob in ex.ok_blocks()):
                    return False, "the chunk loop can be left early on a success path"
        through.add(h)
    if not through:
        return None, "no write of the parameter"
    for ob in ex.ok_blocks():
        if must_pass(hb, 0, {ob}, through) is not None:
            return False, "a success path of the helper writes nothing"
    return True, ""


def append_sites(ctx, b, o):
    """points of write_to_file where image bytes are handed to the destination: [(block, slice expression, verdict, reason)];
    a direct write_all/write, or a call of a local helper that hands one of its slice arguments on"""
    out = []
    for bi, t in b.calls(lambda c: c.short in ("std::io::Write::write_all", "std::io::Write::write")):
        out.append((bi, strip(o.call_args(bi)[1]), True, ""))
    for bi, t in b.calls(lambda c: c.local and (c.target or c.short) in ctx.prog.by_short and not (c.target or c.short or "").endswith("dump_dir_entry")):
        cv = CalleeView(t["callee"])
        hb = ctx.prog.by_short[cv.target or cv.short][0]
        if not any(True for _ in hb.calls(lambda c: c.short in ("std::io::Write::write_all", "std::io::Write::write"))):
            continue
        a = o.call_args(bi)
        best = None
        for k in range(2, len(a) + 1):
            v, why = _helper_covers(ctx.prog, hb, k)
            if best is None or v is True or (v is False and best[2] is None):
                best = (bi, strip(a[k - 1]), v, "%s: %s" % (hb.short.split("::")[-1], why) if why else "")
            if v is True:
                break
        if best:
            out.append(best)
    return out


PATCHERS = ("MemoryWriter::set_value", "MemoryArrayWriter::set_value_at", "Buffer::write_at")


def rule_no_write_below_watermark(ctx, R="C09/flushed-bytes-immutable"):
    """write_to_file sends only the bytes behind the flush watermark, so a byte of the image that was already flushed must never be
    written again (the destination would keep the old value while the returned image has the new one).  (a) in generate_dump no
    in-place writer (set_value / set_value_at / write_at) is reachable after a write_to_file call; (b) no in-place writer handle
    survives in the writer's or dumper's state, so a later section writer cannot reach back either; the one exception is the
    directory slot, which dump_dir_entry writes to the image AND to the destination (C09/slot-image-agree)."""
    from rules.c01 import GEN
    b = ctx.body(R, GEN)
    if b is None:
        return
    flushes = [bi for bi, t in b.calls(lambda c: c.endswith("DirSection::write_to_file"))]
    patch = [(bi, (CalleeView(t["callee"]).short or "").split("::")[-1]) for bi, t in b.calls(lambda c: any((c.short or "").endswith(p_) for p_ in PATCHERS))]
    ctx.floor(R, "write_to_file calls in generate_dump", len(flushes), 19)
    ctx.floor(R, "in-place image writes in generate_dump", len(patch), 1)
    for k, (bi, nm) in enumerate(patch):
        late = [f for f in flushes if reachable_after(b, f, {bi}) is not None]
        ctx.check(not late, R, ("generate_dump", nm, k + 1), b.where(bi), "%s happens before the first flush" % nm,
                  "%s rewrites image bytes after a flush (%s): write_to_file only appends what lies behind the watermark, the destination keeps the old bytes" % (nm, b.where(late[0]) if late else ""))
    n = 0
    for name, a in ctx.prog.adts.items():
        if name.endswith("minidump_writer::MinidumpWriter") or name.endswith("ptrace_dumper::PtraceDumper") or name.endswith("dir_section::DirSection"):
            for v in a.get("variants", []):
                for f in v.get("fields", []):
                    n += 1
                    bad = "MemoryWriter<" in f["ty"] or "MemoryArrayWriter<" in f["ty"]
                    excused = name.endswith("DirSection") and f["name"] == "section"
                    ctx.check(not bad or excused, R, ("state", name.split("::")[-1], f["name"]), None,
                              "%s.%s: %s%s" % (name.split("::")[-1], f["name"], f["ty"][:60], " (the directory: written to image and destination together)" if excused else ""),
                              "%s.%s keeps an in-place writer (%s) alive across flushes: a later step can rewrite flushed bytes" % (name.split("::")[-1], f["name"], f["ty"]), nontrivial=bad)
    ctx.floor(R, "fields of the long-lived writer state", n, 15)
    # section writers get no handle either: no parameter of a function called from generate_dump after the first flush is a MemoryWriter
    for bi, t in b.calls(lambda c: c.local):
        cv = CalleeView(t["callee"])
        tgt = cv.target or cv.short
        if tgt not in ctx.prog.by_short or not any(reachable_after(b, f, {bi}) is not None for f in flushes):
            continue
        hb = ctx.prog.by_short[tgt][0]
        tys = [hb.locals[i]["ty"] for i in range(1, hb.argc + 1)]
        bad = [ty for ty in tys if ("MemoryWriter<" in ty or "MemoryArrayWriter<" in ty) and not tgt.endswith(PATCHERS)]
        if tgt.endswith(PATCHERS):
            continue
        ctx.check(not bad, R, ("handle-passed", tgt.split("::")[-2] + "::" + tgt.split("::")[-1]), b.where(bi), "%s receives no in-place writer handle" % tgt.split("::")[-1],
                  "%s is handed an in-place writer (%s) after a flush" % (tgt.split("::")[-1], bad), nontrivial=bool(bad))


def rule_append_flush(ctx, R="C09/append-flush"):
    b = ctx.body(R, DS + "::write_to_file")
    if b is None:
        return
    o = Origin(b)
    sites = append_sites(ctx, b, o)
    writes = [x[0] for x in sites]
    ctx.floor(R, "destination writes in write_to_file", len(writes), 1)
    if len(writes) != 1:
        ctx.unproven(R, "shape", b.where(0), "expected exactly one append write (found %d)" % len(writes))
        return
    w = writes[0]
    wa = sites[0][1]
    if sites[0][2] is not True:
        ctx.check(False, R, "append-complete", b.where(w), "", "the helper that hands the pending bytes to the destination does not write all of them — %s" % sites[0][3], unproven=sites[0][2] is None)
    else:
        ctx.ok(R, "append-complete", b.where(w), "every pending byte is handed to the destination (directly, or in chunks that cover the slice)")
    ok = False
    if wa[0] == "call" and wa[1].endswith("index"):
        base, rng = strip(wa[2][0]), strip(wa[2][1])
        if root(base) == ("param", 2) and rng[0] == "agg" and rng[1].endswith("ops::RangeFrom"):
            st = core(dict(rng[3])["start"])
            ok = st[0] == "field" and st[2] == "last_position_written_to_file" and root(st[1]) == ("param", 1)
    ctx.check(ok, R, "append-range", b.where(w), "the append writes buffer[last_position_written_to_file ..]",
              "the append does not write buffer[last_position_written_to_file ..]: %s" % show(wa)[:200])
    # stores to last_position_written_to_file
    stores = []
    for bi, blk in enumerate(b.blocks):
        for si, st in enumerate(blk["stmts"]):
            if st["k"] == "assign" and st["p"]["proj"] and st["p"]["proj"][-1].get("n") == "last_position_written_to_file":
                stores.append((bi, si, st))
    ctx.floor(R, "updates of last_position_written_to_file in write_to_file", len(stores), 1)
    ex = Exits(b)
    for bi, si, st in stores:
        v = core(o._rvalue(st["r"], (bi, si), 0))
        okv = v[0] == "call" and v[1].endswith("Buffer::position") and root(v[2][0]) == ("param", 2)
        ctx.check(okv, R, ("store", "value"), b.where(bi, si), "last_position_written_to_file <- buffer.position()",
                  "last_position_written_to_file is set to %s" % show(v)[:120])
        # ... read while the image still has the length that was appended: no call that can grow the image (anything handed the buffer
        # mutably — dump_dir_entry's set_value_at/write_at may extend it) lies between the append and the read of position()
        if okv and len(v) > 3 and v[3]:
            ps = v[3][1]
            between = (b.reachable_from(w, unwind=False) & c01.can_reach(b, ps)) - {w, ps}
            grow = sorted(b.where(x) for x in between if b.term(x)["k"] == "call" and c01.buffer_mut_arg(b.term(x)))
            ctx.check(not grow, R, ("store", "mark-is-appended-length"), b.where(bi, si), "position() is read before anything else can change the image after the append",
                      "the mark is read after call(s) that may grow the image (%s): bytes added there are counted as flushed although they never reached the destination at their place" % ", ".join(grow))
        # only after the write succeeded: the store is dominated by the Continue edge of the write's `?`
        cont = success_successor(b, w)
        okd = cont is not None and b.dominates(cont, bi)
        ctx.check(okd, R, ("store", "after-write-ok"), b.where(bi, si), "the flushed mark advances only after write_all returned Ok",
                  "the flushed mark can advance although the append failed or before it happened")
    # every success exit passes the store
    sb = {bi for bi, _, _ in stores}
    for ob in ex.ok_blocks():
        wpath = must_pass(b, 0, {ob}, sb)
        ctx.check(wpath is None, R, ("ok-exit", "updates-mark"), b.where(ob), "every success path updates the flushed mark",
                  "a success path leaves the flushed mark stale")
        wpath = must_pass(b, 0, {ob}, {w})
        ctx.check(wpath is None, R, ("ok-exit", "appends"), b.where(ob), "every success path appends the new bytes",
                  "a success path skips the append")
    # who else writes these fields
    for fld, allowed in (("last_position_written_to_file", {DS + "::write_to_file", DS + "::new"}), ("destination_start_offset", {DS + "::new"}),
                         ("curr_idx", {DS + "::dump_dir_entry", DS + "::new"})):
        writers = set()
        for body in ctx.prog.bodies:
            for bi, blk in enumerate(body.blocks):
                for si, st in enumerate(blk["stmts"]):
                    if st["k"] != "assign":
                        continue
                    pj = st["p"]["proj"]
                    if pj and pj[-1]["k"] == "field" and pj[-1].get("n") == fld and norm(pj[-1].get("adt") or "") == DS:
                        writers.add(body.short)
                    r = st["r"]
                    if r["k"] == "agg" and r.get("ak") == "adt" and norm(r["adt"]) == DS:
                        writers.add(body.short)
                    if r["k"] == "ref" and r["bk"] == "mut":
                        pj2 = r["p"]["proj"]
                        if pj2 and pj2[-1]["k"] == "field" and pj2[-1].get("n") == fld and norm(pj2[-1].get("adt") or "") == DS:
                            writers.add(body.short)
        extra = writers - allowed
        ctx.check(not extra, R, ("field-owner", fld), None, "DirSection.%s is written only by %s" % (fld, sorted(x.split("::")[-1] for x in writers)),
                  "DirSection.%s is also written by %s" % (fld, sorted(extra)))
    # new(): start offset = destination.stream_position(), mark = 0, idx = 0
    nb = ctx.body(R, DS + "::new")
    if nb is not None:
        no = Origin(nb)
        for bi, blk in enumerate(nb.blocks):
            for si, st in enumerate(blk["stmts"]):
                if st["k"] == "assign" and st["r"]["k"] == "agg" and st["r"].get("ak") == "adt" and norm(st["r"]["adt"]) == DS:
                    e = no._rvalue(st["r"], (bi, si), 0)
                    d = dict(e[3])
                    so = core(d["destination_start_offset"])
                    ctx.check(so[0] == "call" and so[1] == "std::io::Seek::stream_position" and root(strip(so[2][0])) == ("param", 3) and root(strip(d["destination"])) == ("param", 3),
                              R, ("new", "start-offset"), nb.where(bi, si), "destination_start_offset <- destination.stream_position() of the stored destination",
                              "destination_start_offset is %s" % show(so)[:120])
                    if "last_position_written_to_file" not in d or "curr_idx" not in d:
                        ctx.violated(R, ("new", "zero-state"), nb.where(bi, si), "anchor lost: DirSection no longer has the fields last_position_written_to_file / curr_idx (has %s): how much of the image was flushed, and which slot is next, must be the section's own bookkeeping" % sorted(d))
                        continue
                    z1, z2 = core(d["last_position_written_to_file"]), core(d["curr_idx"])
                    ctx.check(z1 == ("const", 0, "u64") and z2 == ("const", 0, "usize"), R, ("new", "zero-state"), nb.where(bi, si),
                              "flushed mark and directory index start at 0", "flushed mark / index start at %s / %s" % (show(z1), show(z2)))


def success_successor(b, call_block):
    """block reached when the `?` applied to the call in call_block continues (Ok)"""
    nxt = b.term(call_block).get("t")
    seen = 0
    while nxt is not None and seen < 4:
        t = b.term(nxt)
        if t["k"] == "call" and CalleeView(t["callee"]).short == "std::ops::Try::branch":
            sw = t["t"]
            ts = b.term(sw)
            if ts["k"] == "switch":
                for v, tb in ts["targets"]:
                    if v == 0:
                        return tb
            return None
        if t["k"] == "goto":
            nxt = t["t"]
        else:
            return None
        seen += 1
    return None


def rule_same_slot(ctx, R="C09/same-slot"):
    """the 12 bytes patched into the destination are the slot that was just filled in the image: in dump_dir_entry the index handed to
    set_value_at and the index handed to location_of_index are the same value of the same counter (and the bytes copied are
    buffer[rva .. rva + data_size] of that location)."""
    b = ctx.body(R, DS + "::dump_dir_entry")
    if b is None:
        return
    o = Origin(b)
    sets = [(x, o.call_args(x)) for x, t in b.calls(lambda c: (c.short or "").endswith("MemoryArrayWriter::set_value_at"))]
    locs = [(x, o.call_args(x)) for x, t in b.calls(lambda c: (c.short or "").endswith("MemoryArrayWriter::location_of_index"))]
    ctx.floor(R, "set_value_at in dump_dir_entry", len(sets), 1)
    ctx.floor(R, "location_of_index in dump_dir_entry", len(locs), 1)
    if len(sets) == 1 and len(locs) == 1:
        i_set, i_loc = nosite(strip(sets[0][1][3])), nosite(strip(locs[0][1][1]))
        ctx.check(i_set == i_loc and i_set == ("field", ("param", 1), "curr_idx"), R, "same-index", b.where(locs[0][0]),
                  "the slot filled in the image and the slot copied to the destination are both slot curr_idx",
                  "the image slot is %s but the destination is patched from slot %s: the destination keeps a stale or empty entry" % (show(i_set)[:80], show(i_loc)[:80]))
    elif sets and locs:
        ctx.unproven(R, "same-index", b.where(0), "more than one slot write/lookup in dump_dir_entry")


def rule_sole_writer(ctx):
    R = "C09/sole-writer"
    prog = ctx.prog
    offenders = []
    n = 0
    for b in prog.bodies:
        for bi, t in dest_calls(b):
            # only calls on a generic `W`/impl Write+Seek destination matter (not on Buffer, Vec, files the crate itself opens)
            cv = CalleeView(t["callee"])
            recv_ty = cv.targs[0] if cv.targs else ""
            if recv_ty in ("W",) or recv_ty.startswith("impl ") or "Write + " in recv_ty:
                n += 1
                if not b.short.startswith(DS + "::"):
                    offenders.append("%s (%s)" % (b.short, b.where(bi)))
    ctx.check(not offenders, R, "only-dirsection", None, "all %d writes/seeks on a generic destination are inside DirSection" % n,
              "destination written outside DirSection: %s" % offenders)
    ctx.floor(R, "destination write/seek sites on generic W", n, 4)
    # the destination parameter of dump / generate_dump flows only into generate_dump / DirSection::new
    for fn, pidx, allowed in (("linux::minidump_writer::MinidumpWriter::dump", 2, ("MinidumpWriter::generate_dump",)),
                              ("linux::minidump_writer::MinidumpWriter::generate_dump", 5, ("DirSection::new",))):
        b = ctx.body(R, fn)
        if b is None:
            continue
        o = Origin(b)
        uses = []
        for bi, t in b.calls():
            for a in t["args"]:
                if a["k"] in ("copy", "move") and root(strip(o.operand(a, (bi, "term")))) == ("param", pidx):
                    uses.append((bi, CalleeView(t["callee"])))
        bad = [(bi, cv) for bi, cv in uses if not any((cv.short or "").endswith(x) for x in allowed)]
        ctx.check(uses and not bad, R, (fn.split("::")[-1], "dest-flow"), b.where(uses[0][0]) if uses else None,
                  "the destination parameter flows only into %s" % (allowed,),
                  "the destination parameter also flows into %s" % [cv.short for _, cv in bad] if uses else "destination parameter unused")


def rule_dest_errors_abort(ctx, R="C09/dest-errors-abort"):
    """a failed destination write/seek inside DirSection::write_to_file leaves the destination position and the flushed mark in an
    unknown relation (C09/save-restore needs the restoring seek to succeed): the request has to abort.  Every write_to_file result in
    generate_dump is `?`-propagated: its Break arm reaches only error returns and never another destination write or the success return."""
    from rules import c01
    b = ctx.body(R, c01.GEN)
    if b is None:
        return
    o = Origin(b)
    ex = Exits(b)
    okb = set(ex.ok_blocks())
    w2f = [bi for bi, t in b.calls(lambda c: c.is_(c01.W2F))]
    ctx.floor(R, "write_to_file calls in generate_dump", len(w2f), 19)
    branches = {}
    for bj, t in b.calls(lambda c: c.short == "std::ops::Try::branch"):
        a0 = strip(o.call_args(bj)[0])
        if a0[0] == "call" and a0[1] == c01.W2F and a0[3] and a0[3][0] == b.short:
            branches.setdefault(a0[3][1], []).append(bj)
    n = 0
    for k, bi in enumerate(w2f):
        brs = branches.get(bi, [])
        if len(brs) != 1:
            ctx.violated(R, ("flush", k + 1), b.where(bi), "the result of this destination flush is not propagated with `?` (it is ignored, downgraded or handled locally): "
                         "after a failed write/seek the dump would carry on writing at an unknown destination position and could still report success")
            continue
        sw = b.term(brs[0])["t"]
        E = None
        for (tgt, lab) in b.succ_edges(sw):
            if lab[0] == "sw" and lab[1] == 1:
                E = tgt
        if E is None:
            ctx.unproven(R, ("flush", k + 1), b.where(bi), "cannot find the failure arm of the propagated result")
            continue
        reach = b.reachable_from(E, unwind=False)
        bad = [b.where(x) for x in reach if x in okb or x in w2f]
        ctx.check(not bad, R, ("flush", k + 1), b.where(bi), "a failed flush returns the error without touching the destination again",
                  "after a failed flush control can still reach %s" % bad[:3], nontrivial=False)
        n += 1
    ctx.floor(R, "propagated flush results", n, 19)


def run(ctx):
    rule_no_write_below_watermark(ctx)
    rule_seek_targets(ctx)
    rule_save_restore(ctx)
    rule_append_flush(ctx)
    rule_sole_writer(ctx)
    rule_same_slot(ctx)
    from rules import c16
    c16.rule_no_mut_view(ctx, rule="C09/append-only-image")
    # an aborted request leaves the destination equal to the image as of the last flush only if, inside one flush, the slot patch
    # comes after the append it names (same rule instance as C10/bytes-before-dirent): a failing append must not leave a patched slot
    from rules import c10
    c10.rule_bytes_before_dirent(ctx, R="C09/append-before-slot")
    rule_dest_errors_abort(ctx)
    # dump_dir_entry stores the entry in the image with set_value_at(i) and copies the bytes location_of_index(i) names to the destination:
    # the two must address the same slot (same rule instance as C16/slot-siblings)
    c16.rule_slot_siblings(ctx, R="C09/slot-image-agree")
    # the small accessors and pass-through wrappers the rules above look through by name return what their names say (rules/accessors.py)
    from rules import accessors as _acc
    _acc.rule_accessors(ctx, "C09")
    # "the image as of the last flush" is only meaningful if an in-place write either happens completely or not at all and the image grows only by
    # appending (same rule instances as C16/write-at-window, C16/append-law)
    c16.rule_write_at_window(ctx, R="C09/write-at-window")
    c16.rule_append_law(ctx, R="C09/append-law")


def thorough(ctx):
    # type-level remainder: external code cannot forge the bookkeeping these rules rely on (witnesses W1-W6)
    from engine import witness
    return witness.run(ctx, PROPERTY)
