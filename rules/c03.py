"""C03 — the target is left running and undisturbed (structural clauses)."""
import os
from engine.mir import CalleeView, norm
from engine.origin import Origin, strip, core, show, root, walk, nosite, is_const
from engine.paths import Exits, must_pass, witness_path, conditions, switch_atom

PROPERTY = "C03"
EXPLANATION = ("Pairing/ordering rules on MIR (elaborated drops): (drop-resumes) PtraceDumper::drop passes resume_threads then "
               "continue_process on every path; (dumper-dropped) from the point a PtraceDumper exists in dump()/new_report_soft_errors "
               "every return and unwind exit passes its Drop (or moves it to the caller), no PtraceDumper flows into forget/ManuallyDrop/"
               "leak/Rc/Arc, no panic=abort profile; (resume-all) resume_threads walks exactly self.threads with no early loop exit, "
               "clears threads_suspended on every path, detach maps ESRCH to Ok and SIGCONT is sent to the dumper's pid; (attach-detach) in "
               "suspend_thread every error exit after a successful attach passes ptrace_detach(child) except the two reviewed exceptions, "
               "and suspend_threads keeps a tid iff suspend_thread returned Ok; (reinject) a non-SIGSTOP stop is passed on with "
               "ptrace::cont(pid, that signal) and the wait loop is left only on SIGSTOP; (resume-before-return) generate_dump resumes "
               "threads on every success path.")
TRUSTED = ["kernel ptrace/waitpid semantics", "nix wrappers", "rustc drop elaboration"]
ASSUMPTIONS = ["signal delivery counts and stop states under arbitrary interleavings are kernel schedules, not decided here",
               "reviewed exception: WaitStatus other than Stopped after attach means the tracee exited/was killed (nothing to detach)",
               "reviewed exception: ptrace::cont failing after a successful wait can only be ESRCH (tracee gone)"]

PD = "linux::ptrace_dumper::PtraceDumper"
DETACH = "linux::ptrace_dumper::ptrace_detach"


def rule_drop_resumes(ctx, R="C03/drop-resumes"):
    b = ctx.body(R, "<%s as std::ops::Drop>::drop" % PD)
    if b is None:
        return
    o = Origin(b)
    res = [bi for bi, t in b.calls(lambda c: c.is_(PD + "::resume_threads"))]
    con = [bi for bi, t in b.calls(lambda c: c.is_(PD + "::continue_process"))]
    if not res:
        # the same thing spelled out: a loop in Drop itself that detaches thread by thread (`for t in &self.threads { resume_thread(t.tid) }`)
        for h, body in b.loops().items():
            if any(b.term(x)["k"] == "call" and CalleeView(b.term(x)["callee"]).is_(PD + "::resume_thread", DETACH) for x in body):
                res = [h]
    if not res:
        # ... or as `self.threads.iter().for_each(|t| { resume_thread(t.tid) })`: for_each is a consumer, its closure runs for every element
        for bi, t in b.calls(lambda c: (c.short or "") == "std::iter::Iterator::for_each"):
            cls = [q for q in walk(o.call_args(bi)[1]) if q[0] == "closure"]
            for q in cls:
                for cb_ in ctx.prog.by_short.get(q[1], ()):
                    if any(True for _x, _t in cb_.calls(lambda c: c.is_(PD + "::resume_thread", DETACH))):
                        res = [bi]
    ctx.floor(R, "resume_threads call in Drop", len(res), 1)
    ctx.floor(R, "continue_process call in Drop", len(con), 1)
    if not res or not con:
        return
    rets = [i for i in range(b.n) if b.term(i)["k"] == "return"]
    w = must_pass(b, 0, rets, res)
    if w is not None:
        # a spelled-out Drop repeats resume_threads' own guard: `if self.threads_suspended { detach all }`.  Then every path passes the
        # test of that flag, and from its true edge every path passes the detaching loop; skipping it when nothing is suspended is what
        # resume_threads does itself
        for g in range(b.n):
            t = b.term(g)
            if t["k"] != "switch" or t.get("oty") != "bool":
                continue
            atom, _h = switch_atom(b, o, g)
            if not any(q[0] == "field" and q[2] == "threads_suspended" for q in walk(atom)):
                continue
            neg = core(atom)[0] == "un" and core(atom)[1] == "Not"      # `if !suspended` materialised as a negated temporary
            tru = [s_ for (s_, lab) in b.succ_edges(g) if (lab[0] == "sw" and lab[1] == 0) == neg]
            if tru and must_pass(b, 0, rets, [g]) is None and all(must_pass(b, s_, rets, res) is None for s_ in tru):
                w = None
    ctx.check(w is None, R, "always-resumes", b.where(res[0]), "Drop resumes the threads on every path (on which any are suspended)", "a path through Drop skips resume_threads", detail={"path": w})
    w = must_pass(b, 0, rets, con)
    ctx.check(w is None, R, "always-continues", b.where(con[0]), "Drop sends SIGCONT on every path", "a path through Drop skips continue_process", detail={"path": w})
    ctx.check(all(c in b.reachable_from(r, unwind=False) and r not in b.reachable_from(c, unwind=False) for r in res for c in con), R, "order", b.where(con[0]),
              "threads are detached before the process is continued", "continue_process can run before resume_threads")
    for bi in res + con:
        if b.term(bi)["k"] != "call" or not CalleeView(b.term(bi)["callee"]).is_(PD + "::resume_threads", PD + "::continue_process"):
            continue
        a0 = o.call_args(bi)[0]
        ctx.check(root(strip(a0)) == ("param", 1), R, ("self", b.term(bi)["callee"]["def"].split("::")[-1]), b.where(bi), "called on self", "not called on self: %s" % show(a0))
    # continue_process: kill(self.pid, SIGCONT)
    cb = ctx.body(R, PD + "::continue_process")
    if cb is not None:
        co = Origin(cb)
        ks = list(cb.calls(lambda c: c.is_("nix::sys::signal::kill")))
        ctx.floor(R, "kill in continue_process", len(ks), 1)
        for bi, t in ks:
            a = co.call_args(bi)
            pid_ok = any(s[0] == "field" and s[2] == "pid" and root(s[1]) == ("param", 1) for s in walk(a[0]))
            sig = strip(a[1])
            sig_v = None
            for s in walk(sig):
                if is_const(s):
                    sig_v = s[1]
                if s[0] == "agg" and s[1].endswith("signal::Signal") and s[2] == "SIGCONT":
                    sig_v = 18
            ctx.check(pid_ok and sig_v == 18, R, "sigcont-to-pid", cb.where(bi), "continue_process sends SIGCONT (18) to self.pid", "continue_process sends %s to %s" % (show(sig), show(a[0])))


LAZY_ADAPTORS = {"map", "filter", "filter_map", "inspect", "take_while", "skip_while", "map_while", "flat_map", "scan", "zip", "chain", "enumerate",
                 "peekable", "rev", "skip", "take", "step_by", "cloned", "copied"}


def rule_lazy_consumed(ctx, R="C03/lazy-effects-consumed"):
    """an iterator adaptor does nothing until something pulls from it.  Every `Iterator::map/filter/inspect/...` call of the crate hands
    its result to something (another adaptor, a consumer, a `for`, the caller); a result that is only dropped — `let _ =
    self.threads.iter().map(|t| Self::resume_thread(t.tid));` — means the closure, and with it the detach / push / write it performs,
    never runs (rustc's unused_must_use is silenced by `let _ =`)."""
    import json
    n = 0
    for b in ctx.prog.bodies:
        if "::test" in b.short or b.short.startswith("bin::"):
            continue
        for bi, t in b.calls():
            cv = CalleeView(t["callee"])
            sh = cv.short or ""
            if not (sh.startswith("std::iter::Iterator::") and sh.split("::")[-1] in LAZY_ADAPTORS and t.get("dest") and not t["dest"]["proj"]):
                continue
            n += 1
            l = t["dest"]["l"]
            used = l == 0
            pat1, pat2 = '"l": %d,' % l, '"l": %d}' % l
            for blk in b.blocks:
                if used:
                    break
                for st in blk["stmts"]:
                    if st["k"] == "assign":
                        js = json.dumps(st["r"])
                        if pat1 in js or pat2 in js:
                            used = True
                tt = blk["term"]
                if tt["k"] == "call":
                    for a in tt["args"]:
                        if isinstance(a, dict) and a.get("k") in ("copy", "move") and a["p"]["l"] == l:
                            used = True
            ctx.check(used, R, (b.short.split("::{closure")[0].split("::")[-1], sh.split("::")[-1]), b.where(bi), "the adaptor's result is consumed",
                      "the result of %s() in %s is never pulled from (it is only dropped): its closure never runs, whatever it was meant to do — detach a thread, record an error, write a record — does not happen" % (sh.split("::")[-1], b.short),
                      nontrivial=False)
    ctx.floor(R, "lazy iterator adaptors in the crate", n, 10)


def dumper_locals(b):
    return [i for i, l in enumerate(b.locals) if l["ty"] == PD]


def rule_dumper_dropped(ctx):
    R = "C03/dumper-dropped"
    n = 0
    for fn in ("linux::minidump_writer::MinidumpWriter::dump", PD + "::new_report_soft_errors"):
        b = ctx.body(R, fn)
        if b is None:
            continue
        short = fn.split("::")[-1]
        dl = [l for l in dumper_locals(b)]
        # the long-lived local: the one that is dropped / borrowed (user variable `dumper`)
        cands = [l for l in dl if b.locals[l].get("name") == "dumper"]
        if len(cands) != 1:
            ctx.unproven(R, (short, "local"), b.where(0), "expected one PtraceDumper user local named by debuginfo, found %s" % [b.locals[l].get("name") for l in dl])
            continue
        L = cands[0]
        defs = [d for d in b.defs.get(L, ()) if d[2] in ("assign", "call")]
        drops = [bi for bi in range(b.n) if b.term(bi)["k"] == "drop" and b.term(bi)["p"]["l"] == L and not b.term(bi)["p"]["proj"]]
        # moves of the whole local (to the caller via _0 or into a call)
        moves = []
        for bi, blk in enumerate(b.blocks):
            for si, st in enumerate(blk["stmts"]):
                if st["k"] == "assign":
                    for op in ops_of(st["r"]):
                        if op["k"] == "move" and op["p"]["l"] == L and not op["p"]["proj"]:
                            moves.append((bi, si, st))
            t = blk["term"]
            if t["k"] == "call":
                for a in t["args"]:
                    if a["k"] == "move" and a["p"]["l"] == L and not a["p"]["proj"]:
                        moves.append((bi, "term", t))
        ok_move_blocks = set()
        for bi, si, st in moves:
            # accepted: moved into the function's return value Ok(dumper), directly or through one temporary
            # that is consumed by `_0 = Ok(move tmp)` later in the same block
            accepted = False
            if si != "term" and st["r"]["k"] == "agg" and st["p"]["l"] == 0:
                accepted = True
            elif si != "term" and st["r"]["k"] == "use" and not st["p"]["proj"]:
                tmp = st["p"]["l"]
                for st2 in b.blocks[bi]["stmts"][si + 1:]:
                    if st2["k"] == "assign" and st2["p"]["l"] == 0 and st2["r"]["k"] == "agg" and any(
                            o_["k"] == "move" and o_["p"]["l"] == tmp and not o_["p"]["proj"] for o_ in st2["r"]["ops"]):
                        accepted = True
            if accepted:
                ok_move_blocks.add(bi)
            else:
                ctx.violated(R, (short, "moved"), b.where(bi, si), "the PtraceDumper is moved out of its owner (ownership/Drop can be lost)")
        exits = [i for i in range(b.n) if b.term(i)["k"] in ("return", "resume")]
        aborts = [i for i in range(b.n) if b.term(i)["k"] == "abort"]
        for d in defs:
            db = d[0]
            start = b.term(db)["t"] if d[2] == "call" else db
            if d[2] == "assign" and d[1] != "term":
                start = db
            through = set(drops) | ok_move_blocks
            w = must_pass(b, start, exits, through, unwind=True) if start not in through else None
            n += 1
            ctx.check(w is None, R, (short, "every-exit-drops"), b.where(db),
                      "from its creation every return and unwind exit of %s passes Drop(dumper)%s (%d drop sites)" % (short, " or returns it" if ok_move_blocks else "", len(drops)),
                      "an exit of %s is reachable without dropping the PtraceDumper: the target would stay stopped/attached" % short, detail={"path": w})
    ctx.floor(R, "dumper creation sites checked", n, 2)
    # leak sinks
    leak = ("std::mem::forget", "std::mem::ManuallyDrop::new", "std::boxed::Box::leak", "std::rc::Rc::new", "std::sync::Arc::new",
            "std::mem::MaybeUninit::new", "std::boxed::Box::into_raw", "std::ptr::write")
    bad = []
    for b in ctx.prog.bodies:
        for bi, t in b.calls(lambda c: c.short in leak):
            if any(a["k"] in ("copy", "move") and PD in a["p"]["ty"] for a in t["args"]) or PD in (CalleeView(t["callee"]).inst or ""):
                bad.append("%s in %s (%s)" % (CalleeView(t["callee"]).short, b.short, b.where(bi)))
    ctx.check(not bad, R, "no-leak-sink", None, "no PtraceDumper flows into forget/ManuallyDrop/leak/Rc/Arc", "PtraceDumper can escape its Drop: %s" % bad, nontrivial=False)
    # statics holding a dumper
    st_bad = [s["name"] for s in ctx.prog.statics if PD in s["ty"]]
    ctx.check(not st_bad, R, "no-static-dumper", None, "no static holds a PtraceDumper", "static(s) %s hold a PtraceDumper" % st_bad, nontrivial=False)
    # panic strategy
    ps = ctx.prog.j.get("panic_strategy")
    ctx.check(ps == "Unwind", R, "panic-unwind", None, "compiled with panic=unwind (Drop runs on panic)", "panic strategy is %s: Drop would not run on panic" % ps, nontrivial=False)
    cargo = os.path.join(ctx.repo, "Cargo.toml")
    try:
        import tomllib
        with open(cargo, "rb") as f:
            ct = tomllib.load(f)
        prof = ct.get("profile", {})
        pa = [k for k, v in prof.items() if isinstance(v, dict) and v.get("panic") == "abort"]
        ctx.check(not pa, R, "no-abort-profile", "Cargo.toml", "no cargo profile sets panic = \"abort\"", "profile(s) %s set panic=abort" % pa, nontrivial=False)
    except Exception as e:
        ctx.unproven(R, "no-abort-profile", "Cargo.toml", "cannot read Cargo.toml: %s" % e)


def ops_of(r):
    k = r["k"]
    if k in ("use", "cast", "unop", "repeat"):
        return [r["o"]]
    if k == "binop":
        return [r["a"], r["b"]]
    if k == "agg":
        return r["ops"]
    return []


def rule_resume_all(ctx):
    R = "C03/resume-all"
    b = ctx.body(R, PD + "::resume_threads")
    if b is None:
        return
    o = Origin(b)
    det = [bi for bi, t in b.calls(lambda c: c.is_(PD + "::resume_thread"))]
    ctx.floor(R, "resume_thread call in resume_threads", len(det), 1)
    loops = b.loops()
    for bi in det:
        inner = [h for h, body in loops.items() if bi in body]
        if not inner:
            ctx.violated(R, "loop", b.where(bi), "resume_thread is not called in a loop over the thread list")
            continue
        h = min(inner, key=lambda x: len(loops[x]))
        from rules.c01 import loop_item
        item = loop_item(b, o, h)
        src_ok = False
        if item:
            it = strip(item[0][2][0])
            src_ok = it[0] == "field" and it[2] == "threads" and root(it[1]) == ("param", 1)
        ctx.check(src_ok, R, "iterates-self.threads", b.where(h), "the detach loop iterates exactly self.threads", "the detach loop iterates %s" % (show(item[0])[:120] if item else "?"))
        tid = core(o.call_args(bi)[0])
        ctx.check(tid[0] == "field" and tid[2] == "tid" and any(s == ("some", item[0]) for s in walk(tid)) if item else False, R, "detaches-element-tid", b.where(bi),
                  "each iteration detaches the current element's tid", "detached tid is %s" % show(tid)[:120])
        # no exit from the loop body other than the iterator-exhausted edge of the header's next()
        exits = []
        for x in loops[h]:
            for (s, lab) in b.succ_edges(x):
                if lab == ("unwind",):
                    continue
                if s not in loops[h]:
                    exits.append((x, s))
        good = True
        for (x, s) in exits:
            t = b.term(x)
            if not (t["k"] == "switch" and switch_atom(b, o, x)[0][0] == "discr" and strip(switch_atom(b, o, x)[0][1])[0] == "call" and strip(switch_atom(b, o, x)[0][1])[1].split("::")[-1] == "next"):
                # unreachable arms are fine
                if b.term(s)["k"] == "unreachable":
                    continue
                good = False
        ctx.check(good and exits, R, "no-early-exit", b.where(h), "one thread's detach error cannot skip the remaining threads (the loop is left only when the iterator is exhausted)",
                  "the detach loop can be left early at %s" % [b.where(x) for x, s in exits])
    # guard: once threads_suspended is read true, every path to the return runs the detach loop over self.threads
    # (an alternative branch that resumes "some other way" is not the loop this rule has checked)
    guards = []
    for x in range(b.n):
        if b.blocks[x]["cleanup"] or b.term(x)["k"] != "switch":
            continue
        a, _ = switch_atom(b, o, x)
        a = strip(a)
        if a[0] == "field" and a[2] == "threads_suspended" and root(a[1]) == ("param", 1):
            guards.append(x)
    ctx.floor(R, "branch on self.threads_suspended", len(guards), 1)
    rets0 = [i for i in range(b.n) if b.term(i)["k"] == "return"]
    heads = set()
    for bi in det:
        inner = [h for h, body in loops.items() if bi in body]
        if inner:
            heads.add(min(inner, key=lambda x: len(loops[x])))
    for x in guards:
        for (tgt, lab) in b.succ_edges(x):
            if lab[0] != "sw" or lab[1] == 0:
                continue
            w = must_pass(b, tgt, rets0, heads) if heads else [tgt]
            ctx.check(w is None, R, "suspended=>loop", b.where(x), "whenever threads_suspended is set, every path to the return runs the per-thread detach loop",
                      "with threads_suspended set, resume_threads can return without running the detach loop over self.threads (path %s)" % ([b.where(y) for y in (w or [])][:6]))
    # threads_suspended = false on every path to return
    stores = [bi for bi, blk in enumerate(b.blocks) for st in blk["stmts"] if st["k"] == "assign" and st["p"]["proj"] and st["p"]["proj"][-1].get("n") == "threads_suspended"]
    rets = [i for i in range(b.n) if b.term(i)["k"] == "return"]
    # (a path on which the flag was just read false needs no store)
    starts = [tgt for x in guards for (tgt, lab) in b.succ_edges(x) if lab[0] == "sw" and lab[1] != 0] or [0]
    w = None
    for st0 in starts:
        w = w or must_pass(b, st0, rets, stores)
    ctx.check(bool(stores) and w is None, R, "clears-flag", b.where(stores[0]) if stores else None, "threads_suspended is cleared on every path", "threads_suspended can stay set")
    # guard: the loop runs iff threads_suspended
    # resume_thread == ptrace_detach(child)
    rb = ctx.body(R, PD + "::resume_thread")
    if rb is not None:
        ro = Origin(rb)
        ds = list(rb.calls(lambda c: c.is_(DETACH)))
        ctx.check(len(ds) == 1 and ro.call_args(ds[0][0])[0] == ("param", 1), R, "resume_thread=detach", rb.where(0), "resume_thread is ptrace_detach(child)", "resume_thread does not simply detach its argument")
    # ptrace_detach: detach(from_raw(child), None) and ESRCH -> Ok
    db = ctx.body(R, DETACH)
    if db is not None:
        do = Origin(db)
        ds = list(db.calls(lambda c: c.is_("nix::sys::ptrace::detach")))
        ctx.floor(R, "ptrace::detach call", len(ds), 1)
        for bi, t in ds:
            a = do.call_args(bi)
            okp = strip(a[0])[0] == "call" and strip(a[0])[1].endswith("Pid::from_raw") and strip(a[0])[2][0] == ("param", 1)
            oks = strip(a[1])[0] == "agg" and strip(a[1])[2] == "None"
            ctx.check(okp and oks, R, "detach-args", db.where(bi), "detach(pid(child), None): no signal is injected on detach", "detach called with %s, %s" % (show(a[0]), show(a[1])))
        # e == ESRCH -> Ok(()): in the or_else closure (`if e == ESRCH`) or in ptrace_detach itself (`Err(Errno::ESRCH) => Ok(())`)
        cl = [c for c in ctx.prog.closures_of(db)] + [db]
        okc = False

        def leads_to_ok(c, s):
            for _ in range(4):
                for st in c.blocks[s]["stmts"]:
                    if st["k"] == "assign" and st["p"]["l"] == 0 and st["r"]["k"] == "agg" and st["r"].get("vname") == "Ok":
                        return True
                if c.term(s)["k"] != "goto":
                    return False
                s = c.term(s)["t"]
            return False
        for c in cl:
            co = Origin(c)
            for x in range(c.n):
                t = c.term(x)
                if t["k"] == "switch":
                    atom, hint = switch_atom(c, co, x)
                    consts = [s for s in walk(atom) if is_const(s)]
                    is_bool = t.get("oty") == "bool"
                    if is_bool and any(k[1] == 3 for k in consts):  # ESRCH = 3
                        # the true edge leads to an Ok aggregate
                        for (s, lab) in c.succ_edges(x):
                            if lab[0] == "sw" and lab[1] != 0 and leads_to_ok(c, s):
                                okc = True
                    elif not is_bool and ("errval(" in show(atom) or "Errno" in show(atom)) and "detach" in show(atom):
                        # a match on the errno itself: the arm for the value 3
                        for (s, lab) in c.succ_edges(x):
                            if lab[0] == "sw" and lab[1] == 3 and leads_to_ok(c, s):
                                okc = True
        ctx.check(okc, R, "esrch-is-ok", db.where(0), "detach treats ESRCH (thread already gone) as success", "ESRCH is not mapped to Ok in ptrace_detach")


def rule_attach_detach(ctx):
    R = "C03/attach-detach"
    b = ctx.body(R, PD + "::suspend_thread")
    if b is None:
        return
    o = Origin(b)
    att = [bi for bi, t in b.calls(lambda c: c.is_("nix::sys::ptrace::attach"))]
    ctx.floor(R, "ptrace::attach call", len(att), 1)
    if len(att) != 1:
        return
    from rules.c09 import success_successor
    # success edge of attach(..).map_err(..)? : find the Try::branch whose operand derives from attach
    start = None
    for bi, t in b.calls(lambda c: c.short == "std::ops::Try::branch"):
        e = o.call_args(bi)[0]
        if any(s[0] == "call" and s[1] == "nix::sys::ptrace::attach" for s in walk(e)):
            sw = b.term(bi)["t"]
            for v, tb in b.term(sw)["targets"]:
                if v == 0:
                    start = tb
    if start is None:
        ctx.unproven(R, "attach-success-edge", b.where(att[0]), "cannot locate the success edge of ptrace::attach(..)?")
        return
    det = {bi for bi, t in b.calls(lambda c: c.is_(DETACH)) if o.call_args(bi)[0] == ("param", 1)}
    ctx.floor(R, "ptrace_detach(child) calls in suspend_thread", len(det), 2)
    ex = Exits(b)
    n_det, n_exc = 0, 0
    seen_keys = {}
    for (eb, si) in sorted(ex.err_defs, key=lambda x: str(x)):
        if eb not in b.reachable_from(start, unwind=False):
            continue
        # classify the error value
        if si == "term":
            ev = o.call_expr(eb)
            desc = "propagated: " + show(ev)[:80]
            kind = "propagated"
        else:
            ev = o._rvalue(b.blocks[eb]["stmts"][si]["r"], (eb, si), 0)
            inner = dict(ev[3]).get("0")
            desc = show(inner)[:120]
            kind = inner[2] if inner[0] == "agg" else "?"
        w = must_pass(b, start, {eb}, det)
        if w is None:
            n_det += 1
            k = (kind, "detached")
            seen_keys[k] = seen_keys.get(k, 0) + 1
            ctx.ok(R, ("err-exit", kind, "detached#%d" % seen_keys[k]), b.where(eb, si), "error exit %s is reached only after ptrace_detach(child)" % desc)
            continue
        # reviewed exceptions
        exc = None
        if kind == "WaitPidError":
            d = dict(inner[3])
            second = strip(d.get("1"))
            if second[0] == "agg" and second[2] == "UnknownErrno":
                # must be on the path where the wait status is not `Stopped`
                exc = "wait status is not Stopped: the tracee exited or was killed, nothing is attached any more"
            elif any(s[0] == "call" and s[1] == "nix::sys::ptrace::cont" for s in walk(second)):
                exc = "ptrace::cont failed right after a successful wait: only ESRCH (tracee gone) is possible"
        if exc:
            n_exc += 1
            ctx.ok(R, ("err-exit", kind, "exception:" + exc.split(":")[0]), b.where(eb, si), "reviewed exception — %s" % exc, nontrivial=False)
        else:
            ctx.violated(R, ("err-exit", kind, "undetached"), b.where(eb, si),
                         "suspend_thread can return Err(%s) after a successful attach without detaching: the thread stays traced/stopped and is dropped from the list resume_threads walks" % desc,
                         detail={"path": w})
    ctx.floor(R, "error exits that detach first", n_det, 3)
    ctx.check(n_exc <= 2, R, "exception-count", b.where(0), "%d reviewed exception exit(s)" % n_exc, "%d undetached exception exits (reviewed: 2)" % n_exc, nontrivial=False)
    # retain closure keeps iff Ok
    sb = ctx.body(R, PD + "::suspend_threads")
    if sb is not None:
        so = Origin(sb)
        rt = list(sb.calls(lambda c: c.short == "std::vec::Vec::retain"))
        ctx.floor(R, "retain over threads", len(rt), 1)
        for bi, t in rt:
            a = so.call_args(bi)
            recv = strip(a[0])
            ctx.check(recv[0] == "field" and recv[2] == "threads" and root(recv[1]) == ("param", 1), R, "retain-on-self.threads", sb.where(bi), "retain filters self.threads", "retain filters %s" % show(recv))
            cl = strip(a[1])
            if cl[0] != "closure":
                ctx.unproven(R, "retain-closure", sb.where(bi), "retain predicate is not a closure literal")
                continue
            cb = ctx.prog.by_short[cl[1]][0]
            co = Origin(cb)
            good = True
            cnt = 0
            for x, blk in enumerate(cb.blocks):
                for si, st in enumerate(blk["stmts"]):
                    if st["k"] == "assign" and st["p"]["l"] == 0 and not st["p"]["proj"]:
                        v = co._rvalue(st["r"], (x, si), 0)
                        dnf = conditions(cb, x, origin=co, relevant=lambda a_: a_[0] == "discr" and strip(a_[1])[0] == "call" and strip(a_[1])[1].endswith("suspend_thread"))
                        lits = {vv for c in (dnf or []) for (_, vv) in c}
                        cnt += 1
                        if not (is_const(v) and len(lits) == 1 and ((v[1] == 1 and lits == {0}) or (v[1] == 0 and lits == {1}))):
                            good = False
            ctx.check(good and cnt >= 2, R, "retain-iff-ok", cb.where(0), "a tid is kept iff suspend_thread(tid) returned Ok (attached threads stay in the list that resume_threads walks)",
                      "the retain predicate does not mirror suspend_thread's result")
            # the tid passed is the element's tid
            for x, t2 in cb.calls(lambda c: c.is_(PD + "::suspend_thread")):
                tid = core(co.call_args(x)[0])
                ctx.check(tid[0] == "field" and tid[2] == "tid" and root(tid[1]) == ("param", 2), R, "retain-elem-tid", cb.where(x), "suspend_thread is applied to the element's own tid", "suspend_thread applied to %s" % show(tid))
        # threads_suspended = true after retain
        st_ok = any(st["k"] == "assign" and st["p"]["proj"] and st["p"]["proj"][-1].get("n") == "threads_suspended" and st["r"]["k"] == "use" and st["r"]["o"].get("v") == 1
                    for blk in sb.blocks for st in blk["stmts"])
        ctx.check(st_ok, R, "sets-flag", sb.where(0), "suspend_threads records threads_suspended = true", "threads_suspended is not set after attaching")


def rule_blocking_wait(ctx, R="C03/attach-detach"):
    """PTRACE_DETACH (and every other request) is accepted only while the tracee is in a ptrace-stop: after PTRACE_ATTACH the dumper
    must WAIT for the stop — waitpid with __WALL and nothing else (no WNOHANG polling with a give-up path: detaching a tracee that has
    not stopped yet fails with ESRCH, which ptrace_detach maps to Ok, and the thread stays attached for good)."""
    b = ctx.body(R, PD + "::suspend_thread")
    if b is None:
        return
    o = Origin(b)
    ws = [(bi, o.call_args(bi)) for bi, t in b.calls(lambda c: (c.short or "").endswith("wait::waitpid"))]
    ctx.floor(R, "waitpid after attach", len(ws), 1)
    for bi, a in ws:
        nm = CalleeView(b.term(bi)["callee"]).short
        ctx.check(nm == "nix::sys::wait::waitpid", R, ("blocking-wait", "nix-waitpid"), b.where(bi), "the wait is nix's waitpid (the system call)",
                  "the attach stop is awaited through %s, a function of the crate that carries the system call's name: what flags reach the kernel, and whether it gives up, is decided there" % nm)
        fl = strip(a[1])
        val = None
        if fl[0] == "agg" and fl[2] == "Some":
            v = core(dict(fl[3])["0"])
            if is_const(v) and isinstance(v[1], int):
                val = v[1]
        ctx.check(val == 0x40000000, R, "blocking-wait", b.where(bi), "the stop is awaited with waitpid(tid, __WALL): blocking, all children",
                  "the attach stop is awaited with flags %s (expected exactly __WALL = 0x40000000): with WNOHANG the tracee may not have stopped when the code goes on to detach" % (hex(val) if val is not None else show(fl)[:60]))


def rule_reinject(ctx):
    R = "C03/reinject"
    b = ctx.body(R, PD + "::suspend_thread")
    if b is None:
        return
    o = Origin(b)
    conts = list(b.calls(lambda c: c.is_("nix::sys::ptrace::cont")))
    waits = list(b.calls(lambda c: c.is_("nix::sys::wait::waitpid")))
    ctx.floor(R, "ptrace::cont call", len(conts), 1)
    ctx.floor(R, "waitpid call", len(waits), 1)
    if not conts or not waits:
        return
    loops = b.loops()
    wb = waits[0][0]
    inner = [h for h, body in loops.items() if wb in body]
    if not inner:
        ctx.violated(R, "wait-loop", b.where(wb), "waitpid is not in a loop")
        return
    h = min(inner, key=lambda x: len(loops[x]))
    for bi, t in conts:
        a = o.call_args(bi)
        sig = strip(a[1])
        # sig == payload .1 of the Stopped status of this iteration's waitpid result
        ok_sig = sig[0] == "field" and sig[2] == "1" and sig[1][0] == "variant" and sig[1][2] == "Stopped" and any(s[0] == "call" and s[1].endswith("wait::waitpid") and s[3][1] == wb for s in walk(sig))
        ctx.check(ok_sig, R, "cont-same-signal", b.where(bi), "the signal passed to ptrace::cont is the one reported by this iteration's waitpid", "ptrace::cont is given %s" % show(sig)[:160])
        pid_a = strip(a[0])
        wpid = strip(o.call_args(wb)[0])
        ctx.check(nosite(pid_a) == nosite(wpid), R, "cont-same-pid", b.where(bi), "continued pid is the waited pid", "cont pid %s vs wait pid %s" % (show(pid_a), show(wpid)))
        ctx.check(bi in loops[h], R, "cont-in-loop", b.where(bi), "after re-injection the loop waits again", "ptrace::cont is outside the wait loop")
        # reached only when the signal is not SIGSTOP
        dnf = conditions(b, bi, origin=o, entry=h, relevant=lambda a_: a_[0] == "call" and "PartialEq" in a_[1] and a_[1].split("::")[-1] == "eq")
        okg = bool(dnf) and all(any(v == 0 and any(is_const(s) and s[1] == 19 for s in walk(a_)) for (a_, v) in c) for c in dnf)
        ctx.check(okg, R, "cont-iff-not-sigstop", b.where(bi), "re-injection happens exactly for stops that are not SIGSTOP (19)", "re-injection is not guarded by signal != SIGSTOP")
    # the loop is left towards the success path only under signal == SIGSTOP
    ex = Exits(b)
    okb = ex.ok_blocks()
    for ob in okb:
        dnf = conditions(b, ob, origin=o, entry=h, relevant=lambda a_: a_[0] == "call" and "PartialEq" in a_[1] and a_[1].split("::")[-1] == "eq")
        okg = bool(dnf) and all(any(v == 1 and any(is_const(s) and s[1] == 19 for s in walk(a_)) for (a_, v) in c) for c in dnf)
        ctx.check(okg, R, "success-only-after-sigstop", b.where(ob), "suspend_thread returns Ok only after a SIGSTOP stop was observed", "Ok can be returned without having consumed the SIGSTOP stop")
    # EINTR retries: an Err(EINTR) from waitpid goes back to the loop header without detaching or returning
    n_eintr = 0
    for x in loops[h]:
        t = b.term(x)
        if t["k"] == "switch":
            atom, hint = switch_atom(b, o, x)
            if atom[0] == "discr" and atom[1][0] in ("errval",) or (atom[0] == "discr" and "Err" in show(atom)):
                for (s, lab) in b.succ_edges(x):
                    if lab[0] == "sw" and lab[1] == 4:  # Errno::EINTR discriminant value 4
                        n_eintr += 1
                        w = witness_path(b, s, {h})
                        ctx.check(w is not None and all(b.term(y)["k"] == "goto" for y in w[:-1]), R, "eintr-retries", b.where(x), "EINTR from waitpid retries the wait", "EINTR does not simply retry")
    ctx.floor(R, "EINTR retry edge", n_eintr, 1)


PTRACE_REQ = ("nix::sys::ptrace::", "libc::ptrace")
SPAWN_LAST = ("spawn", "spawn_scoped", "spawn_unchecked", "spawn_unchecked_")


def rule_tracer_thread(ctx, R="C03/tracer-thread"):
    """ptrace requests are accepted only from the task that attached; a request made on another thread fails with ESRCH, which
    ptrace_detach maps to Ok.  So no ptrace request may be reachable from the entry closure of a spawned thread."""
    prog = ctx.prog
    users = {}
    for b in prog.bodies:
        for bi, t in b.calls(lambda c: (c.short or "").startswith(PTRACE_REQ)):
            users.setdefault(b.short, []).append((b, bi))
    ctx.floor(R, "ptrace request call sites", sum(len(v) for v in users.values()), 8)
    cg = prog.callgraph()
    if isinstance(cg, tuple):
        cg = cg[0]

    def reach(n):
        seen, todo = set(), [n]
        while todo:
            x = todo.pop()
            if x in seen:
                continue
            seen.add(x)
            todo.extend(cg.get(x, ()))
        return seen
    n_spawn = 0
    for b in prog.bodies:
        sp = [(bi, t) for bi, t in b.calls(lambda c: (c.short or "").split("::")[-1] in SPAWN_LAST and "thread" in (c.short or ""))]
        if not sp:
            continue
        o = Origin(b)
        for bi, t in sp:
            n_spawn += 1
            entries = [a for arg in o.call_args(bi) for a in walk(arg) if a[0] == "closure"]
            key = b.short.split("::{closure")[0].split("::")[-1]
            if not entries:
                ctx.unproven(R, (key, "thread-entry"), b.where(bi), "a thread is spawned with an entry that is not a closure literal; what runs on it is not resolved")
                continue
            bad = []
            for e in entries:
                for f in sorted(reach(e[1])):
                    if f in users:
                        ub, ubi = users[f][0]
                        bad.append("%s (%s)" % (f.split("::{closure")[0].split("::")[-1], ub.where(ubi)))
            ctx.check(not bad, R, (key, "no-ptrace-on-spawned-thread"), b.where(bi), "the spawned thread issues no ptrace request",
                      "a ptrace request is issued from a spawned thread (%s): only the attaching thread is the tracer, the request fails with ESRCH and detach reports success" % ", ".join(sorted(set(bad))[:4]))
    ctx.ok(R, "spawn-sites", None, "thread spawn sites examined: %d" % n_spawn, nontrivial=False)


import re as _re
DISTURBING = _re.compile(r"^(nix::sys::signal::(kill|killpg|raise)|nix::sys::ptrace::|libc::(ptrace|kill|tgkill|tkill|killpg|prctl|setpriority|sched_setaffinity|process_vm_writev|pidfd_send_signal)$|nix::sys::uio::process_vm_writev|nix::unistd::(setpgid|setsid))")
# every place in the crate (reachable or not) that can change the state of another process, with what it may do there
INVENTORY = {
    ("PtraceDumper::stop_process", "kill"): "SIGSTOP to the dumper's pid",
    ("PtraceDumper::continue_process", "kill"): "SIGCONT to the dumper's pid",
    ("PtraceDumper::suspend_thread", "attach"): "attach to the tid being suspended",
    ("PtraceDumper::suspend_thread", "cont"): "re-inject a non-SIGSTOP stop signal (C03/reinject)",
    ("ptrace_dumper::ptrace_detach", "detach"): "detach without a signal",
    ("MemReader::ptrace", "read"): "PTRACE_PEEKDATA: reads a word",
    ("CommonThreadInfo::ptrace_get_data", "ptrace"): "read-only requests only (C04/ptrace-requests: GETREGS 12, GETFPREGS 14)",
    ("CommonThreadInfo::ptrace_get_data_via_io", "ptrace"): "read-only request only (C04/ptrace-requests: GETREGSET 0x4204)",
    ("CommonThreadInfo::ptrace_peek", "ptrace"): "read-only request only (C04/ptrace-requests: PEEKUSER 3)",
}
READ_ONLY_PTRACE = {"read", "getregs", "getregset", "getsiginfo", "getevent", "read_user"}
ALLOWED_SIGNALS = {"PtraceDumper::stop_process": "SIGSTOP", "PtraceDumper::continue_process": "SIGCONT"}


def rule_disturbance_inventory(ctx, R="C03/disturbance-inventory"):
    """`undisturbed`: the only things this crate ever does to another process are the reviewed ones — SIGSTOP/SIGCONT to the target,
    attach / re-inject / detach of its threads, and read-only ptrace requests.  Every call of a state-changing primitive (signals,
    any ptrace request, process_vm_writev, prctl ...) anywhere in the crate must be an inventory entry; signals are the two named
    ones, sent to the dumper's own pid field."""
    prog = ctx.prog
    n = 0
    seen = set()
    for b in prog.bodies:
        o = None
        for bi, t in b.calls(lambda c: DISTURBING.search(c.short or "") is not None):
            cv = CalleeView(t["callee"])
            prim = (cv.short or "").split("::")[-1]
            fn = "::".join(b.short.split("::{closure")[0].split("::")[-2:]).replace("<impl linux::ptrace_dumper::PtraceDumper>", "PtraceDumper")
            fn = fn.split(">::")[-1] if fn.startswith("<") else fn
            key = (fn, prim)
            n += 1
            seen.add(key)
            why = INVENTORY.get(key)
            if why is None and prim in READ_ONLY_PTRACE and (cv.short or "").startswith("nix::sys::ptrace::"):
                why = "read-only ptrace request"
            ctx.check(why is not None, R, key + ("#%d" % sum(1 for x, _ in b.calls(lambda c: (c.short or "") == cv.short) if x <= bi),), b.where(bi), "reviewed: %s" % why,
                      "%s calls %s: a way of changing the target's state that is not in the reviewed inventory (the target must be left running and undisturbed)" % (fn, cv.short))
            if prim == "kill" and why is not None:
                o = o or Origin(b)
                a = o.call_args(bi)
                sig = strip(a[1])
                signame = strip(dict(sig[3])["0"])[2] if sig[0] == "agg" and sig[2] == "Some" and strip(dict(sig[3])["0"])[0] == "agg" else None
                pid = strip(a[0])
                okpid = pid[0] == "call" and pid[1].endswith("Pid::from_raw") and core(pid[2][0])[0] == "field" and core(pid[2][0])[2] == "pid" and root(core(pid[2][0])[1]) == ("param", 1)
                ctx.check(signame == ALLOWED_SIGNALS.get(fn) and okpid, R, key + ("signal",), b.where(bi), "%s sends %s to self.pid" % (fn.split("::")[-1], signame),
                          "%s sends %s to %s (expected %s to self.pid)" % (fn.split("::")[-1], signame or show(sig)[:40], show(pid)[:50], ALLOWED_SIGNALS.get(fn)))
    ctx.floor(R, "state-changing primitive call sites in the crate", n, 10)


def rule_resume_before_return(ctx):
    R = "C03/resume-before-return"
    from rules.c01 import GEN
    b = ctx.body(R, GEN)
    if b is None:
        return
    res = [bi for bi, t in b.calls(lambda c: c.is_(PD + "::resume_threads"))]
    ctx.floor(R, "explicit resume_threads in generate_dump", len(res), 1)
    ex = Exits(b)
    for ob in ex.ok_blocks():
        w = must_pass(b, 0, {ob}, res)
        ctx.check(w is None, R, "on-every-success-path", b.where(res[0]) if res else None, "every success path of generate_dump resumes the threads explicitly (errors are collected)", "a success path skips resume_threads")


def run(ctx):
    rule_drop_resumes(ctx)
    rule_lazy_consumed(ctx)
    rule_dumper_dropped(ctx)
    rule_resume_all(ctx)
    rule_attach_detach(ctx)
    rule_blocking_wait(ctx)
    rule_reinject(ctx)
    rule_resume_before_return(ctx)
    rule_tracer_thread(ctx)
    rule_disturbance_inventory(ctx)
    # the raw libc::ptrace helpers of the inventory only ever issue the read-only requests (same rule instance as C04/ptrace-requests)
    from rules import c04 as _c04
    _c04.rule_ptrace_requests(ctx, R="C03/read-only-requests")
    # resume_threads / Drop detach exactly the threads that are LISTED: the list may only be edited by the attach filter
    # (same rule instance as C04/thread-list-mutators)
    from rules import c04
    c04.rule_thread_list_mutators(ctx, R="C03/thread-list-mutators")
    # shared infrastructure this property leans on (rules/families.py): each member is the same rule instance as in its home property
    from rules import families as _fam
    _fam.thread_list(ctx, "C03")
    # the stop is awaited on the kernel's own answer: Stat::state() of /proc/<pid>/stat == Stopped (same rule instance as C11/stop-state-source)
    from rules import c11 as _c11s
    _c11s.rule_stop_state_source(ctx, R="C03/stop-state-source")
    # `whether the request returns or unwinds`: a panic unwinds and the dumper's Drop resumes the target, an ABORT does not.  The one abort
    # a request can be talked into is an infallible allocation whose size the target or the caller controls (`vec![0; n]`,
    # `Vec::with_capacity(n)`: handle_alloc_error aborts), so the allocation sinks of the C02 ledger are obligations here as well
    # (same ledger, restricted to allocation sinks)
    from rules import c02 as _c02a
    from engine import taint as _T
    _taint = _T.Taint(ctx.prog, _c02a.ENTRIES)
    st_ = _c02a.ledger(ctx, _taint, "C03/no-abort-while-stopped", kinds=lambda k: k.startswith("call:alloc"))
    ctx.floor("C03/no-abort-while-stopped", "allocation sinks examined", st_["total"], 1)


def thorough(ctx):
    # type-level remainder: external code cannot forge the bookkeeping these rules rely on (witnesses W1-W6)
    from engine import witness
    return witness.run(ctx, PROPERTY)
