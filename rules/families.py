"""Rule families: shared infrastructure whose rules serve several properties.  A property's rule set calls the family it leans on; each
member is registered under the property's own name (`<ID>/reader-args` ...) unless that name already has results in this run."""


def _ensure(ctx, name, fn):
    if any(r["rule"] == name or r["rule"].startswith(name + "/") for r in ctx.results):
        return
    fn(name)


def reader(ctx, P, module=False):
    """the bytes come from the target: strategy wiring, short reads stay short, counts are the strategies' counts, the reader is built for
    the target, holds no stale bytes; with module=True also the module reader's pass-through"""
    from rules import c17, c14
    _ensure(ctx, P + "/reader-args", lambda n: c17.rule_args(ctx, R=n))
    _ensure(ctx, P + "/reader-prefix-only", lambda n: c17.rule_prefix_only(ctx, R=n))
    _ensure(ctx, P + "/reader-identity", lambda n: c17.rule_reader_identity(ctx, R=n))
    _ensure(ctx, P + "/reader-count", lambda n: c17.rule_count_from_strategy(ctx, R=n))
    _ensure(ctx, P + "/reader-unbuffered", lambda n: c17.rule_unbuffered(ctx, R=n))
    _ensure(ctx, P + "/reader-whole-request", lambda n: c17.rule_whole_request(ctx, R=n))
    _ensure(ctx, P + "/reader-no-address-veto", lambda n: c17.rule_no_address_veto(ctx, R=n))
    _ensure(ctx, P + "/reader-style-cache", lambda n: c17.rule_style_cache(ctx, R=n))
    _ensure(ctx, P + "/reader-probing-exhaustive", lambda n: c17.rule_probing_exhaustive(ctx, R=n))
    if module:
        _ensure(ctx, P + "/module-read-verbatim", lambda n: c14.rule_process_read_verbatim(ctx, R=n))


def mapping_list(ctx, P):
    """the mapping list is the aggregate of one whole reading of the memory map, merged only under the aggregation guards, and nobody
    else edits it"""
    from rules import c13, c04
    _ensure(ctx, P + "/mapping-extents", lambda n: c13.rule_merges(ctx, P=n))
    _ensure(ctx, P + "/whole-map-read", lambda n: c13.rule_whole_map_read(ctx, R=n))
    _ensure(ctx, P + "/mapping-list-writers", lambda n: c04.rule_mapping_list_mutators(ctx, R=n))
    _ensure(ctx, P + "/names-compared-as-stored", lambda n: c13.rule_compare_as_stored(ctx, R=n))
    _ensure(ctx, P + "/every-line-kept", lambda n: c13.rule_one_outcome(ctx, R=n))
    # the opaque predicates the aggregation guards lean on, against their oracle tables (rules/preds.py)
    from rules import preds
    for pn in ("is_empty_page", "is_mapping_a_path", "is_executable"):
        _ensure(ctx, P + "/pred-" + pn.replace("_", "-"), lambda n, pn=pn: preds.run(ctx, P, [pn]))


def thread_list(ctx, P):
    """the thread list: one entry per task, written by enumerate_threads/push and the attach filter only, a failed name read keeps the
    thread"""
    from rules import c04
    _ensure(ctx, P + "/thread-list-mutators", lambda n: c04.rule_thread_list_mutators(ctx, R=n))
    _ensure(ctx, P + "/every-tid-listed", lambda n: c04.rule_every_tid_listed(ctx, R=n))
    _ensure(ctx, P + "/one-record-per-thread", lambda n: c04.rule_one_per_thread(ctx, R=n))
    _ensure(ctx, P + "/skip-only-null-sp", lambda n: c04.rule_skip_only_null_sp(ctx, R=n))


def registers(ctx, P):
    """the registers are what ptrace returned for that tid, unmodified, asked for with the ABI's requests"""
    from rules import c04
    _ensure(ctx, P + "/regs-source", lambda n: c04.rule_regs_source(ctx, R=n))
    _ensure(ctx, P + "/ptrace-requests", lambda n: c04.rule_ptrace_requests(ctx, R=n))
    _ensure(ctx, P + "/fresh-context", lambda n: c04.rule_fresh_context(ctx, R=n))
    _ensure(ctx, P + "/reg-map", lambda n: c04.rule_reg_map(ctx, R=n))


def image_builder(ctx, P):
    """the image is built by appending: allocations record the mark before growing and grow by n * size, elements live at
    position + size * i, in-place writes stay inside their slot, and a string is its 2 * len header plus len UTF-16 units"""
    from rules import c16
    _ensure(ctx, P + "/builder-append-law", lambda n: c16.rule_append_law(ctx, R=n))
    _ensure(ctx, P + "/builder-slots", lambda n: c16.rule_slot_siblings(ctx, R=n))
    _ensure(ctx, P + "/builder-write-window", lambda n: c16.rule_write_at_window(ctx, R=n))
    _ensure(ctx, P + "/builder-position-owner", lambda n: c16.rule_position_owner(ctx, R=n))


def stack_lookup(ctx, P):
    """the stack of a thread is found: a mapping is accepted as (part of) a stack when it is readable or writable, looked up by an
    order-independent scan, and the returned window runs from the stack pointer's page to the end of that mapping"""
    from rules import c06
    _ensure(ctx, P + "/stack-plausible", lambda n: c06.rule_plausible_stack(ctx, R=n))
    _ensure(ctx, P + "/stack-lookup", lambda n: c06.rule_find_mapping(ctx, R=n))
    _ensure(ctx, P + "/stack-extent", lambda n: c06.rule_page_start(ctx, R=n))


def module_ident(ctx, P):
    """what identifies a module is read out of the loaded image the way the loader laid it out: the dynamic section's entries are
    taken by tag and the string table address is made module-relative, segments are found at p_vaddr in process memory and at
    p_offset in a file (read_segment, the note scan and the section lookup agree), the name is cut out of the string table's own
    window, and headers are parsed in the image's class and byte order"""
    from rules import c14
    _ensure(ctx, P + "/dynamic-entries", lambda n: c14.rule_dynamic_entries(ctx, R=n))
    _ensure(ctx, P + "/mem-file-siblings", lambda n: c14.rule_mem_file_siblings(ctx, R=n))
    _ensure(ctx, P + "/strtab-window", lambda n: c14.rule_strtab_window(ctx, R=n))
    _ensure(ctx, P + "/header-context", lambda n: c14.rule_header_context(ctx, R=n))
    _ensure(ctx, P + "/note-walk", lambda n: c14.rule_note_walk(ctx, R=n))
    _ensure(ctx, P + "/text-fold", lambda n: c14.rule_text_fold(ctx, R=n))
    _ensure(ctx, P + "/section-name-exact", lambda n: c14.rule_section_name_exact(ctx, R=n))


def destination(ctx, P):
    """what the property says about the dump holds for the FILE the caller gets, not only for the in-memory image: pending bytes are
    appended where the previous flush ended, a directory slot is written at start + slot rva, and the append position is put back,
    wherever in the destination the dump started"""
    from rules import c09
    _ensure(ctx, P + "/destination/seek-targets", lambda n: c09.rule_seek_targets(ctx, R=n))
    _ensure(ctx, P + "/destination/save-restore", lambda n: c09.rule_save_restore(ctx, R=n))
    _ensure(ctx, P + "/destination/append-flush", lambda n: c09.rule_append_flush(ctx, R=n))
