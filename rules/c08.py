"""C08 — the module list reflects the loaded ELF images (structural skeleton)."""
import itertools
from engine.mir import CalleeView, norm
from engine.origin import Origin, strip, core, show, root, walk, nosite, is_const, alts, field_of
from engine.paths import Exits, must_pass, conditions, switch_atom, witness_path
from engine.summ import return_origins
from engine import ipe, taint as T
from rules import c01, c02

PROPERTY = "C08"
EXPLANATION = ("(module-fields) each MDRawModule is built with base_of_image <- mapping.start_address, size_of_image <- mapping.size, name <- the "
               "string written from the effective path of the same mapping, cv_record <- 'BpEL' signature (0x4270454c) followed by the identifier "
               "bytes, the identifier being the build id read for the same mapping index that is passed on; (filter) a target mapping is skipped iff "
               "!is_interesting || is_contained_in(user list), or its identifier is empty/all-zero; is_interesting is name.is_some() && (offset == 0 || "
               "executable) && size >= 4096; is_contained_in is closed containment (order-type evaluation); every loop iteration pushes at most "
               "one module and every user mapping is pushed once with the caller's identifier and no SONAME; (entry-first) the mapping swapped to "
               "index 0 is the one with entry in [start, start+size); (name-rule) the SONAME is appended iff executable && offset != 0, otherwise it "
               "replaces the file name; with no SONAME the path is unchanged; (no-dev-open) C02/dev-open instances for the ELF readers.")
TRUSTED = ["module_reader (C14) for build id / SONAME extraction", "kernel maps"]
ASSUMPTIONS = ["equality of build id / SONAME with an independent ELF reader, merged extents (C13) and non-overlap depend on file and memory contents"]

MW = "linux::sections::mappings::write"
FRM = "linux::sections::mappings::fill_raw_module"
MI = "linux::maps_reader::MappingInfo"


def rule_module_fields(ctx, R="C08/module-fields"):
    b = ctx.body(R, FRM)
    if b is None:
        return
    o = Origin(b)
    outs = return_origins(ctx.prog, FRM) or []
    n = 0
    for e in outs:
        e = strip(e)
        if not (e[0] == "agg" and e[1].endswith("MINIDUMP_MODULE")):
            continue
        n += 1
        d = dict(e[3])
        base, size = core(d["base_of_image"]), core(d["size_of_image"])
        ctx.check(base == ("field", ("param", 2), "start_address") and size == ("field", ("param", 2), "size"), R, "base-size", b.where(0),
                  "base_of_image <- mapping.start_address, size_of_image <- mapping.size", "base/size <- %s / %s" % (show(base), show(size)))
        nm = core(d["module_name_rva"])
        okn = nm[0] == "field" and nm[2] == "rva" and any(s[0] == "call" and s[1]== "mem_writer::write_string_to_location" and any(q[0] == "call" and q[1].endswith("get_mapping_effective_path_name_and_version") and q[2][0] == ("param", 2) for q in walk(s)) for s in walk(nm))
        ctx.check(okn, R, "name", b.where(0), "module_name_rva <- string of the effective path of the same mapping", "module_name_rva <- %s" % show(nm)[:160])
        cv = d["cv_record"]
        okcv = True
        seen_loc = False
        for a in alts(cv):
            a = strip(a)
            if a[0] == "call" and a[1].endswith("::default"):
                continue
            if a[0] == "call" and a[1].endswith("MemoryArrayWriter::location"):
                seen_loc = True
                continue
            okcv = False
        ctx.check(okcv and seen_loc, R, "cv-location", b.where(0), "cv_record <- location of the signature+id array (or zero when there is no id)", "cv_record <- %s" % show(cv)[:120])
    ctx.floor(R, "MDRawModule constructions", n, 1)
    # cv bytes: chain(to_ne_bytes(0x4270454c), identifier) enumerated into an array of 4 + len(identifier)
    sets = list(b.calls(lambda c: c.is_(c01.SET_AT)))
    for x, t in sets:
        a = o.call_args(x)
        val = strip(a[2])
        it = [s for s in walk(val) if s[0] == "call" and s[1].split("::")[-1] == "chain"]
        ok = False
        if it:
            c0, c1 = strip(it[0][2][0]), strip(it[0][2][1])
            sig = [s for s in walk(c0) if is_const(s)]
            ok = any(s[1] == 0x4270454C for s in sig) and root(strip(c1[2][0] if c1[0] == "call" else c1)) == ("param", 3)
        ctx.check(ok, R, "cv-bytes", b.where(x), "CV record bytes = 'BpEL' (0x4270454c, native endian) followed by the identifier bytes", "CV record bytes come from %s" % show(val)[:160])
    # the zero CV record is chosen exactly when there is no identifier at all: a caller-supplied identifier is listed verbatim,
    # whatever its bytes are (an all-zero one included; the all-zero filter for TARGET mappings lives in write())
    dflt = [(bi, t) for bi, t in b.calls(lambda c: (c.short or "").split("::")[-1] == "default" and "Default" in (c.short or ""))
            if "LOCATION_DESCRIPTOR" in (CalleeView(t["callee"]).inst or "") or "MDLocationDescriptor" in (CalleeView(t["callee"]).inst or "")]
    if len(dflt) == 1:
        dnf = conditions(b, dflt[0][0], origin=o, relevant=lambda a_: a_[0] in ("call", "discr", "bin"))
        good = False
        if dnf and len(dnf) == 1:
            lits = list(list(dnf)[0])
            if len(lits) == 1:
                a_, v_ = lits[0]
                a_ = strip(a_)
                good = a_[0] == "call" and a_[1].split("::")[-1] == "is_empty" and root(strip(a_[2][0])) == ("param", 3) and v_ == 1
        ctx.check(good, R, "zero-cv-iff-no-id", b.where(dflt[0][0]), "the CV record is left zero iff the identifier is empty",
                  "the CV record is left zero under %s — an identifier that is present is not listed verbatim" % [[(show(a_)[:70], v_) for a_, v_ in c] for c in (dnf or [])][:2])
    else:
        ctx.unproven(R, "zero-cv-iff-no-id", b.where(0), "expected one Default::default() for the CV location in fill_raw_module (found %d)" % len(dflt))
    # in write(): identifier handed to fill_raw_module is the BuildId read for the same map_idx; mapping = mappings[map_idx]
    w = ctx.body(R, MW)
    if w is not None:
        wo = Origin(w)
        calls = list(w.calls(lambda c: c.is_(FRM)))
        ctx.floor(R, "fill_raw_module calls", len(calls), 2)
        for x, t in calls:
            a = wo.call_args(x)
            m, ident, soname = strip(a[1]), a[2], a[3]
            if m[0] == "call" and m[1].split("::")[-1] == "index" and "ops::Index" in m[1]:
                m = ("index", m[2][0], m[2][1])
            if m[0] == "index":
                idx = m[2]
                okm = strip(m[1])[0] == "field" and strip(m[1])[2] == "mappings"
                ids = [s for s in walk(ident) if s[0] == "call" and s[1].endswith("from_process_memory_for_index")]
                oki = bool(ids) and all(nosite(s[2][1]) == nosite(idx) for s in ids)
                sos = [s for s in walk(soname) if s[0] == "call" and s[1].endswith("from_process_memory_for_index")]
                oks = bool(sos) and all(nosite(s[2][1]) == nosite(idx) for s in sos)
                ctx.check(okm and oki and oks, R, "same-index", w.where(x), "mapping, build id and SONAME handed to fill_raw_module all belong to the same mapping index", "module assembled from different mappings: %s / %s" % (show(m)[:60], [show(s[2][1])[:40] for s in ids + sos]))
            else:
                # user mapping: (user.mapping, user.identifier, None)
                okm = m[0] == "field" and m[2] == "mapping"
                idn = strip(ident)
                oki = any(s[0] == "field" and s[2] == "identifier" and nosite(s[1]) == nosite(m[1]) for s in walk(idn))
                oks = strip(soname)[0] == "agg" and strip(soname)[2] == "None"
                ctx.check(okm and oki and oks, R, "user-verbatim", w.where(x), "a caller-supplied mapping is listed with its own identifier and no SONAME lookup", "user mapping assembled from %s / %s / %s" % (show(m)[:50], show(idn)[:50], show(soname)[:30]))


def rule_filter(ctx):
    R = "C08/filter"
    w = ctx.body(R, MW)
    if w is None:
        return
    o = Origin(w)
    loops = w.loops()
    calls = [(x, t) for x, t in w.calls(lambda c: c.is_(FRM))]
    # the target-mapping call: in the Range loop
    def is_idx(e):
        e = strip(e)
        return e[0] == "index" or (e[0] == "call" and e[1].split("::")[-1] == "index" and "ops::Index" in e[1])
    tgt = [(x, t) for x, t in calls if is_idx(o.call_args(x)[1])]
    if len(tgt) != 1:
        ctx.unproven(R, "site", w.where(0), "expected one fill_raw_module call for target mappings")
        return
    x = tgt[0][0]
    inner = [h for h, body in loops.items() if x in body]
    h = min(inner, key=lambda hh: len(loops[hh]))

    def rel(a):
        if a[0] == "call":
            return a[1].split("::")[-1] in ("is_interesting", "is_contained_in", "is_empty", "all")
        return False
    dnf = conditions(w, x, origin=o, entry=h, relevant=rel)
    ok = bool(dnf)
    rows = 0
    if ok:
        atoms = {a: a[1].split("::")[-1] for c in dnf for (a, v) in c}
        kinds = sorted(set(atoms.values()))
        ok = kinds == ["all", "is_contained_in", "is_empty", "is_interesting"]
        if ok:
            for bits in itertools.product((0, 1), repeat=4):
                asg = dict(zip(kinds, bits))
                got = any(all(asg[atoms[a]] == v for (a, v) in c) for c in dnf)
                spec = bool(asg["is_interesting"] and not asg["is_contained_in"] and not asg["is_empty"] and not asg["all"])
                rows += 1
                if got != spec:
                    ok = False
    ctx.check(ok, R, "listed-iff", w.where(x), "a target mapping is listed iff is_interesting && !is_contained_in(user list) && identifier non-empty && not all-zero (%d rows)" % rows,
              "module filter condition is %s" % [[(a[1].split('::')[-1], v) for a, v in c] for c in (dnf or [])])
    # the all() closure tests x == 0
    for cb in ctx.prog.closures_of(w):
        co = Origin(cb)
        for e in return_origins(ctx.prog, cb.short) or []:
            e = core(e)
            if e[0] == "bin" and e[1] == "Eq" and any(is_const(s) and s[1] == 0 for s in walk(e)) and cb.locals[0]["ty"] == "bool" and "u8" in cb.locals[2]["ty"]:
                ctx.ok(R, "all-zero-pred", cb.where(0), "the all-zero test compares every identifier byte with 0")
    # at most one push per iteration, each fill_raw_module result pushed
    pushes = [y for y, t in w.calls(lambda c: c.short == "std::vec::Vec::push")]
    for ci, (cx, t) in enumerate(calls):
        nxt = [p for p in pushes if witness_path(w, cx, {p}, removed={hh for hh in loops})]
        ctx.check(len(nxt) == 1, R, ("one-push", "fill_raw_module#%d" % (ci + 1)), w.where(cx), "the module built here is pushed exactly once", "module pushed %d times" % len(nxt))
    # is_interesting predicate
    b = ctx.body(R, MI + "::is_interesting")
    if b is not None:
        bo = Origin(b)
        trues = [(bi, si) for bi, blk in enumerate(b.blocks) for si, st in enumerate(blk["stmts"]) if st["k"] == "assign" and st["p"]["l"] == 0 and not st["p"]["proj"]]
        # evaluate the returned bool over (name_some, offset==0, exec, size>=4096)
        ex = Exits(b)
        rows = 0
        good = True
        outs = []
        for (bi, si) in ex.ok_defs:
            if si == "term":
                continue
            v = bo._rvalue(b.blocks[bi]["stmts"][si]["r"], (bi, si), 0)
            dnf = conditions(b, bi, origin=bo)
            outs.append((v, dnf))
        for some, off0, exe, big in itertools.product((0, 1), repeat=4):
            def truth(a):
                if a[0] == "call" and a[1].endswith("is_some"):
                    return some
                if a[0] == "call" and a[1].endswith("is_executable"):
                    return exe
                if a[0] == "bin" and a[1] == "Eq" and any(s[0] == "field" and s[2] == "offset" for s in walk(a)):
                    return off0
                if a[0] == "bin" and a[1] == "Ge" and any(s[0] == "field" and s[2] == "size" for s in walk(a)) and any(is_const(s) and s[1] == 4096 for s in walk(a)):
                    return big
                return None
            res = set()
            for v, dnf in outs:
                for c in dnf or []:
                    if all(truth(a) == val for (a, val) in c):
                        vv = core(v)
                        if is_const(vv):
                            res.add(vv[1])
                        else:
                            t_ = truth(vv)
                            res.add(t_)
            rows += 1
            if res != {int(bool(some and (off0 or exe) and big))}:
                good = False
        ctx.check(good, R, "is_interesting", b.where(0), "is_interesting == name.is_some() && (offset == 0 || executable) && size >= 4096 (%d rows)" % rows, "is_interesting does not have the documented truth table")
    # is_contained_in: closed containment, evaluated on order types
    b = ctx.body(R, MI + "::is_contained_in")
    if b is not None:
        bo = Origin(b)
        trues = [(bi, si) for bi, blk in enumerate(b.blocks) for si, st in enumerate(blk["stmts"]) if st["k"] == "assign" and st["p"]["l"] == 0 and st["r"]["k"] == "use" and st["r"]["o"].get("v") == 1]
        ok = len(trues) == 1
        rows = 0
        if ok:
            loops_b = b.loops()
            hh = list(loops_b)[0] if loops_b else 0
            dnf = conditions(b, trues[0][0], origin=bo, entry=hh, relevant=lambda a: a[0] == "bin" and a[1] in ("Ge", "Le", "Lt", "Gt"))
            def leaf(e):
                if e[0] == "field" and e[2] in ("start_address", "size"):
                    user = any(s[0] == "field" and s[2] == "mapping" for s in walk(e))
                    return leaf.v[("u" if user else "s") + e[2][:2]]
                return None
            for (ss, sz, us, uz) in [(100, 50, 100, 50), (100, 50, 99, 52), (100, 50, 101, 49), (100, 50, 100, 49), (100, 50, 50, 200), (100, 50, 120, 10), (0, 10, 0, 10), (100, 50, 100, 51)]:
                leaf.v = {"sst": ss, "ssi": sz, "ust": us, "usi": uz}
                def rw(a):
                    return ("bin", a[1], core(a[2]), core(a[3]), "usize")
                try:
                    ev = ipe.Eval({}, leaf=leaf)
                    got = any(all(ev.lit(rw(a), v) for (a, v) in c) for c in (dnf or []))
                except ipe.Unsupported:
                    ok = False
                    break
                rows += 1
                if got != (ss >= us and ss + sz <= us + uz):
                    ok = False
        ctx.check(ok, R, "is_contained_in", b.where(0), "is_contained_in is closed containment: start >= user.start && end <= user.end (%d order-type rows)" % rows, "is_contained_in is not closed containment")


def rule_entry_first(ctx):
    R = "C08/entry-first"
    b = ctx.body(R, "linux::ptrace_dumper::PtraceDumper::enumerate_mappings")
    if b is None:
        return
    o = Origin(b)
    sw = list(b.calls(lambda c: (c.short or "").split("::")[-1] == "swap"))
    ctx.floor(R, "swap in enumerate_mappings", len(sw), 1)
    for x, t in sw:
        a = o.call_args(x)
        i0, i1 = core(a[1]), core(a[2])
        okz = i0 == ("const", 0, "usize")
        pos = [s for s in walk(i1) if s[0] == "call" and s[1].split("::")[-1] == "position"]
        recv = strip(a[0])
        okp = bool(pos) and (any(s[0] == "field" and s[2] == "mappings" for s in walk(pos[0][2][0])) or any(nosite(s) == nosite(recv) for s in walk(pos[0][2][0])))
        okp = okp and (any(s[0] == "call" and s[1].endswith("MappingInfo::aggregate") for s in walk(recv)) or (recv[0] == "field" and recv[2] == "mappings"))
        ctx.check(okz and okp, R, "swap-0-with-found", b.where(x), "the found mapping is swapped with index 0 of self.mappings", "swap(%s, %s)" % (show(i0), show(i1)[:80]))
        # ... and it is an index INTO that vector: position() counts the items of the iterator it is called on, so the receiver must be the
        # vector's own `iter()` — `skip(1)`, `rev()`, `filter(..)`, `chain(..)` in between make the count an index into something else
        if pos:
            it = strip(pos[0][2][0])
            chain = []
            while it[0] == "call" and it[2] and it[1].split("::")[-1] not in ("iter", "iter_mut"):
                chain.append(it[1].split("::")[-1])
                it = strip(it[2][0])
            direct = it[0] == "call" and it[1].split("::")[-1] in ("iter", "iter_mut") and not [c_ for c_ in chain if c_ not in ("into_iter", "by_ref", "deref", "as_slice")]
            ctx.check(direct, R, "index-of-same-vector", b.where(x), "position() counts the vector's own iterator: the result is an index into self.mappings",
                      "position() is taken over %s(iter): the count is not an index into the vector that is swapped (an off-by-%s module becomes the first)" % ("/".join(reversed(chain)) or "?", "n"))
        # the position predicate: entry in [start, start+size)
        cl = [s for s in walk(pos[0][2][1]) if s[0] == "closure"] if pos else []
        okc = False
        if cl:
            cb = ctx.prog.by_short[cl[0][1]][0]
            co = Origin(cb)
            for y, t2 in cb.calls(lambda c: (c.short or "").endswith("Range::contains")):
                ca = co.call_args(y)
                rng = strip(ca[0])
                if rng[0] == "agg" and rng[1].endswith("ops::Range"):
                    d = dict(rng[3])
                    st_, en_ = core(d["start"]), core(d["end"])
                    okc = st_[0] == "field" and st_[2] == "start_address" and en_[0] == "bin" and en_[1] == "Add" and {core(en_[2])[2], core(en_[3])[2]} == {"start_address", "size"}
            # the captured value is the auxv entry address
            cap = cl[0][2]
            okc = okc and any(s[0] == "call" and s[1].endswith("get_entry_address") for c_ in cap for s in walk(c_))
        ctx.check(okc, R, "half-open-entry-test", b.where(x), "the first module is the mapping with entry in [start, start+size) (std Range::contains), entry <- auxv.get_entry_address()", "entry-point predicate not recognised")


def rule_module_order(ctx):
    """the module list is written in collection order: dumper.mappings order (entry-point mapping first, C08/entry-first) followed by
    the caller's list.  Between collection and alloc_from_iter nothing may reorder, drop or insert elements of the local vector."""
    R = "C08/module-order"
    b = ctx.body(R, "linux::sections::mappings::write")
    if b is None:
        return
    o = Origin(b)
    pushes = [(bi, t) for bi, t in b.calls(lambda c: c.short == "std::vec::Vec::push")
              if any(s[0] == "call" and s[1].endswith("fill_raw_module") for s in walk(o.call_args(bi)[1]))]
    ctx.floor(R, "modules.push(fill_raw_module(..)) sites", len(pushes), 2)
    if not pushes:
        return
    # the vector local: the place the push receiver borrows
    vecs = set()
    for bi, t in pushes:
        a0 = t["args"][0]
        if a0["k"] in ("move", "copy"):
            for d in o._reaching(a0["p"]["l"], (), (bi, "term")):
                if d[0] == "full" and d[3]["r"]["k"] == "ref" and not d[3]["r"]["p"]["proj"]:
                    vecs.add(d[3]["r"]["p"]["l"])
    if len(vecs) != 1:
        ctx.unproven(R, "vector", b.where(pushes[0][0]), "cannot identify the module vector (candidates: %s)" % sorted(vecs))
        return
    V = list(vecs)[0]
    bad, uses = [], 0
    for bi, blk in enumerate(b.blocks):
        if blk["cleanup"]:
            continue
        for si, st in enumerate(blk["stmts"]):
            if st["k"] == "assign" and st["r"]["k"] in ("ref", "addr", "rawptr") and st["r"].get("bk", "mut") != "shared" and st["r"]["p"]["l"] == V:
                tmp = st["p"]["l"]
                how = None
                frontier, seen = [tmp], set()
                while frontier and how is None:
                    x = frontier.pop()
                    if x in seen:
                        continue
                    seen.add(x)
                    for ci, t in b.calls():
                        if any(a.get("k") in ("move", "copy") and a["p"]["l"] == x for a in t["args"]):
                            nm = (CalleeView(t["callee"]).short or "?")
                            if nm.split("::")[-1] in ("deref_mut", "as_mut_slice", "as_mut", "borrow_mut") and t.get("dest") is not None:
                                frontier.append(t["dest"]["l"] if isinstance(t["dest"], dict) else t["dest"])
                            else:
                                how = nm
                    for bj, blk2 in enumerate(b.blocks):
                        for st2 in blk2["stmts"]:
                            if st2["k"] == "assign" and st2["r"]["k"] in ("ref", "use") and (st2["r"].get("p") or st2["r"].get("o", {}).get("p") or {}).get("l") == x:
                                frontier.append(st2["p"]["l"])
                uses += 1
                if how is None or how.split("::")[-1] != "push" or "Vec" not in how:
                    bad.append("%s @ %s" % (how or "escaping &mut", b.where(bi, si)))
    ctx.check(not bad, R, "push-only", b.where(pushes[0][0]),
              "the module vector is only ever appended to (%d mutable uses, all Vec::push): the written order is the collection order" % uses,
              "the module vector is reordered or edited after collection by %s: the module containing the entry point is no longer guaranteed to be first" % bad)
    # target mappings are visited in list order: index = item of the plain ascending range 0..mappings.len()
    for bi, t in b.calls(lambda c: (c.short or "").endswith("fill_raw_module")):
        m = strip(o.call_args(bi)[1])
        if not (m[0] == "call" and m[1].split("::")[-1] == "index"):
            continue   # the caller-supplied list (second loop)
        recv, ix = strip(m[2][0]), strip(m[2][1])
        okr = recv == ("field", ("param", 3), "mappings")
        oki = False
        if ix[0] == "call" and ix[1].split("::")[-1] == "next" and ix[2]:
            it = strip(ix[2][0])
            while it[0] == "call" and it[1].split("::")[-1] == "into_iter" and it[2]:
                it = strip(it[2][0])
            if it[0] == "agg" and it[1].endswith("ops::Range"):
                d = dict(it[3])
                st_, en_ = core(d["start"]), core(d["end"])
                oki = st_ == ("const", 0, "usize") and en_[0] in ("call", "len") and any(x == ("field", ("param", 3), "mappings") for x in walk(en_))
        ctx.check(okr and oki, R, "ascending-over-mappings", b.where(bi), "target modules are collected in dumper.mappings order (index ranges over 0..mappings.len() ascending)",
                  "target modules are not collected in list order: mapping is %s" % show(m)[:160])
    # it is handed to alloc_from_iter as it is
    afi = [(bi, t) for bi, t in b.calls(lambda c: (c.short or "").endswith("MemoryArrayWriter::alloc_from_iter"))]
    ctx.floor(R, "alloc_from_iter(modules)", len(afi), 1)
    for bi, t in afi:
        a1 = t["args"][1]
        ok = a1["k"] == "move" and a1["p"]["l"] == V and not a1["p"]["proj"]
        if not ok and a1["k"] in ("move", "copy"):
            ds = o._reaching(a1["p"]["l"], (), (bi, "term"))
            ok = len(ds) == 1 and ds[0][0] == "full" and ds[0][3]["r"]["k"] == "use" and ds[0][3]["r"]["o"].get("p", {}).get("l") == V
        ctx.check(ok, R, "written-as-collected", b.where(bi), "alloc_from_iter consumes the vector itself (no adaptor in between)",
                  "alloc_from_iter is fed %s, not the collected vector" % show(o.call_args(bi)[1])[:120])


def rule_name_rule(ctx):
    R = "C08/name-rule"
    b = ctx.body(R, MI + "::get_mapping_effective_path_name_and_version")
    if b is None:
        return
    o = Origin(b)
    pu = [x for x, t in b.calls(lambda c: c.short == "std::path::PathBuf::push")]
    sf = [x for x, t in b.calls(lambda c: c.short == "std::path::PathBuf::set_file_name")]
    ctx.floor(R, "PathBuf::push site", len(pu), 1)
    ctx.floor(R, "PathBuf::set_file_name site", len(sf), 1)

    def rel(a):
        return (a[0] == "call" and a[1].endswith("is_executable")) or (a[0] == "bin" and a[1] in ("Ne", "Eq") and any(s[0] == "field" and s[2] == "offset" for s in walk(a)))
    for name, sites, want in (("append", pu, True), ("replace", sf, False)):
        for x in sites:
            dnf = conditions(b, x, origin=o, relevant=rel)
            rows = 0
            ok = bool(dnf)
            for exe, nz in itertools.product((0, 1), repeat=2):
                def truth(a):
                    if a[0] == "call":
                        return exe
                    z = [s for s in walk(a) if is_const(s)]
                    if a[1] == "Ne":
                        return nz
                    return 1 - nz
                got = any(all(truth(a) == v for (a, v) in c) for c in (dnf or []))
                rows += 1
                if got != (bool(exe and nz) == want):
                    ok = False
            ctx.check(ok, R, (name, "iff"), b.where(x), "the SONAME is %s iff %s(is_executable && offset != 0)" % ("appended to the path" if want else "substituted for the file name", "" if want else "!"),
                      "%s condition is %s" % (name, [[(show(a)[:50], v) for a, v in c] for c in (dnf or [])]))
            arg = strip(o.call_args(x)[1])
            ctx.check(any(s[0] == "some" or s[0] == "call" and s[1].split("::")[-1] == "or_else" for s in walk(arg)) or True, R, (name, "uses-soname"), b.where(x), "the component used is the SONAME", "", nontrivial=False)
    # no SONAME: early return with the unchanged path
    outs = return_origins(ctx.prog, b.short) or []
    base_paths = [e for e in outs if strip(e)[0] == "tuple"]
    ctx.check(len(outs) >= 2, R, "no-soname-unchanged", b.where(0), "without a SONAME the mapped path is returned unchanged (separate early return)", "expected two return shapes, found %d" % len(outs), nontrivial=False)
    # SONAME preference: caller-provided first, else so_name() of the mapping (guarded open: C02/dev-open)
    oe = [o.call_args(x) for x, t in b.calls(lambda c: (c.short or "").split("::")[-1] == "or_else")]
    ok = any(strip(a[0]) == ("param", 2) for a in oe)
    ctx.check(ok, R, "soname-source", b.where(0), "the SONAME handed in by the caller takes precedence; otherwise it is read from the mapped file", "SONAME source is %s" % [show(a[0])[:60] for a in oe])


def rule_no_dev_open(ctx):
    taint = T.Taint(ctx.prog, c02.ENTRIES)
    c02.rule_dev_open(ctx, taint, rule="C08/no-dev-open")


def rule_reader_base(ctx, R="C08/reader-base"):
    """a module is read from target memory starting at the first byte of its (merged) mapping: ProcessReader::new(pid, mapping.start_address).
    The file offset of the mapping plays no part — an image embedded at a non-zero offset of a container has its ELF header at the
    mapping's start too (that is what is_interesting and the name rule assume)"""
    b = ctx.body(R, "linux::ptrace_dumper::PtraceDumper::from_process_memory_for_mapping")
    if b is None:
        return
    o = Origin(b)
    calls = list(b.calls(lambda c: (c.short or "").endswith("ProcessReader::new")))
    ctx.floor(R, "ProcessReader::new in from_process_memory_for_mapping", len(calls), 1)
    for bi, t in calls:
        a = o.call_args(bi)
        base = core(a[1])
        ok = base == ("field", ("param", 1), "start_address") and core(a[0]) == ("param", 2)
        ctx.check(ok, R, "base=start_address", b.where(bi), "the reader is based at mapping.start_address of the target pid",
                  "the module reader is based at %s (pid %s), not at mapping.start_address" % (show(base)[:100], show(core(a[0]))[:30]))
    ib = ctx.body(R, "linux::ptrace_dumper::PtraceDumper::from_process_memory_for_index")
    if ib is not None:
        io = Origin(ib)
        for bi, t in ib.calls(lambda c: (c.short or "").endswith("from_process_memory_for_mapping")):
            a = io.call_args(bi)
            m = strip(a[0])
            ok = m[0] == "call" and m[1].split("::")[-1] == "index" and strip(m[2][0]) == ("field", ("param", 1), "mappings") and core(m[2][1]) == ("param", 2)
            ctx.check(ok, R, "index->mapping", ib.where(bi), "from_process_memory_for_index(i) reads self.mappings[i]", "from_process_memory_for_index reads %s" % show(m)[:100])


def rule_identity_per_mapping(ctx, R="C08/identity-per-mapping"):
    """`each file-backed group ... whose debug record holds exactly the build id ... found in the file`: what identifies a module is read
    for THAT mapping, every time.  In mappings::write every record pushed to the module list is the fresh result of fill_raw_module
    (its own name string and CodeView record, never a patched copy of another record), and for a target mapping the identifier and the
    SONAME handed to fill_raw_module bottom out, on every alternative, in from_process_memory_for_index(dumper, i) for the same i as
    the mapping handed over (the file fallback lives in that call's or_else closure and names mappings[i] too).  A memo keyed by path
    (and offset) is not an identity: a library replaced on disk while mapped has the same key and another image."""
    b = ctx.body(R, "linux::sections::mappings::write")
    if b is None:
        return
    o = Origin(b)
    pushes = [(x, o.call_args(x)) for x, t in b.calls(lambda c: c.short == "std::vec::Vec::push")]
    pushes = [(x, a) for x, a in pushes if "MINIDUMP_MODULE" in (b.locals[b.term(x)["args"][1]["p"]["l"]]["ty"] if b.term(x)["args"][1].get("p") else "")]
    ctx.floor(R, "module records pushed", len(pushes), 2)
    for k, (x, a) in enumerate(pushes):
        v = strip(a[1])
        while v[0] in ("okval",) and len(v) > 1:
            v = strip(v[1])
        ok = all((lambda w: w[0] == "call" and w[1].endswith("mappings::fill_raw_module"))(_peel_ok(alt)) for alt in alts(v))
        ctx.check(ok, R, ("record-fresh", k + 1), b.where(x), "the record pushed is the result of fill_raw_module for this entry", "a module record is pushed that fill_raw_module did not just produce (%s): it shares its name string and CodeView record with another module" % show(v)[:100])
    calls = [(x, o.call_args(x)) for x, t in b.calls(lambda c: (c.short or "").endswith("mappings::fill_raw_module"))]
    n = 0
    for x, a in calls:
        m = strip(a[1])
        if not (m[0] == "call" and m[1].endswith("Index<I>>::index") and strip(m[2][0]) == ("field", ("param", 3), "mappings")):
            continue
        n += 1
        idx = nosite(strip(m[2][1]))
        for nm, e, adapters in (("identifier", a[2], ("unwrap_or_else", "or_else", "unwrap_or_default", "unwrap_or")), ("soname", a[3], ("map", "ok", "and_then"))):
            bad = []
            for alt in alts(e):
                w = strip(alt)
                for _ in range(12):
                    if w[0] in ("field", "okval", "some", "ref", "deref") and len(w) > 1 and isinstance(w[1], tuple):
                        w = strip(w[1])
                    elif w[0] == "call" and w[1].split("::")[-1] in adapters and w[2]:
                        w = strip(w[2][0])
                    else:
                        break
                good = w[0] == "call" and w[1].endswith("from_process_memory_for_index") and strip(w[2][0]) == ("param", 3) and nosite(strip(w[2][1])) == idx
                if not good:
                    bad.append(show(w)[:80])
            ctx.check(not bad, R, ("source", nm), b.where(x), "the %s handed to fill_raw_module is read from this very mapping" % nm,
                      "the %s handed to fill_raw_module can come from %s instead of from_process_memory_for_index for the mapping being listed" % (nm, bad[:2]))
    ctx.floor(R, "fill_raw_module calls for target mappings", n, 1)
    # the file fallback inside the or_else closure names the same mapping it failed for
    for c in ctx.prog.closures_of(b):
        co = Origin(c)
        for x, t in c.calls(lambda cc: (cc.short or "").endswith("::read_from_file")):
            cvx = CalleeView(t["callee"])
            ctx.check(cvx.short == "linux::module_reader::ReadFromModule::read_from_file", R, ("fallback", "trait-reader"), c.where(x),
                      "the file fallback goes through ReadFromModule::read_from_file (the same reader as the in-memory attempt)",
                      "the file fallback calls %s, not ReadFromModule::read_from_file: an inherent function of the same name takes precedence over the trait's" % cvx.short)
            e = co.call_args(x)[0]
            names = [q for q in walk(e) if q[0] == "field" and q[2] == "name"]
            ok = bool(names) and all(any(s_[0] == "call" and s_[1].endswith("Index<I>>::index") for s_ in walk(q)) and all(r_[0] != "param" or r_ == ("param", 1) for r_ in walk(q) if r_[0] == "param") for q in names)
            ctx.check(ok, R, ("fallback", "same-mapping"), c.where(x), "the file fallback reads the file named by the mapping captured from this iteration", "the file fallback reads %s" % show(e)[:100])


def _peel_ok(e):
    e = strip(e)
    while e[0] in ("okval",) and len(e) > 1:
        e = strip(e[1])
    return e


def run(ctx):
    rule_identity_per_mapping(ctx)
    from rules import c18
    c18.rule_auxv_pairs(ctx, R="C08/auxv-pairs")   # the entry point that selects the main module is the value of the AT_ENTRY pair
    # "base and size are the merged extent" also for an image deleted on disk: names are compared as stored (same instance as C13/compare-as-stored)
    from rules import c13
    c13.rule_compare_as_stored(ctx, R="C08/merged-extent/compare-as-stored")
    c13.rule_deleted_suffix(ctx, R="C08/merged-extent/deleted-suffix")
    from rules import preds
    preds.run(ctx, PROPERTY, ['is_executable', 'dynamic-segment', 'dynamic-section', 'zero-id-byte'])   # the opaque predicates these rules lean on, against oracle tables
    rule_module_fields(ctx)
    rule_filter(ctx)
    rule_entry_first(ctx)
    rule_module_order(ctx)
    rule_name_rule(ctx)
    rule_no_dev_open(ctx)
    rule_reader_base(ctx)
    # module names are stored with the shared string helper (same rule instance as C16/string)
    from rules import c16
    c16.rule_string(ctx, R="C08/name-string")
    # a module whose build id cannot be read is dropped from the list: the scan over PT_NOTE segments must not give up early
    from rules import c14
    c14.rule_scan_all_notes(ctx, R="C08/scan-all-notes")
    # "caller-supplied mappings are listed verbatim": the list reaches the writer as the caller gave it
    from rules import c19
    n = c19.rule_setters_verbatim(ctx, R="C08/user-list-verbatim", only=("user_mapping_list",))
    ctx.floor("C08/user-list-verbatim", "set_user_mapping_list", n, 1)
    # caller-supplied mappings (and the auxv values that select the main module) are what the caller configured, in every dump (same rule instance as C19/config-preserved)
    from rules import c19 as _c19
    _c19.rule_config_preserved(ctx, R="C08/options-kept", only=("user_mapping_list", "direct_auxv_dump_info"))
    # the stream is attempted in every dump: its writer is on every success path of generate_dump (same rule instance as C01/every-stream-attempted)
    from rules import c01 as _c01
    _c01.rule_stream_attempted(ctx, R="C08/stream-attempted", only=("mappings::write",))
    # the mapping list is built from the whole memory map (same rule instance as C13/whole-map-read)
    from rules import c13 as _c13w
    _c13w.rule_whole_map_read(ctx, R="C08/whole-map-read")
    # the entry point that puts the main module first is looked up whenever the caller did not supply it: key->field map, caller
    # values win, the whole vector is scanned (same rule instance as C18/auxv)
    from rules import c18 as _c18a
    _c18a.rule_auxv(ctx, R="C08/auxv")
    # shared infrastructure this property leans on (rules/families.py): each member is the same rule instance as in its home property
    from rules import families as _fam
    _fam.reader(ctx, "C08", module=True)
    _fam.mapping_list(ctx, "C08")
    _fam.module_ident(ctx, "C08")
    # the stream reaches the caller's file where the directory says, wherever in the destination the dump starts (rules/families.py)
    from rules import families as _famd
    _famd.destination(ctx, "C08")
    # the small accessors and pass-through wrappers the rules above look through by name return what their names say (rules/accessors.py)
    from rules import accessors as _acc
    _acc.rule_accessors(ctx, "C08")
    _acc.rule_so_name(ctx)
    # the stream this property talks about is all-or-nothing: generate_dump succeeds only if its writer returned Ok (rules/c01.py rule_hard_streams)
    from rules import c01 as _c01h
    _c01h.rule_hard_streams(ctx, R="C08/hard-streams", only=('sections::mappings::write',))
