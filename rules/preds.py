"""Oracle tables for the small boolean predicates the property rules treat as opaque atoms.

Each predicate is evaluated as a boolean function (rules.c06.bool_fn_truth: OR over the definitions of the result of path
condition AND value) on every point of a small domain that covers all order types / bit combinations of its inputs, and compared
with a specification written from the property text and external constants (procfs permission bits, ELF gABI) — never read from
the code.  A rule set registers the predicates its own rules lean on: `run(ctx, "C12", ["is_executable", "contains_address"])`."""
import itertools
from engine.origin import core, strip, is_const, show, walk
from engine import ipe

PERM = {"R": 1, "W": 2, "X": 4, "S": 8, "P": 16}   # procfs_core MMPermissions bit values
MI = "linux::maps_reader::MappingInfo::"


def _mask(e):
    e = core(e)
    if is_const(e) and isinstance(e[1], int):
        return e[1]
    if e[0] == "call" and e[1].split("::")[-1] in ("bitor", "union") and len(e[2]) == 2:
        a, b = _mask(e[2][0]), _mask(e[2][1])
        return None if a is None or b is None else a | b
    return None


def _is_field(e, name):
    e = core(e)
    return e[0] == "field" and e[2] == name


def perm_leaf(env):
    """env: bits (int), plus optional offset/size/name_some/S/E/A"""
    def leaf(e):
        e = core(e)
        if e[0] == "call":
            ls = e[1].split("::")[-1]
            if ls in ("contains", "intersects") and len(e[2]) == 2 and _is_field(e[2][0], "permissions"):
                m = _mask(e[2][1])
                if m is None:
                    raise ipe.Unsupported("permission mask %s" % show(e[2][1])[:60])
                return bool(env["bits"] & m) if ls == "intersects" else (env["bits"] & m) == m
            if ls in ("eq", "ne") and len(e[2]) == 2 and _is_field(e[2][0], "permissions"):
                m = _mask(e[2][1])
                if m is None:
                    raise ipe.Unsupported("permission constant %s" % show(e[2][1])[:60])
                return (env["bits"] == m) == (ls == "eq")
            if ls in ("is_some", "is_none") and e[2] and _is_field(e[2][0], "name"):
                return bool(env["name_some"]) == (ls == "is_some")
            if ls in ("is_executable", "is_readable", "is_writable") and "MappingInfo" in e[1]:
                return bool(env["bits"] & {"is_executable": 4, "is_readable": 1, "is_writable": 2}[ls])
        if e[0] == "field" and e[2] in ("offset", "size") and e[2] in env:
            return (env[e[2]], "usize")
        if e[0] == "field" and e[2] in ("start_address", "end_address", "size") and "S" in env:
            sysr = core(e[1])[0] == "field" and core(e[1])[2] == "system_mapping_info"
            if e[2] == "end_address":
                return (env["E"], "usize")
            if e[2] == "start_address":
                # the module's own (biased, gap-extended) range is a different thing from the range the kernel reported
                return (env["S"] if sysr else env.get("BS", env["S"]), "usize")
            if e[2] == "size" and "BZ" in env:
                return (env["BZ"], "usize")
        if e == ("param", 2) and "A" in env:
            return (env["A"], "usize")
        if e[0] == "discr" and "discr" in env:
            return (env["discr"], "isize")
        return None
    return leaf


def _variants(prog, adt_suffix):
    for name, a in prog.adts.items():
        if name.endswith(adt_suffix):
            return [v.get("name") for v in a.get("variants", [])]
    return None


SPECS = {}


def spec(name):
    def deco(f):
        SPECS[name] = f
        return f
    return deco


@spec("is_executable")
def _is_executable(ctx, truth):
    b = ctx.prog.by_short.get(MI + "is_executable")
    if not b:
        return None, "anchor missing"
    bad = [bits for bits in range(32) if truth(b[0], perm_leaf({"bits": bits})) != bool(bits & PERM["X"])]
    return (not bad, "is_executable() <=> the EXECUTE bit of the permissions (32 rows)", "is_executable() differs from `EXECUTE bit set` for permission bits %s" % bad[:4], b[0])


@spec("contains_address")
def _contains_address(ctx, truth):
    b = ctx.prog.by_short.get(MI + "contains_address")
    if not b:
        return None, "anchor missing"
    bad = []
    for S, Z in ((0, 1), (0x1000, 0x1000), (0x7fff0000, 0x2000)):
        for A in {0, max(S - 1, 0), S, S + 1, S + Z - 1, S + Z, S + Z + 1, ipe.M64}:
            # module range [BS, BS+BZ) differs from the system range at both ends (bias below, folded reserved gap above)
            if truth(b[0], perm_leaf({"bits": 0, "S": S, "E": S + Z, "A": A, "BS": max(S - 1, 0), "BZ": Z + 3})) != (S <= A < S + Z):
                bad.append((hex(S), hex(S + Z), hex(A)))
    return (not bad, "contains_address(a) <=> system start <= a < system end (boundary points)", "contains_address differs from start <= a < end at (start, end, a) = %s" % bad[:3], b[0])


@spec("is_empty_page")
def _is_empty_page(ctx, truth):
    b = ctx.prog.by_short.get(MI + "is_empty_page")
    if not b:
        return None, "anchor missing"
    bad = []
    for off, bits, nm in itertools.product((0, 4096), (0, 16, 17, 20, 8, 24), (0, 1)):
        if truth(b[0], perm_leaf({"bits": bits, "offset": off, "name_some": nm})) != (off == 0 and bits == PERM["P"] and not nm):
            bad.append((off, bits, nm))
    return (not bad, "is_empty_page() <=> offset == 0 && permissions == PRIVATE (---p) && unnamed (24 rows)", "is_empty_page differs from the reserved-gap shape at (offset, perms, named) = %s" % bad[:3], b[0])


@spec("is_process_memory")
def _is_process_memory(ctx, truth):
    b = ctx.prog.by_short.get("linux::module_reader::ProcessMemory::is_process_memory")
    vs = _variants(ctx.prog, "module_reader::ProcessMemory")
    if not b or not vs:
        return None, "anchor missing"
    bad = [vs[i] for i in range(len(vs)) if truth(b[0], perm_leaf({"bits": 0, "discr": i})) != (vs[i] == "Process")]
    return (not bad, "is_process_memory() <=> the reader is the Process variant (%d variants)" % len(vs), "is_process_memory() is wrong for variant(s) %s" % bad, b[0])


def _closure_eq_const(ctx, truth, parent, field, const, what):
    cl = [b for b in ctx.prog.bodies if b.kind == "Closure" and b.parent == parent and (b.locals[0].get("ty") == "bool")]
    hits = []
    for c in cl:
        from engine.origin import Origin
        co = Origin(c)
        uses = any(st["k"] == "assign" and any(isinstance(x, tuple) and x and x[0] == "field" and x[2] == field for x in walk(co._rvalue(st["r"], (bi, si), 0)))
                   for bi, blk in enumerate(c.blocks) for si, st in enumerate(blk["stmts"]) if st["k"] == "assign")
        if uses:
            hits.append(c)
    if len(hits) != 1:
        return None, "anchor missing (%d closures over %s)" % (len(hits), field)
    c = hits[0]
    bad = []
    for v in (0, 1, const - 1, const, const + 1, 0x6474e551, 0xffffffff):
        def leaf(e, v=v):
            e = core(e)
            if e[0] == "field" and e[2] == field:
                return (v, "u32")
            return None
        if truth(c, leaf) != (v == const):
            bad.append(v)
    return (not bad, what % const, "the selection predicate on %s is not `== %d`: wrong for %s" % (field, const, bad[:4]), c)


@spec("dynamic-segment")
def _dyn_segment(ctx, truth):
    return _closure_eq_const(ctx, truth, "linux::module_reader::ModuleReader::soname_from_program_headers", "p_type", 2, "the dynamic segment is the program header with p_type == PT_DYNAMIC (%d, gABI)")


@spec("dynamic-section")
def _dyn_section(ctx, truth):
    return _closure_eq_const(ctx, truth, "linux::module_reader::ModuleReader::soname_from_sections", "sh_type", 6, "the dynamic section is the section header with sh_type == SHT_DYNAMIC (%d, gABI)")


@spec("is_mapping_a_path")
def _is_path(ctx, truth):
    b = ctx.prog.by_short.get("linux::maps_reader::is_mapping_a_path")
    if not b:
        return None, "anchor missing"
    bad = []
    for name in (None, b"", b"abc", b"/", b"/usr/lib/x.so", b"a/b", b"[heap]", b"[anon:x/y]"):
        def leaf(e, name=name):
            e = core(e)
            if e[0] == "discr":
                return (0 if name is None else 1, "isize")
            if e[0] == "call":
                ls = e[1].split("::")[-1]
                if ls == "is_some":
                    return name is not None
                if ls == "is_none":
                    return name is None
                if ls == "contains" and len(e[2]) == 2 and is_const(core(e[2][1])):
                    return bytes([core(e[2][1])[1] & 0xff]) in (name or b"")
                if ls in ("starts_with", "ends_with"):
                    raise ipe.Unsupported(ls)
            return None
        if truth(b[0], leaf) != (name is not None and b"/" in name):
            bad.append(name)
    return (not bad, "a mapping name is a path <=> it is present and contains '/' (8 sample names incl. bracketed pseudo-names)", "is_mapping_a_path differs from `Some and contains '/'` for %s" % bad[:3], b[0])


@spec("auxv_is_complete")
def _auxv_is_complete(ctx, truth):
    b = ctx.prog.by_short.get("linux::auxv::AuxvDumpInfo::is_complete")
    if not b:
        return None, "anchor missing"
    fields = ("program_header_count", "program_header_address", "linux_gate_address", "entry_address")
    bad = []
    for vals in itertools.product((0, 1), repeat=4):
        env = dict(zip(fields, vals))

        def leaf(e, env=env):
            e = core(e)
            if e[0] == "call" and e[1].split("::")[-1] in ("is_some", "is_none") and e[2]:
                f = core(e[2][0])
                if f[0] == "field" and f[2] in env:
                    return bool(env[f[2]]) == (e[1].split("::")[-1] == "is_some")
            if e[0] == "discr":
                f = core(e[1])
                if f[0] == "field" and f[2] in env:
                    return (env[f[2]], "isize")
            return None
        if truth(b[0], leaf) != all(vals):
            bad.append({k: v for k, v in env.items() if not v} or "all present")
    return (not bad, "auxv information is complete <=> all four of PHNUM, PHDR, SYSINFO_EHDR and ENTRY are present (16 rows)",
            "is_complete() is true although something is still missing (or false although nothing is): %s — try_filling_missing_info() returns early on `complete`, so the missing value is never read from /proc/<pid>/auxv" % bad[:3], b[0])


def _byte_closure_is_zero(ctx, truth, parent, what):
    cl = [b for b in ctx.prog.bodies if b.kind == "Closure" and b.parent == parent and (b.locals[0].get("ty") == "bool") and "u8" in (b.locals[2].get("ty") or "")]
    if len(cl) != 1:
        return None, "anchor missing (%d byte predicates in %s)" % (len(cl), parent.split("::")[-1])
    c = cl[0]
    bad = []
    for v in (0, 1, 0x20, 0x7f, 0x80, 0xff):
        def leaf(e, v=v):
            e = core(e)
            if e == ("param", 2) or (e[0] in ("deref", "proj", "field") and len(e) > 1 and e[1] == ("param", 2)):
                return (v, "u8")
            return None
        if truth(c, leaf) != (v == 0):
            bad.append(v)
    return (not bad, what, "the byte predicate is not `== 0`: wrong for %s" % bad, c)


@spec("dso-name-terminator")
def _dso_nul(ctx, truth):
    return _byte_closure_is_zero(ctx, truth, "linux::dso_debug::write_dso_debug_stream", "a loaded object's name ends at the first NUL byte (6 byte values)")


@spec("zero-id-byte")
def _zero_id(ctx, truth):
    return _byte_closure_is_zero(ctx, truth, "linux::sections::mappings::write", "a build id is 'all zero' iff every byte equals 0 (6 byte values)")


def run(ctx, prop, names):
    from rules import c06
    truth = lambda body, leaf: c06.bool_fn_truth(ctx.prog, body, leaf)
    for n in names:
        R = "%s/pred-%s" % (prop, n.replace("_", "-"))
        try:
            res = SPECS[n](ctx, truth)
        except ipe.Unsupported as e:
            ctx.unproven(R, "table", None, "cannot evaluate %s: %s" % (n, e))
            continue
        if res[0] is None:
            ctx.violated(R, "anchor", None, "anchor missing: predicate %s (%s)" % (n, res[1]))
            continue
        ok, good, bad, body = res
        ctx.check(ok, R, "table", body.where(0), good, bad)
