"""C18 — OS and process information streams mirror the target (structural clauses, oracle tables)."""
import itertools, json, os
from engine.mir import CalleeView, norm
from engine.origin import Origin, strip, core, show, root, walk, nosite, is_const, alts, field_of, unupd
from engine.paths import Exits, must_pass, conditions, switch_atom, witness_path
from engine.summ import return_origins
from rules import c01
from engine import ipe

PROPERTY = "C18"
EXPLANATION = ("Oracle-table and provenance rules: (stream-file-table) each raw Linux stream type is paired with its source file "
               "(/proc/cpuinfo, /proc/<id>/status|cmdline|environ|auxv|maps|limits, /etc/lsb-release|os-release), the id comes from blamed_thread and "
               "write_file appends exactly fs::read(path); (meminfo) one MDMemoryInfo per maps entry with base/allocation_base <- address.0, "
               "region_size <- address.1 - address.0, protection from get_memory_protection(perms) whose 8-row truth table (extracted from the match "
               "in MIR and evaluated on all rwx assignments) equals the oracle, type MEM_PRIVATE iff the p flag; (handles) handle <- parsed fd name, "
               "name <- read_link, attributes <- st_mode of the same entry, listing /proc/<process_id>/fd; (auxv) key numbers 5/3/33/9 map to "
               "program_header_count/address, linux_gate_address, entry_address, a /proc value is stored only into an unset field and a direct value "
               "is taken iff > 0; (dso) MDRawLinkMap/MDRawDebug fields come from the walked link_map / r_debug fields and the walk starts at r_map of "
               "the r_debug found through DT_DEBUG of PT_DYNAMIC located via auxv PHDR/PHNUM; (sysinfo) cpuinfo key <-> field agreement.")
TRUSTED = ["kernel /proc contents", "procfs-core parsing", "goblin constants PT_LOAD/PT_DYNAMIC/DT_DEBUG/DT_NULL"]
ASSUMPTIONS = ["equality with what the kernel reports at that instant is runtime data"]

STREAM_FILES = {  # oracle A5: stream type value -> literal path pieces
    0x47670003: ("/proc/cpuinfo",),
    0x47670004: ("/proc/", "/status"),
    0x47670005: ("/etc/lsb-release", "/etc/os-release"),
    0x47670006: ("/proc/", "/cmdline"),
    0x47670007: ("/proc/", "/environ"),
    0x47670008: ("/proc/", "/auxv"),
    0x47670009: ("/proc/", "/maps"),
    0x4D7A0003: ("/proc/", "/limits"),
}
PROT = {  # oracle A6: (r,w,x) -> MemoryProtection bits (PAGE_*)
    (0, 0, 0): 0x01, (0, 0, 1): 0x10, (1, 0, 0): 0x02, (1, 0, 1): 0x20,
    (0, 1, 0): 0x04, (1, 1, 0): 0x04, (0, 1, 1): 0x40, (1, 1, 1): 0x40,
}
MM_READ, MM_WRITE, MM_EXEC, MM_SHARED, MM_PRIVATE = 1, 2, 4, 8, 16
AUXV_KEYS = {5: "program_header_count", 3: "program_header_address", 33: "linux_gate_address", 9: "entry_address"}


def literal_pieces(e):
    out = []
    for s in walk(e):
        if s[0] == "str":
            cur = ""
            for ch in s[1]:
                if ch.isprintable() and ch != "�" and ord(ch) >= 32:
                    cur += ch
                else:
                    if len(cur) >= 2:
                        out.append(cur)
                    cur = ""
            if len(cur) >= 2:
                out.append(cur)
    return out


def rule_stream_file_table(ctx):
    R = "C18/stream-file-table"
    b = ctx.body(R, c01.GEN)
    if b is None:
        return
    o = Origin(b)
    seen = {}
    for bi, blk in enumerate(b.blocks):
        for si, st in enumerate(blk["stmts"]):
            if st["k"] == "assign" and st["r"]["k"] == "agg" and st["r"].get("ak") == "adt" and norm(st["r"]["adt"]).endswith("MINIDUMP_DIRECTORY"):
                e = o._rvalue(st["r"], (bi, si), 0)
                d = dict(e[3])
                ty = core(d["stream_type"])
                loc = d["location"]
                wf = [s for s in walk(loc) if s[0] == "call" and s[1].endswith("MinidumpWriter::write_file")]
                if not wf or not is_const(ty):
                    continue
                # closures used as fallbacks (or_else) contribute their own write_file calls
                pieces = []
                ids = []
                for s in wf:
                    pieces += literal_pieces(s[2][2])
                    ids += [q for q in walk(s[2][2]) if q[0] == "field" and q[2] in ("blamed_thread", "process_id")]
                for s in walk(loc):
                    if s[0] == "closure":
                        for cb in ctx.prog.by_short.get(s[1], ()):
                            co = Origin(cb)
                            for x, t in cb.calls(lambda c: c.endswith("MinidumpWriter::write_file")):
                                pieces += literal_pieces(co.call_args(x)[2])
                seen[ty[1]] = (tuple(pieces), ids, b.where(bi, si))
    for ty, want in STREAM_FILES.items():
        got = seen.get(ty)
        if got is None:
            ctx.violated(R, ("stream", hex(ty)), b.where(0), "no write_file-backed directory entry with stream type %#x" % ty)
            continue
        pieces, ids, where = got
        okp = tuple(sorted(pieces)) == tuple(sorted(want))
        okid = True
        if "/proc/" in want and len(want) == 2:
            okid = len(ids) >= 1 and all(q[2] == "blamed_thread" for q in ids)
        ctx.check(okp and okid, R, ("stream", hex(ty)), where, "stream %#x <- %s%s" % (ty, " | ".join(want) if len(want) > 1 and want[0].startswith("/etc") else "".join(want[:1]) + ("<blamed_thread>" + want[1] if len(want) == 2 and want[0] == "/proc/" else ""), ""),
                  "stream %#x is filled from %s (id from %s); the stream/file table says %s" % (ty, pieces, [q[2] for q in ids], want))
    ctx.floor(R, "file-backed raw streams", len([t for t in seen if t in STREAM_FILES]), 8)
    # write_file: appends exactly fs::read(filename) and returns that location
    wb = ctx.body(R, "linux::minidump_writer::MinidumpWriter::write_file")
    if wb is not None:
        outs = return_origins(ctx.prog, wb.short) or []
        ok = bool(outs)
        for e in outs:
            e = strip(e)
            ok = ok and e[0] == "call" and e[1].endswith("MemoryArrayWriter::location")
            if ok:
                w = strip(e[2][0])
                ok = w[0] == "call" and w[1].endswith("write_bytes") and strip(w[2][1])[0] == "call" and strip(w[2][1])[1] == "std::fs::read" and root(strip(strip(w[2][1])[2][0])) == ("param", 3)
        ctx.check(ok, R, "write_file", wb.where(0), "write_file appends exactly fs::read(path) and returns the location of that append", "write_file returns %s" % [show(e)[:120] for e in outs])


def rule_meminfo(ctx):
    R = "C18/meminfo"
    cl = "linux::sections::memory_info_list_stream::write::{closure#0}"
    outs = return_origins(ctx.prog, cl)
    if not outs:
        ctx.violated(R, ("anchor", "closure"), None, "anchor missing: the per-entry MDMemoryInfo constructor")
        return
    cb = ctx.prog.by_short[cl][0]
    for e in outs:
        e = strip(e)
        if not (e[0] == "agg" and e[1].endswith("MINIDUMP_MEMORY_INFO")):
            ctx.unproven(R, "shape", cb.where(0), "per-entry value is %s" % show(e)[:100])
            continue
        d = dict(e[3])
        a0 = lambda x: core(x)[0] == "field" and core(x)[2] == "0" and strip(core(x)[1])[0] == "field" and strip(core(x)[1])[2] == "address" and root(strip(core(x)[1])[1]) == ("param", 2)
        a1 = lambda x: core(x)[0] == "field" and core(x)[2] == "1" and strip(core(x)[1])[0] == "field" and strip(core(x)[1])[2] == "address"
        ctx.check(a0(d["base_address"]) and a0(d["allocation_base"]), R, "base", cb.where(0), "base_address, allocation_base <- address.0", "base fields are %s / %s" % (show(d["base_address"]), show(d["allocation_base"])))
        rs = core(d["region_size"])
        ctx.check(rs[0] == "bin" and rs[1] == "Sub" and a1(rs[2]) and a0(rs[3]), R, "region_size", cb.where(0), "region_size <- address.1 - address.0", "region_size <- %s" % show(rs))
        for f in ("protection", "allocation_protection"):
            p = strip(d[f])
            ok = p[0] == "call" and p[1].split("::")[-1] == "bits" and strip(p[2][0])[0] == "call" and strip(p[2][0])[1].endswith("get_memory_protection") and core(strip(p[2][0])[2][0])[0] == "field" and core(strip(p[2][0])[2][0])[2] == "perms"
            ctx.check(ok, R, f, cb.where(0), "%s <- get_memory_protection(perms).bits()" % f, "%s <- %s" % (f, show(p)[:100]))
        st = strip(d["state"])
        ctx.check(any(is_const(s) and s[1] == 0x1000 for s in walk(st)), R, "state", cb.where(0), "state = MEM_COMMIT", "state <- %s" % show(st))
    # type: MEM_PRIVATE (0x20000) iff perms.contains(PRIVATE)
    co = Origin(cb)
    okt = False
    for x in range(cb.n):
        if cb.term(x)["k"] == "switch":
            a, _ = switch_atom(cb, co, x)
            if a[0] == "call" and a[1].split("::")[-1] == "contains" and any(is_const(s) and s[1] == MM_PRIVATE for s in walk(a)):
                vals = {}
                for (s, lab) in cb.succ_edges(x):
                    if lab[0] != "sw":
                        continue
                    taken = 0 if lab[1] == 0 else 1
                    for st in cb.blocks[s]["stmts"]:
                        if st["k"] == "assign" and st["r"]["k"] == "use" and st["r"]["o"].get("v") in (0x20000, 0x40000):
                            vals[taken] = st["r"]["o"]["v"]
                okt = vals == {1: 0x20000, 0: 0x40000}
    ctx.check(okt, R, "type", cb.where(0), "_type = MEM_PRIVATE iff the mapping has the p flag, else MEM_MAPPED", "private/shared type selection not recognised")
    # protection truth table
    pb = ctx.body(R, "linux::sections::memory_info_list_stream::get_memory_protection")
    if pb is not None:
        po = Origin(pb)
        rows = {}
        ex = Exits(pb)
        for (bi, si) in ex.ok_defs:
            if si == "term":
                continue
            v = po._rvalue(pb.blocks[bi]["stmts"][si]["r"], (bi, si), 0)
            vals = [s[1] for s in walk(v) if is_const(s)]
            if len(vals) != 1:
                continue
            dnf = conditions(pb, bi, origin=po, relevant=lambda a: a[0] == "call" and a[1].split("::")[-1] == "contains")
            for r, w, x in itertools.product((0, 1), repeat=3):
                bit = {MM_READ: r, MM_WRITE: w, MM_EXEC: x}
                def truth(a):
                    c = [s[1] for s in walk(a) if is_const(s)]
                    return bit.get(c[0]) if c else None
                sat = any(all(truth(a) == v_ for (a, v_) in c) for c in (dnf or []))
                if sat:
                    rows.setdefault((r, w, x), set()).add(vals[0])
        bad = {k: (sorted(rows.get(k, [])), PROT[k]) for k in PROT if rows.get(k) != {PROT[k]}}
        ctx.check(not bad, R, "protection-table", pb.where(0), "get_memory_protection's 8-row (r,w,x) table equals the oracle table", "protection table differs from the oracle: %s" % bad, detail={"rows": {str(k): sorted(v) for k, v in rows.items()}})
    # the list is built from /proc/<blamed_thread>/maps
    wb = ctx.body(R, "linux::sections::memory_info_list_stream::write")
    if wb is not None:
        wo = Origin(wb)
        for x, t in wb.calls(lambda c: (c.short or "").split("::")[-1] == "from_file"):
            a = wo.call_args(x)
            ctx.check(sorted(literal_pieces(a[0])) == ["/maps", "/proc/"] and any(s[0] == "field" and s[2] == "blamed_thread" for s in walk(a[0])), R, "source", wb.where(x), "entries come from /proc/<blamed_thread>/maps", "entries come from %s" % literal_pieces(a[0]))


def rule_handles(ctx):
    R = "C18/handles"
    b = ctx.body(R, "linux::sections::handle_data_stream::direntry_to_descriptor")
    if b is None:
        return
    outs = return_origins(ctx.prog, b.short) or []
    aggs = [strip(x) for e in outs for x in alts(e)]
    aggs = [dict(strip(dict(a[3])["0"])[3]) if a[0] == "agg" and a[2] == "Some" else None for a in aggs]
    aggs = [a for a in aggs if a]
    ctx.floor(R, "descriptor constructions", len(aggs), 1)
    for d in aggs:
        h = strip(d["handle"])
        okh = any(s[0] == "call" and s[1].endswith("filename_to_fd") for s in walk(h)) and any(s[0] == "call" and s[1].split("::")[-1] == "file_name" and root(strip(s[2][0])) == ("param", 2) for s in walk(h))
        n = core(d["object_name_rva"])
        okn = n[0] == "field" and n[2] == "rva" and any(s[0] == "call" and s[1] == "std::fs::read_link" and any(q[0] == "call" and q[1].split("::")[-1] == "path" and root(strip(q[2][0])) == ("param", 2) for q in walk(s)) for s in walk(n))
        at = core(d["attributes"])
        oka = at[0] == "field" and at[2] == "st_mode" and any(s[0] == "call" and s[1].endswith("file_stat") and any(q[0] == "call" and q[1].split("::")[-1] == "path" and root(strip(q[2][0])) == ("param", 2) for q in walk(s)) for s in walk(at))
        ctx.check(okh, R, "handle", b.where(0), "handle <- the directory entry's name parsed as a number", "handle <- %s" % show(h)[:120])
        ctx.check(okn, R, "name", b.where(0), "object_name_rva <- string of read_link(entry.path())", "object_name_rva <- %s" % show(n)[:160])
        ctx.check(oka, R, "attributes", b.where(0), "attributes <- st_mode of stat(entry.path())", "attributes <- %s" % show(at)[:120])
    # "its file mode": the mode is that of the OPEN FILE, reached through the /proc/<pid>/fd/<n> entry itself; the link's text is only
    # a name (an unlinked file reads `/x (deleted)`, a memfd `/memfd:n (deleted)`, another mount namespace's path names something else
    # here).  So whatever file_stat hands to stat() comes from the entry path, never from the read_link result.
    sb = ctx.body(R, "linux::sections::handle_data_stream::file_stat")
    if sb is not None:
        so = Origin(sb)
        st = [(x, so.call_args(x)) for x, t in sb.calls(lambda c: (c.short or "") in ("libc::stat", "libc::stat64", "libc::lstat", "libc::fstatat", "std::fs::metadata", "std::fs::symlink_metadata"))]
        ctx.floor(R, "stat call in file_stat", len(st), 1)
        fed = sorted({q[1] for x, a in st for e in alts(a[0]) for q in walk(e) if q[0] == "param"})
        bo_ = Origin(b)
        for x, t in b.calls(lambda c: (c.short or "").endswith("handle_data_stream::file_stat")):
            a = bo_.call_args(x)
            bad = []
            for pi in fed:
                if pi - 1 >= len(a):
                    continue
                e = a[pi - 1]
                from_entry = any(q[0] == "call" and q[1].split("::")[-1] == "path" and root(strip(q[2][0])) == ("param", 2) for q in walk(e))
                from_link = any(q[0] == "call" and q[1].split("::")[-1] in ("read_link", "canonicalize") for q in walk(e))
                if not from_entry or from_link:
                    bad.append(show(e)[:70])
            ctx.check(bool(fed) and not bad, R, "stat-through-entry", b.where(x), "the mode comes from stat() of the fd entry itself",
                      "stat() is (also) given %s: the mode of a descriptor whose link text does not name the open file (unlinked file, memfd, other namespace) is lost and the descriptor dropped" % bad)
    # which failures make a descriptor disappear: every `?` on an Option in direntry_to_descriptor drops the entry silently,
    # so the set of drop causes is frozen (one descriptor per fd unless one of exactly these steps fails)
    bo = Origin(b)
    causes = []
    for x, t in b.calls(lambda c: c.short == "std::ops::Try::branch"):
        e = bo.call_args(x)[0]
        names = [s[1].split("::")[-1] for s in walk(e) if s[0] == "call"]
        cause = next((n for n in names if n in ("filename_to_fd", "read_link", "write_string_to_location", "file_stat")), None)
        causes.append(cause or ("?" + (names[0] if names else "")))
    allowed = ["file_stat", "filename_to_fd", "read_link", "write_string_to_location"]
    ctx.check(sorted(causes) == allowed, R, "drop-causes", b.where(0), "a descriptor is dropped only when one of %s fails" % allowed,
              "descriptors can also be dropped silently by other conditions: %s (reviewed causes: %s)" % (sorted(causes), allowed))
    wb = ctx.body(R, "linux::sections::handle_data_stream::write")
    if wb is not None:
        wo = Origin(wb)
        # every entry of the fd directory is offered to direntry_to_descriptor: the only filters are entry.ok() and that function
        fm = [wo.call_args(x) for x, t in wb.calls(lambda c: (c.short or "").split("::")[-1] in ("filter_map", "filter", "take", "skip", "take_while", "skip_while", "step_by"))]
        kinds = sorted((CalleeView(t["callee"]).short or "").split("::")[-1] for x, t in wb.calls(lambda c: (c.short or "").split("::")[-1] in ("filter_map", "filter", "take", "skip", "take_while", "skip_while", "step_by")))
        ctx.check(kinds == ["filter_map", "filter_map"], R, "no-extra-filter", wb.where(0), "the fd listing is filtered only by entry.ok() and direntry_to_descriptor", "the fd listing goes through %s" % kinds)
        for x, t in wb.calls(lambda c: c.short == "std::fs::read_dir"):
            a = wo.call_args(x)
            ctx.check(sorted(literal_pieces(a[0])) == ["/fd", "/proc/"] and any(s[0] == "field" and s[2] == "process_id" for s in walk(a[0])), R, "source", wb.where(x), "descriptors are listed from /proc/<process_id>/fd", "descriptors listed from %s" % literal_pieces(a[0]))


def rule_auxv(ctx, R="C18/auxv"):
    b = ctx.body(R, "linux::auxv::AuxvDumpInfo::try_filling_missing_info")
    if b is None:
        return
    o = Origin(b)
    n = 0
    for x in range(b.n):
        t = b.term(x)
        if t["k"] != "switch":
            continue
        a, _ = switch_atom(b, o, x)
        vals = [v for v, tb in t["targets"]]
        if not set(vals) >= set(AUXV_KEYS):
            continue
        if not (core(a)[0] == "field" and core(a)[2] == "key"):
            continue
        for v, tb in t["targets"]:
            want = AUXV_KEYS.get(v)
            got = None
            for st in b.blocks[tb]["stmts"]:
                if st["k"] == "assign" and st["r"]["k"] == "ref" and st["r"]["bk"] == "mut":
                    pj = st["r"]["p"]["proj"]
                    if pj and pj[-1]["k"] == "field":
                        got = pj[-1]["n"]
            n += 1
            ctx.check(want is not None and got == want, R, ("key", v), b.where(tb), "auxv key %d -> %s" % (v, want), "auxv key %d is stored into %s (AT_* table says %s)" % (v, got, want))
    ctx.floor(R, "auxv key arms", n, 4)
    # stored only if dest_field.is_none(); value = the pair's value
    stores = [(bi, si, st) for bi, blk in enumerate(b.blocks) for si, st in enumerate(blk["stmts"]) if st["k"] == "assign" and st["p"]["proj"] == [{"k": "deref"}] and b.locals[st["p"]["l"]].get("name") == "dest_field"]
    ctx.floor(R, "store through dest_field", len(stores), 1)
    for bi, si, st in stores:
        dnf = conditions(b, bi, origin=o, entry=max(b.loops(), key=lambda h: len(b.loops()[h])) if b.loops() else 0, relevant=lambda a: a[0] == "call" and a[1].endswith("Option::is_none"))
        ok = bool(dnf) and all(any(v == 1 for (_, v) in c) for c in dnf)
        ctx.check(ok, R, "only-if-unset", b.where(bi, si), "a /proc/<pid>/auxv value is stored only into a field that is still unset (caller-supplied values win)", "a /proc value can overwrite an already known field")
        v = strip(o._rvalue(st["r"], (bi, si), 0))
        pay = core(dict(v[3])["0"]) if v[0] == "agg" and v[2] == "Some" else ("?",)
        ctx.check(pay[0] == "field" and pay[2] == "value", R, "stores-value", b.where(bi, si), "the stored value is the pair's value", "stored value is %s" % show(pay)[:80])
    # the whole vector is scanned: the pair loop is left only when the iterator is exhausted (an early `break` once "enough" keys were
    # seen loses the keys behind it — AT_ENTRY comes last)
    loops_ = b.loops()
    pl = [h for h, body in loops_.items() if any(b.term(x)["k"] == "call" and "ProcfsAuxvIter" in ((b.term(x).get("callee") or {}).get("inst") or "") and (CalleeView(b.term(x)["callee"]).short or "").endswith("Iterator::next") for x in body)]
    if len(pl) != 1:
        ctx.unproven(R, "scan-loop", b.where(0), "cannot find the loop over the auxv pairs")
    else:
        h = pl[0]
        bad_exit = []
        for x in loops_[h]:
            for (s_, lab) in b.succ_edges(x):
                if lab == ("unwind",) or s_ in loops_[h] or b.term(s_)["k"] == "unreachable":
                    continue
                t_ = b.term(x)
                exhausted = False
                if t_["k"] == "switch":
                    a_ = strip(switch_atom(b, o, x)[0])
                    exhausted = a_[0] == "discr" and strip(a_[1])[0] == "call" and strip(a_[1])[1].split("::")[-1] == "next"
                if not exhausted:
                    bad_exit.append(b.where(x))
        ctx.check(not bad_exit, R, "scans-whole-vector", b.where(h), "the pair loop ends only when the vector is exhausted", "the pair loop can be left before the end of the vector (%s): keys behind that point are never seen" % bad_exit[:2])
    # From<DirectAuxvDumpInfo>: field f <- (f > 0).then_some(f)
    FROM = "<linux::auxv::AuxvDumpInfo as std::convert::From<linux::auxv::DirectAuxvDumpInfo>>::from"
    fb = None
    for body in ctx.prog.bodies:
        if body.short == FROM:
            fb = body
    if fb is None:
        ctx.violated(R, ("anchor", "From<DirectAuxvDumpInfo>"), None, "anchor missing: conversion of caller-supplied auxv values")
    else:
        def _subst(e, arg):
            if e == ("param", 2):
                return arg
            if isinstance(e, tuple):
                return tuple(_subst(x, arg) for x in e)
            return e

        def _inline(fe):
            """a local one-argument closure applied to a value (`let set = |v| (v > 0).then_some(v)`) is looked through"""
            fe = strip(fe)
            if fe[0] == "call" and fe[1].startswith(FROM + "::{closure") and len(fe[2]) == 2 and strip(fe[2][1])[0] == "tuple" and len(strip(fe[2][1])[1]) == 1:
                outs = return_origins(ctx.prog, fe[1]) or []
                if len(outs) == 1:
                    return strip(_subst(strip(outs[0]), strip(fe[2][1])[1][0]))
            return fe
        nd = 0
        for e in return_origins(ctx.prog, fb.short) or []:
            e = strip(e)
            if e[0] != "agg":
                continue
            for fn, fe in e[3]:
                fe = _inline(fe)
                nd += 1
                ok = fe[0] == "call" and fe[1].split("::")[-1] == "then_some" and core(fe[2][1]) == ("field", ("param", 1), fn)
                c = core(fe[2][0]) if fe[0] == "call" and fe[1].split("::")[-1] == "then_some" else ("?",)
                ok = ok and c[0] == "bin" and c[1] == "Gt" and core(c[2]) == ("field", ("param", 1), fn) and core(c[3])[1] == 0
                ctx.check(ok, R, ("direct", fn), fb.where(0), "direct %s is taken iff > 0 (0 means unset)" % fn, "direct %s <- %s: the caller-supplied value of another field (or under another field's test) is stored here" % (fn, show(fe)[:100]))
        ctx.floor(R, "fields of the direct-auxv conversion", nd, 4)
    # auxv file path
    for x, t in b.calls(lambda c: c.short == "std::fs::File::open"):
        a = o.call_args(x)
        ctx.check(sorted(literal_pieces(a[0])) == ["/auxv", "/proc/"] and any(s == ("param", 2) for s in walk(a[0])), R, "source", b.where(x), "missing values are read from /proc/<pid>/auxv", "auxv source is %s" % literal_pieces(a[0]))


def rule_dso(ctx):
    R = "C18/dso"
    b = ctx.body(R, "linux::dso_debug::write_dso_debug_stream")
    if b is None:
        return
    o = Origin(b)
    # MDRawLinkMap per walked element
    n = 0
    for bi, blk in enumerate(b.blocks):
        for si, st in enumerate(blk["stmts"]):
            if st["k"] == "assign" and st["r"]["k"] == "agg" and st["r"].get("ak") == "adt":
                an = norm(st["r"]["adt"]).split("::")[-1]
                if an.startswith("LINK_MAP"):
                    e = o._rvalue(st["r"], (bi, si), 0)
                    d = dict(e[3])
                    n += 1
                    ok = all(core(d[k])[0] == "field" and core(d[k])[2] == v for k, v in (("addr", "l_addr"), ("ld", "l_ld")))
                    same = ok and nosite(core(d["addr"])[1]) == nosite(core(d["ld"])[1])
                    nm = core(d["name"])
                    okn = nm[0] == "field" and nm[2] == "rva" and any(s[0] == "call" and s[1]== "mem_writer::write_string_to_location" for s in walk(nm)) and any(s[0] == "field" and s[2] == "l_name" and nosite(s[1]) == nosite(core(d["addr"])[1]) for s in walk(nm)) if ok else False
                    ctx.check(same and okn, R, "link_map", b.where(bi, si), "MDRawLinkMap{addr <- l_addr, ld <- l_ld, name <- string read at l_name} of the same walked element", "link map entry is %s" % show(e)[:200])
                if an.startswith("DSO_DEBUG"):
                    e = o._rvalue(st["r"], (bi, si), 0)
                    d = dict(e[3])
                    n += 1
                    rd = lambda k, f: core(d[k])[0] == "field" and core(d[k])[2] == f
                    ok = rd("version", "r_version") and rd("brk", "r_brk") and rd("ldbase", "r_ldbase")
                    cnt = core(d["dso_count"])
                    okc = cnt[0] == "call" and cnt[1].split("::")[-1] == "len"
                    mp = d["map"]
                    okm = all((is_const(core(a)) and core(a)[1] in (0xFFFFFFFF,)) or (core(a)[0] == "field" and core(a)[2] == "rva" and any(s[0] == "call" and s[1].endswith("alloc_array") for s in walk(a))) for a in alts(mp))
                    dyn = core(d["dynamic"])
                    okd = any(s[0] == "field" and s[2] == "p_vaddr" for s in walk(dyn))
                    ctx.check(ok and okc and okm and okd, R, "r_debug", b.where(bi, si), "MDRawDebug{version/brk/ldbase <- r_debug, map <- link-map array rva or u32::MAX, dso_count <- len(walked), dynamic <- PT_DYNAMIC address}", "debug record is %s" % show(e)[:240])
    ctx.floor(R, "link-map / debug records", n, 2)
    # chain: PHDR/PHNUM from auxv -> program headers copy -> PT_DYNAMIC -> DT_DEBUG -> r_debug -> r_map -> l_next
    cps = [(x, o.call_args(x)) for x, t in b.calls(lambda c: (c.short or "").endswith("copy_from_process"))]
    ctx.floor(R, "target reads in the linker walk", len(cps), 5)
    first = cps[0][1] if cps else None
    if first:
        ok = any(s[0] == "call" and s[1].endswith("get_program_header_address") for s in walk(first[1])) and any(s[0] == "call" and s[1].endswith("get_program_header_count") for s in walk(first[2]))
        ctx.check(ok and first[0] == ("param", 2), R, "phdr-from-auxv", b.where(cps[0][0]), "program headers are read at auxv PHDR for PHNUM entries", "program headers read at %s len %s" % (show(first[1])[:80], show(first[2])[:80]))
    # pid used for every read is the function's pid parameter
    ctx.check(all(a[0] == ("param", 2) for _, a in cps), R, "same-pid", b.where(0), "all linker-walk reads use the pid handed in", "a linker-walk read uses a different pid")
    # constants: PT_LOAD(1) / PT_DYNAMIC(2) / DT_DEBUG(21) / DT_NULL(0) compared against p_type / d_tag
    consts = {}
    for x in range(b.n):
        if b.term(x)["k"] == "switch":
            a, _ = switch_atom(b, o, x)
            if a[0] == "bin" and a[1] == "Eq":
                f = [core(s) for s in (a[2], a[3]) if core(s)[0] == "field"]
                c = [core(s) for s in (a[2], a[3]) if is_const(core(s))]
                if f and c:
                    consts.setdefault(f[0][2], set()).add(c[0][1])
            elif core(a)[0] == "field":
                # `match x.d_tag { DT_DEBUG => .., DT_NULL => .., _ => .. }`: the switch is on the field itself
                consts.setdefault(core(a)[2], set()).update(v for v, tb in b.term(x)["targets"] if isinstance(v, int))
    ctx.check(consts.get("p_type", set()) >= {1, 2} and consts.get("d_tag", set()) >= {21, 0}, R, "elf-constants", b.where(0), "p_type is tested against PT_LOAD/PT_DYNAMIC and d_tag against DT_DEBUG/DT_NULL", "constants compared: %s" % consts)
    # the dynamic section ends at its first DT_NULL: DT_DEBUG is taken only from the one entry a read just delivered, under the test of
    # THAT entry's tag (so nothing behind the terminator is ever looked at: the loop leaves on the same entry's DT_NULL)
    rl = [l for l, loc in enumerate(b.locals) if loc.get("name") == "r_debug"]
    if len(rl) != 1:
        ctx.unproven(R, "debug-entry", b.where(0), "no single local `r_debug` in the linker walk")
    else:
        nst = 0
        for bi, blk in enumerate(b.blocks):
            for si, st in enumerate(blk["stmts"]):
                if not (st["k"] == "assign" and st["p"]["l"] == rl[0] and not st["p"]["proj"]):
                    continue
                v = core(o._rvalue(st["r"], (bi, si), 0))
                if is_const(v):
                    continue
                nst += 1
                ent = strip(v[1]) if v[0] == "field" and v[2] == "d_val" else None
                oke = ent is not None and any(q[0] == "call" and q[1].split("::")[-1] == "first" for q in walk(ent)) and any(q[0] == "call" and q[1].endswith("copy_from_process") for q in walk(ent))
                dnf = conditions(b, bi, origin=o, relevant=lambda a: (a[0] == "bin" and a[1] == "Eq" and any(q[0] == "field" and q[2] == "d_tag" for q in walk(a))) or (core(a)[0] == "field" and core(a)[2] == "d_tag"))
                okt = False

                def _is_debug_test(a, v_):
                    if a[0] == "bin":
                        return v_ == 1 and {core(a[2]), core(a[3])} >= {("const", 21, "u64")} and any(q[0] == "field" and q[2] == "d_tag" and nosite(strip(q[1])) == nosite(ent) for q in (core(a[2]), core(a[3])))
                    q = core(a)
                    return v_ == 21 and nosite(strip(q[1])) == nosite(ent)    # the `match` form: switch on the tag itself, arm 21
                if oke and dnf:
                    okt = all(any(_is_debug_test(a, v_) for (a, v_) in c) for c in dnf)
                ctx.check(oke and okt, R, ("debug-entry", nst), b.where(bi, si), "r_debug is the d_val of the single entry just read, taken under that entry's d_tag == DT_DEBUG",
                          "r_debug is taken from %s without the test `d_tag == DT_DEBUG` of the one entry just read: entries behind the DT_NULL terminator (not part of the dynamic section) can supply it" % show(v)[:100])
        ctx.floor(R, "stores of r_debug from the target", nst, 1)
    # walk: starts at r_map, advances by l_next, elements pushed in walk order
    pushes = [(x, o.call_args(x)) for x, t in b.calls(lambda c: c.short == "std::vec::Vec::push")]
    okw = False
    for x, a in pushes:
        el = strip(a[1])
        okw = okw or any(s[0] == "call" and s[1].endswith("copy_from_process") for s in walk(el))
    cur = [i for i, l in enumerate(b.locals) if l.get("name") == "curr_map"]
    okn = False
    if cur:
        defs = [d for d in b.defs.get(cur[0], ()) if d[2] == "assign"]
        vals = [core(o._rvalue(d[3]["r"], (d[0], d[1]), 0)) for d in defs]
        okn = any(v[0] == "field" and v[2] == "r_map" for v in vals) and any(v[0] == "field" and v[2] == "l_next" for v in vals) and len(vals) == 2
    ctx.check(okw and okn, R, "walk", b.where(0), "the walk starts at r_debug.r_map, follows l_next and records each element read", "link_map walk shape not recognised")


def rule_sysinfo(ctx):
    R = "C18/sysinfo"
    b = ctx.body(R, "linux::sections::systeminfo_stream::write")
    if b is None:
        return
    o = Origin(b)
    stores = {}
    for bi, blk in enumerate(b.blocks):
        for si, st in enumerate(blk["stmts"]):
            if st["k"] == "assign" and st["p"]["proj"] and st["p"]["proj"][-1]["k"] == "field" and (st["p"]["proj"][-1].get("adt") or "").endswith("MINIDUMP_SYSTEM_INFO"):
                stores[st["p"]["proj"][-1]["n"]] = (bi, si, o._rvalue(st["r"], (bi, si), 0))
    okp = "platform_id" in stores and any(s[0] == "call" and s[1].endswith("os_information") for s in walk(stores["platform_id"][2]))
    okv = "csd_version_rva" in stores and any(s[0] == "call" and s[1]== "mem_writer::write_string_to_location" and any(q[0] == "call" and q[1].endswith("os_information") for q in walk(s)) for s in walk(stores["csd_version_rva"][2]))
    ctx.check(okp and okv, R, "os", b.where(0), "platform_id and the OS version string both come from os_information()", "platform/os version fields: %s" % {k: show(v[2])[:60] for k, v in stores.items()})
    cb = None
    for body in ctx.prog.bodies:
        if body.short.endswith("write_cpu_information") and "x86" in body.short:
            cb = body
    if cb is None:
        ctx.violated(R, ("anchor", "write_cpu_information"), None, "anchor missing: write_cpu_information")
        return
    co = Origin(cb)
    fields = {}
    for bi, blk in enumerate(cb.blocks):
        for si, st in enumerate(blk["stmts"]):
            if st["k"] == "assign" and st["p"]["proj"] and st["p"]["proj"][-1]["k"] == "field" and (st["p"]["proj"][-1].get("adt") or "").endswith("MINIDUMP_SYSTEM_INFO"):
                fields.setdefault(st["p"]["proj"][-1]["n"], []).append((bi, si, co._rvalue(st["r"], (bi, si), 0)))
    arch = fields.get("processor_architecture", [])
    ctx.check(bool(arch) and any((is_const(s) and s[1] == 9) or (s[0] == "agg" and s[2] == "PROCESSOR_ARCHITECTURE_AMD64") for a in arch for s in walk(a[2])), R, "arch", cb.where(0), "processor_architecture = AMD64 (9) on this target", "processor_architecture <- %s" % [show(a[2])[:60] for a in arch])
    # the table of cpuinfo keys: strings present and each feeds the right field
    strs = set()
    for s in cb.blocks:
        pass
    lits = set()
    for bi, blk in enumerate(cb.blocks):
        for st in blk["stmts"]:
            if st["k"] == "assign":
                for s in walk(co._rvalue(st["r"], (bi, 0), 0)):
                    if s[0] == "str":
                        lits.add(s[1])
        t = blk["term"]
        if t["k"] == "call":
            for a in co.call_args(bi):
                for s in walk(a):
                    if s[0] == "str":
                        lits.add(s[1])
    need = {"processor", "model", "stepping", "cpu family", "vendor_id"}
    ctx.check(need <= lits, R, "cpuinfo-keys", cb.where(0), "cpuinfo keys %s are looked up" % sorted(need), "cpuinfo keys present: %s" % sorted(lits & need))
    # field formulas, evaluated with the cpuinfo values keyed by the NAME each table entry was created with:
    #   number_of_processors = last 'processor' id + 1, processor_level = 'cpu family', processor_revision = 'model' << 8 | 'stepping'
    from engine import ipe
    spec = {"number_of_processors": lambda v: (v["processor"] + 1) & 0xff, "processor_level": lambda v: v["cpu family"] & 0xffff,
            "processor_revision": lambda v: ((v["model"] << 8) | v["stepping"]) & 0xffff}
    for fld, want in spec.items():
        sts = fields.get(fld, [])
        if len(sts) != 1:
            ctx.violated(R, ("field", fld), cb.where(0), "expected one store to MDRawSystemInfo.%s in write_cpu_information, found %d" % (fld, len(sts)))
            continue
        bi, si, e = sts[0]
        bad = None
        try:
            for vals in ({"processor": 7, "model": 0x9e, "stepping": 0xa, "cpu family": 6}, {"processor": 0, "model": 1, "stepping": 2, "cpu family": 23}, {"processor": 63, "model": 0x55, "stepping": 7, "cpu family": 15}):
                def leaf(x, vals=vals):
                    x = core(x)
                    if x[0] == "field" and x[2] == "value":
                        c_ = strip(x[1])
                        if c_[0] == "call" and c_[1].endswith("CpuInfoEntry::new"):
                            nm = [q[1] for q in walk(c_[2][0]) if q[0] == "str"]
                            if nm and nm[0] in vals:
                                return (vals[nm[0]], "i32")
                    return None
                got = ipe.Eval({}, {}, leaf=leaf).val(e)[0]
                if got != want(vals):
                    bad = "cpuinfo %s gives %s = %#x, expected %#x" % (vals, fld, got, want(vals))
        except ipe.Unsupported as ex:
            ctx.unproven(R, ("field", fld), cb.where(bi, si), "cannot evaluate %s: %s" % (fld, ex))
            continue
        ctx.check(bad is None, R, ("field", fld), cb.where(bi, si), "%s follows the documented formula (3 sample cpuinfo tables)" % fld, bad or "")
    ctx.floor(R, "stores into MDRawSystemInfo in write_cpu_information", sum(len(v) for v in fields.values()), 4)


def rule_auxv_pairs(ctx, R="C18/auxv-pairs"):
    """/proc/<pid>/auxv is an array of (key, value) pairs of native words, ended by AT_NULL: the iterator that feeds the key->field
    map must cut the file into 2*8-byte records, decode word 0 as the key and word 1 as the value with the native width, and stop
    at key == AT_NULL (0) only."""
    prog = ctx.prog
    nb = ctx.body(R, "linux::auxv::reader::ProcfsAuxvIter::new")
    it = [b for b in prog.bodies if b.short == "<linux::auxv::reader::ProcfsAuxvIter as std::iter::Iterator>::next"]
    rl = ctx.body(R, "linux::auxv::reader::read_long")
    if nb is None or rl is None or len(it) != 1:
        if len(it) != 1:
            ctx.violated(R, ("anchor", "ProcfsAuxvIter::next"), None, "anchor missing: <ProcfsAuxvIter as Iterator>::next")
        return
    b = it[0]
    o = Origin(b)
    # record size
    ok = False
    for e in return_origins(prog, nb.short) or []:
        e = strip(e)
        if e[0] == "agg":
            f = dict(e[3])
            ps = core(f.get("pair_size", ("?",)))
            try:
                ok = ipe.Eval({}).val(ps)[0] == 16
            except Exception:
                ok = False
            kg = core(f.get("keep_going", ("?",)))
            ctx.check(is_const(kg) and kg[1] == 1, R, "starts-iterating", nb.where(0), "a fresh iterator yields", "a fresh iterator starts with keep_going = %s" % show(kg))
    ctx.check(ok, R, "record=2*word", nb.where(0), "records are 2 * 8 bytes", "the record size is not 2 * size_of::<AuxvType>() = 16")
    # whole record read before decoding: the read loop is left (other than by returning) only when read_bytes < pair_size is false
    loops = b.loops()
    rd = [bi for bi, t in b.calls(lambda c: (c.short or "").endswith("io::Read::read") or (c.target or "").endswith("Read>::read"))]
    ctx.floor(R, "read into the record buffer", len(rd), 1)
    okl = False
    for bi in rd:
        inner = [h for h, body in loops.items() if bi in body]
        if not inner:
            continue
        h = min(inner, key=lambda x: len(loops[x]))
        exits = [(x, s_, lab) for x in loops[h] for (s_, lab) in b.succ_edges(x) if s_ not in loops[h] and lab != ("unwind",)]
        good = True
        n_ok = 0
        for x, s_, lab in exits:
            rets = b.reachable_from(s_, unwind=False)
            if b.term(x)["k"] == "switch":
                a, _ = switch_atom(b, o, x)
                a = core(a)
                if a[0] == "bin" and a[1] == "Lt" and core(a[3])[0] == "field" and core(a[3])[2] == "pair_size" and lab[0] == "sw" and lab[1] == 0:
                    n_ok += 1
                    continue
            # any other exit must not reach the decoding
            if any(y in rets for y, t in b.calls(lambda c: c.is_("linux::auxv::reader::read_long"))):
                good = False
        okl = good and n_ok == 1
    ctx.check(okl, R, "whole-record", b.where(rd[0]) if rd else b.where(0), "a record is decoded only after all of its bytes were read (short reads are continued)",
              "a record can be decoded before pair_size bytes were read")
    # key = first word, value = second word
    pairs = []
    for bi, blk in enumerate(b.blocks):
        for si, st in enumerate(blk["stmts"]):
            if st["k"] == "assign" and st["r"]["k"] == "agg" and st["r"].get("vname") == "AuxvPair" or (st["k"] == "assign" and st["r"]["k"] == "agg" and norm(st["r"].get("adt") or "").endswith("AuxvPair")):
                pairs.append((bi, si, strip(o._rvalue(st["r"], (bi, si), 0))))
    ctx.floor(R, "AuxvPair construction", len(pairs), 1)
    for bi, si, v in pairs:
        f = dict(v[3])
        k, val = strip(f.get("key", ("?",))), strip(f.get("value", ("?",)))
        okk = k[0] == "call" and k[1].endswith("read_long") and val[0] == "call" and val[1].endswith("read_long") and k[3] != val[3] and b.dominates(k[3][1], val[3][1]) \
            and nosite(k[2][0]) == nosite(val[2][0])
        ctx.check(okk, R, "key-then-value", b.where(bi, si), "key = first word, value = second word of the same record", "AuxvPair{key: %s, value: %s}" % (show(k)[:60], show(val)[:60]))
        # the only stop condition before the pair is yielded: key == 0
        dnf = conditions(b, bi, origin=o, relevant=lambda a: core(a)[0] == "bin" and core(a)[1] in ("Eq", "Ne") )
        oks = bool(dnf)
        for c in dnf or []:
            for (a, v_) in c:
                a = core(a)
                lhs, rhs = strip(a[2]), core(a[3])
                if not (nosite(lhs) == nosite(k) and is_const(rhs) and rhs[1] == 0 and ((a[1] == "Eq" and v_ == 0) or (a[1] == "Ne" and v_ != 0))):
                    # the `n == 0` EOF test of the read loop compares the read count, not the key
                    if lhs[0] == "call" and lhs[1].split("::")[-1] == "read":
                        continue
                    oks = False
        ctx.check(oks, R, "stops-at-AT_NULL-only", b.where(bi, si), "a pair is yielded unless its key is AT_NULL (0)", "pairs are withheld under another condition than key == AT_NULL")
    # ... and the sequence ENDS (None) only after AT_NULL was seen or after an error was handed out: an end of file before AT_NULL is an
    # error item (the consumer reports it as a failure of the auxv step), never a silent end
    nn = 0
    for bi2, blk2 in enumerate(b.blocks):
        for si2, st2 in enumerate(blk2["stmts"]):
            if not (st2["k"] == "assign" and st2["p"]["l"] == 0 and not st2["p"]["proj"]):
                continue
            e2 = strip(o._rvalue(st2["r"], (bi2, si2), 0))
            if not (e2[0] == "agg" and e2[2] == "None"):
                continue
            nn += 1
            dnf2 = conditions(b, bi2, origin=o)
            okn = bool(dnf2)
            for c in dnf2 or []:
                fused = any(strip(a) == ("field", ("param", 1), "keep_going") and v_ == 0 for (a, v_) in c)
                # the test-and-clear spelled `mem::replace(&mut self.keep_going, false)` / `mem::take(&mut self.keep_going)`: its result is the old flag
                # (accepted only if, on MIR places, the reference handed to it is to the field itself — rules/c02.py flag_clears)
                from rules import c02 as _c02f
                fused = fused or (bool(_c02f.flag_clears(b)) and any(strip(a)[0] == "call" and strip(a)[1] in ("std::mem::replace", "std::mem::take") and strip(a)[2]
                                     and strip(strip(a)[2][0]) == ("field", ("param", 1), "keep_going") and v_ == 0 for (a, v_) in c))
                at_null = any(core(a)[0] == "bin" and core(a)[1] == "Eq" and v_ == 1 and is_const(core(core(a)[3])) and core(core(a)[3])[1] == 0
                              and any(q[0] == "call" and q[1].endswith("reader::read_long") for q in walk(core(a)[2])) for (a, v_) in c)
                okn = okn and (fused or at_null)
            ctx.check(okn, R, ("ends-only-after-AT_NULL", nn), b.where(bi2, si2), "the iterator ends only when fused or on a pair whose key is AT_NULL",
                      "the iterator can end (None) without having seen AT_NULL: a vector cut short on a pair boundary (or an empty one) looks complete, and the values it should have supplied are missing without any failure being reported")
    ctx.floor(R, "None returns of the auxv iterator", nn, 2)
    # native word decoding
    ro = Origin(rl)
    sw = [x for x in range(rl.n) if rl.term(x)["k"] == "switch" and is_const(core(switch_atom(rl, ro, x)[0]))]
    okw = False
    if len(sw) == 1:
        width = core(switch_atom(rl, ro, sw[0])[0])[1]
        tgt = [s_ for (s_, lab) in rl.succ_edges(sw[0]) if lab[0] == "sw" and lab[1] == width]
        if width == 8 and tgt:
            t = rl.term(tgt[0])
            inst = (t.get("callee") or {}).get("inst") or ""
            okw = t["k"] == "call" and "read_u64::<byteorder::LittleEndian>" in inst or "read_u64::<byteorder::NativeEndian>" in inst
    ctx.check(okw, R, "native-word", rl.where(0), "a word is 8 bytes, native (little) endian", "read_long does not decode an 8-byte native-endian word for this target")


def rule_dso_extent(ctx, R="C18/dso-extent"):
    """the LinuxDsoDebug entry names the MDRawDebug record plus the copy of the dynamic section that follows it: the entry's size is the
    record's own size grown by L, and what is appended right behind the record is the result of copying exactly L bytes from the
    dynamic section's address — so the entry never names bytes that are not (yet) in the image"""
    b = ctx.body(R, "linux::dso_debug::write_dso_debug_stream")
    if b is None:
        return
    o = Origin(b)
    incs = []
    for bi, blk in enumerate(b.blocks):
        for si, st in enumerate(blk["stmts"]):
            if st["k"] == "assign" and st["p"]["proj"] and st["p"]["proj"][-1].get("n") == "data_size":
                incs.append((bi, si, core(o._rvalue(st["r"], (bi, si), 0))))
    wbs = [(bi, o.call_args(bi)) for bi, t in b.calls(lambda c: c.endswith("MemoryArrayWriter::write_bytes"))]
    ctx.floor(R, "size adjustments of the LinuxDsoDebug entry", len(incs), 1)
    ctx.floor(R, "raw appends in write_dso_debug_stream", len(wbs), 1)
    if len(incs) != 1 or len(wbs) != 1:
        ctx.unproven(R, "shape", b.where(0), "expected one data_size adjustment and one raw append (found %d, %d)" % (len(incs), len(wbs)))
        return
    bi, si, v = incs[0]
    ok = v[0] == "bin" and v[1] in ("Add", "AddWithOverflow") and any(q[0] == "call" and q[1].endswith("MemoryWriter::location") for q in walk(v[2]))
    grow = core(v[3]) if ok else None
    data = strip(wbs[0][1][1])
    okd = data[0] == "call" and data[1].endswith("copy_from_process") and len(data[2]) == 3
    same = okd and grow is not None and nosite(core(data[2][2])) == nosite(grow)
    ctx.check(ok and okd and same, R, "size=record+copied", b.where(bi, si), "entry size = size of the record + L, and the bytes appended are copy_from_process(pid, dynamic, L)",
              "the LinuxDsoDebug entry is grown by %s but the bytes appended behind the record are %s" % (show(grow)[:80] if grow else show(v)[:80], show(data)[:100]))
    if okd:
        addr = core(data[2][1])
        rec = [q for q in walk(v[2]) if q[0] == "agg" and q[1].endswith("DSO_DEBUG_64")] if ok else []
        dynf = core(dict(rec[0][3]).get("dynamic")) if rec else None
        ctx.check(dynf is not None and nosite(core(addr)) == nosite(dynf) or (dynf is not None and any(nosite(q) == nosite(dynf) for q in walk(addr))), R, "copied-from-dynamic", b.where(wbs[0][0]),
                  "the copy starts at the address recorded in MDRawDebug.dynamic", "the appended bytes are copied from %s, MDRawDebug.dynamic is %s" % (show(addr)[:60], show(dynf)[:60] if dynf else "?"))
    # the append directly follows the record: no other allocation between alloc_with_val(debug) and write_bytes
    allocs = [x for x, t in b.calls(lambda c: (c.short or "").startswith("mem_writer::") and (c.short or "").split("::")[-1] in ("alloc", "alloc_with_val", "alloc_array", "alloc_from_array", "alloc_from_iter", "write_bytes") or (c.short or "")== "mem_writer::write_string_to_location")]
    rec_alloc = [x for x, t in b.calls(lambda c: c.endswith("MemoryWriter::alloc_with_val")) if "DSO_DEBUG" in (t["callee"].get("inst") or "") or "MDRawDebug" in (t["callee"].get("inst") or "")]
    okadj = bool(rec_alloc) and not [x for x in allocs if x not in (rec_alloc[0], wbs[0][0]) and witness_path(b, rec_alloc[0], {x}) and witness_path(b, x, {wbs[0][0]})]
    ctx.check(okadj, R, "adjacent", b.where(wbs[0][0]), "nothing is allocated between the record and the copied section", "another allocation lies between the MDRawDebug record and the copied dynamic section")


def rule_dso_load_bias(ctx, R="C18/dso-load-bias"):
    """the dynamic section of the main program is at p_vaddr(PT_DYNAMIC) + bias, bias = page(AT_PHDR) - p_vaddr of the PT_LOAD that maps
    file offset 0 — for a PIE (p_vaddr 0) and for a non-PIE executable (p_vaddr = its link address, exactly the page of the program
    headers) alike: the subtraction is unconditional modular arithmetic under `PT_LOAD && p_offset == 0` and nothing else."""
    b = ctx.body(R, "linux::dso_debug::write_dso_debug_stream")
    if b is None:
        return
    o = Origin(b)
    loops = b.loops()
    ups = []
    for bi, t in b.calls(lambda c: (c.short or "").split("::")[-1] in ("wrapping_sub", "saturating_sub", "checked_sub")):
        a = o.call_args(bi)
        if any(q[0] == "field" and q[2] == "p_vaddr" for q in walk(a[1])) and any(q[0] == "call" and q[1].endswith("get_program_header_address") for q in walk(a[0])):
            ups.append((bi, (CalleeView(t["callee"]).short or "").split("::")[-1]))
    for bi, blk in enumerate(b.blocks):
        for si, st in enumerate(blk["stmts"]):
            if st["k"] == "assign" and st["r"]["k"] == "binop" and st["r"].get("op") in ("Sub", "SubWithOverflow", "SubUnchecked"):
                e = core(o._rvalue(st["r"], (bi, si), 0))
                if e[0] == "bin" and any(q[0] == "field" and q[2] == "p_vaddr" for q in walk(e[3])) and any(q[0] == "call" and q[1].endswith("get_program_header_address") for q in walk(e[2])):
                    ups.append((bi, "-"))
    ctx.floor(R, "bias adjustments by a segment's p_vaddr", len(ups), 1)
    for bi, how in ups:
        ctx.check(how == "wrapping_sub", R, ("adjust", "modular"), b.where(bi), "bias = page(AT_PHDR).wrapping_sub(p_vaddr)", "the bias is adjusted with `%s`, not modular subtraction (a non-PIE link address equals the page of the program headers)" % how)
        inner = [h for h, body in loops.items() if bi in body]
        h = min(inner, key=lambda x: len(loops[x])) if inner else 0
        dnf = conditions(b, bi, origin=o, entry=h)
        ok = bool(dnf)
        extra = []
        for c in dnf or []:
            need = {"p_type": False, "p_offset": False}
            for (q, v) in c:
                qc = core(q)
                if qc[0] == "discr":
                    continue
                flds = {x[2] for x in walk(qc) if x[0] == "field"}
                if qc[0] == "bin" and qc[1] == "Eq" and v == 1 and flds == {"p_type"} and is_const(core(qc[3])) and core(qc[3])[1] == 1:
                    need["p_type"] = True
                elif qc[0] == "bin" and qc[1] == "Eq" and v == 1 and flds == {"p_offset"} and is_const(core(qc[3])) and core(qc[3])[1] == 0:
                    need["p_offset"] = True
                else:
                    extra.append("%s == %s" % (show(qc)[:70], v))
            ok = ok and all(need.values())
        ctx.check(ok and not extra, R, ("adjust", "condition"), b.where(bi), "the adjustment is made for the PT_LOAD segment with p_offset == 0, under no other condition",
                  "the bias adjustment depends on more than `p_type == PT_LOAD && p_offset == 0`: %s" % ("; ".join(extra[:3]) or "condition not recognised"))
    adds = [(bi, o.call_args(bi)) for bi, t in b.calls(lambda c: (c.short or "").split("::")[-1] == "wrapping_add")]
    okdyn = any(any(q[0] == "field" and q[2] == "p_vaddr" for q in walk(a[0])) and any(q[0] == "call" and q[1].endswith("get_program_header_address") for q in walk(a[1])) for bi, a in adds)
    ctx.check(okdyn, R, "dynamic=vaddr+bias", b.where(adds[0][0]) if adds else b.where(0), "dyn_addr = p_vaddr(PT_DYNAMIC).wrapping_add(bias)", "the dynamic section's address is not p_vaddr + bias")
    # ... with the FINAL bias: the headers are in no fixed order (only PT_LOADs are sorted among themselves), so the bias is known only
    # when every header was looked at — the addition must not sit inside the loop that still adjusts the bias
    adj_loops = {h for bi, how in ups for h, body in loops.items() if bi in body}
    for bi, a in adds:
        if any(q[0] == "field" and q[2] == "p_vaddr" for q in walk(a[0])) and any(q[0] == "call" and q[1].endswith("get_program_header_address") for q in walk(a[1])):
            inside = [h for h in adj_loops if bi in loops[h]]
            ctx.check(not inside, R, "bias-is-final", b.where(bi), "the bias is added after the program-header scan has finished adjusting it",
                      "the bias is added inside the program-header scan: a PT_DYNAMIC listed before the PT_LOAD with p_offset == 0 gets the unadjusted page address (off by that segment's p_vaddr for a non-PIE image)")


CPU_FIELDS = ("processor_architecture", "number_of_processors", "processor_level", "processor_revision", "cpu")
CPU_FIELD_WRITERS = ("linux::dumper_cpu_info::x86_mips::write_cpu_information",)


def rule_cpu_fields_owner(ctx, R="C18/sysinfo-owner"):
    """the CPU fields of the system-info record (architecture, processor count, level, revision, vendor) describe THE MACHINE as
    /proc/cpuinfo reports it (the formulas of C18/sysinfo): they are written only by write_cpu_information — nothing else in the crate
    overwrites them afterwards with a value from another source (the dumper's own affinity mask, a constant, ...)"""
    others = []
    n = 0
    for body in ctx.prog.bodies:
        for bi, blk in enumerate(body.blocks):
            if blk["cleanup"]:
                continue
            for si, st in enumerate(blk["stmts"]):
                if st["k"] != "assign":
                    continue
                for pl in (st["p"], st["r"].get("p") if st["r"]["k"] == "ref" and st["r"].get("bk") == "mut" else None):
                    if not pl:
                        continue
                    for e in pl["proj"]:
                        if e["k"] == "field" and e.get("n") in CPU_FIELDS and norm(e.get("adt") or "").endswith("MINIDUMP_SYSTEM_INFO"):
                            n += 1
                            if body.short.split("::{closure")[0] not in CPU_FIELD_WRITERS:
                                others.append("%s.%s in %s (%s)" % ("info", e["n"], body.short.split("::")[-2] + "::" + body.short.split("::")[-1], body.where(bi, si)))
    ctx.floor(R, "stores to CPU fields of the system-info record", n, 4)
    ctx.check(not others, R, "cpu-fields-written-once", None, "the CPU fields are written by write_cpu_information only",
              "a CPU field of the system-info record is (over)written outside write_cpu_information: %s" % "; ".join(sorted(set(others))[:3]))


def run(ctx):
    # link-map names, handle link targets and the OS version string go through the shared string helper (same instance as C16/string)
    from rules import c16
    c16.rule_string(ctx, R="C18/strings")
    from rules import preds
    preds.run(ctx, PROPERTY, ["auxv_is_complete", "dso-name-terminator"])   # "caller-supplied values first, the kernel's otherwise" needs the lookup to run whenever something is missing
    rule_stream_file_table(ctx)
    rule_meminfo(ctx)
    rule_handles(ctx)
    rule_auxv(ctx)
    rule_auxv_pairs(ctx)
    rule_dso(ctx)
    rule_dso_extent(ctx)
    rule_dso_load_bias(ctx)
    rule_sysinfo(ctx)
    rule_cpu_fields_owner(ctx)
    # the architecture is named also when the CPU details cannot be gathered: it is stored before anything in that step can fail and
    # the record the step filled is the one written (same rule instance as C11/partial-results-kept)
    from rules import c11
    c11.rule_partial_results_kept(ctx, R="C18/arch-always-named")
    # caller-supplied auxv values stay in force for every dump (same rule instance as C19/config-preserved)
    from rules import c19 as _c19
    _c19.rule_config_preserved(ctx, R="C18/options-kept", only=("direct_auxv_dump_info",))
    # the stream is attempted in every dump: its writer is on every success path of generate_dump (same rule instance as C01/every-stream-attempted)
    from rules import c01 as _c01
    _c01.rule_stream_attempted(ctx, R="C18/stream-attempted", only=("systeminfo_stream::write", "memory_info_list_stream::write", "MinidumpWriter::write_file", "dso_debug::write_dso_debug_stream", "handle_data_stream::write"))
    # shared infrastructure this property leans on (rules/families.py): each member is the same rule instance as in its home property
    from rules import families as _fam
    _fam.reader(ctx, "C18")
    # the stream reaches the caller's file where the directory says, wherever in the destination the dump starts (rules/families.py)
    from rules import families as _famd
    _famd.destination(ctx, "C18")
    # the small accessors and pass-through wrappers the rules above look through by name return what their names say (rules/accessors.py)
    from rules import accessors as _acc
    _acc.rule_accessors(ctx, "C18")
    # the stream this property talks about is all-or-nothing: generate_dump succeeds only if its writer returned Ok (rules/c01.py rule_hard_streams)
    from rules import c01 as _c01h
    _c01h.rule_hard_streams(ctx, R="C18/hard-streams", only=('systeminfo_stream::write', 'memory_info_list_stream::write'))
