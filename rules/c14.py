"""C14 — ELF identification is total and agrees with an independent reader (structural clauses)."""
from engine.mir import CalleeView, norm
from engine.origin import Origin, strip, core, show, root, walk, nosite, is_const, alts
from engine.paths import Exits, must_pass, conditions, switch_atom, witness_path
from engine import taint as T
from rules import c02

PROPERTY = "C14"
EXPLANATION = ("(total) the C02 panic-site / explicit-panic / unbounded-loop ledgers restricted to what is reachable from "
               "BuildId/SoName::read_from_module, read_from_file, ModuleReader::*, ProcessMemory::read and SoVersion::parse, with every byte "
               "read from the module (and everything goblin parses out of it) tainted — in particular every offset/size sum feeding a read is "
               "checked/saturating or discharged, and read_name_from_strtab's assertion is established at both call sites; (strategy-order) "
               "BuildId tries program-header note, then note section, then text hash, each reached only on the previous one's Err; SoName tries "
               "program headers then sections; (mem-file-siblings) read_segment and section_offset select (p_vaddr,p_memsz)/sh_addr iff the module "
               "is process memory and (p_offset,p_filesz)/sh_offset otherwise; the text hash reads min(4096, sh_size) bytes and folds 16 bytes wide.")
TRUSTED = ["goblin header/program-header/section-header/note/dyn parsers return Err on malformed input", "tables/taint.json"]
ASSUMPTIONS = ["equality with an independent ELF parser on real files is a statement about file contents and is not decided"]

MR = "linux::module_reader"
ENTRIES = ["<%s::BuildId as %s::ReadFromModule>::read_from_module" % (MR, MR), "<%s::SoName as %s::ReadFromModule>::read_from_module" % (MR, MR),
           MR + "::ReadFromModule::read_from_file", "linux::maps_reader::SoVersion::parse", "linux::maps_reader::MappingInfo::get_mapping_effective_path_name_and_version"]


def rule_total(ctx):
    prog = ctx.prog
    missing = [e for e in ENTRIES if e not in prog.by_short]
    for e in missing:
        ctx.violated("C14/total", ("anchor", e), None, "anchor missing: %s" % e)
    entries = [e for e in ENTRIES if e in prog.by_short]
    taint = T.Taint(prog, entries + c02.ENTRIES)
    # restrict the ledgers to the ELF/so-version code
    own = prog.reachable(entries)
    scope = lambda f: f in own
    ctx.analysed["c14_reachable_functions"] = len(own)
    ctx.floor("C14/total", "functions reachable from the ELF entry points", len(own), 25)
    st = c02.ledger(ctx, taint, "C14/total", scope=scope)
    ctx.analysed["panic_sinks"] = st
    c02.rule_explicit_panic(ctx, taint, rule="C14/total-explicit", scope=scope)
    c02.rule_loops(ctx, taint, rule="C14/total-loops", scope=scope)
    c02.rule_internal_iteration(ctx, taint, rule="C14/total-iter", scope=scope)
    ctx.floor("C14/total", "panic sinks examined in ELF code", st["total"], 20)


def first_local_calls(b, names):
    out = {}
    for x, t in b.calls():
        cv = CalleeView(t["callee"])
        for n in names:
            if (cv.short or "").endswith(n):
                out.setdefault(n, []).append(x)
    return out


def rule_strategy_order(ctx):
    R = "C14/strategy-order"
    specs = [("<%s::BuildId as %s::ReadFromModule>::read_from_module" % (MR, MR), ["build_id_from_program_headers", "build_id_from_section", "build_id_generate_from_text"]),
             ("<%s::SoName as %s::ReadFromModule>::read_from_module" % (MR, MR), ["soname_from_program_headers", "soname_from_sections"])]
    for fn, order in specs:
        b = ctx.body(R, fn)
        if b is None:
            continue
        o = Origin(b)
        # strategies may be invoked inside or_else closures: collect (strategy -> (body, block)) over fn and its closures
        where = {}
        bodies = [b] + ctx.prog.closures_of(b)
        for bb in bodies:
            for x, t in bb.calls():
                cv = CalleeView(t["callee"])
                for n in order:
                    if (cv.short or "").endswith("::" + n):
                        where.setdefault(n, []).append((bb, x))
        short = fn.split("::")[-3].split(" ")[0].strip("<") if "<" in fn else fn
        for n in order:
            ctx.check(len(where.get(n, [])) == 1, R, (short, n, "present"), b.where(0), "%s is tried exactly once" % n, "%s is called %d times" % (n, len(where.get(n, []))), nontrivial=False)
        if any(len(where.get(n, [])) != 1 for n in order):
            continue
        # each later strategy is reached only on the earlier one's Err: either in an or_else closure chained on the earlier result,
        # or in the same body under discr(earlier) == Err
        for i in range(1, len(order)):
            prev_b, prev_x = where[order[i - 1]][0]
            cur_b, cur_x = where[order[i]][0]
            ok = False
            why = ""
            if cur_b is not prev_b and cur_b.kind == "Closure":
                # closure passed to or_else whose receiver derives from the previous strategy's result
                host = None
                for bb in bodies:
                    ho = Origin(bb)
                    for x, t in bb.calls(lambda c: (c.short or "").split("::")[-1] == "or_else"):
                        a = ho.call_args(x)
                        if any(s[0] == "closure" and s[1] == cur_b.short for s in walk(a[1])):
                            recv = a[0]
                            if any(s[0] == "call" and s[1].endswith("::" + order[i - 1]) for s in walk(recv)) or any(
                                    s[0] == "closure" and any((CalleeView(t2["callee"]).short or "").endswith("::" + order[i - 1]) for cb2 in ctx.prog.by_short.get(s[1], ()) for _, t2 in cb2.calls()) for s in walk(recv)):
                                ok = True
                                why = "or_else on the result of %s" % order[i - 1]
            else:
                co = Origin(cur_b)
                dnf = conditions(cur_b, cur_x, origin=co, relevant=lambda a: a[0] == "discr" and any(s[0] == "call" and s[1].endswith("::" + order[i - 1]) for s in walk(a)))
                ok = bool(dnf) and all(any(v == 1 for (_, v) in c) for c in dnf)
                why = "branch on Err of %s" % order[i - 1]
            ctx.check(ok, R, (short, order[i], "only-after-err"), cur_b.where(cur_x), "%s is attempted only when %s failed (%s)" % (order[i], order[i - 1], why),
                      "%s is not conditioned on the failure of %s" % (order[i], order[i - 1]))


def rule_mem_file_siblings(ctx, R="C14/mem-file-siblings"):
    b = ctx.body(R, MR + "::ModuleReader::read_segment")
    if b is not None:
        o = Origin(b)
        reads = list(b.calls(lambda c: (c.short or "").endswith("ProcessMemory::read")))
        ctx.floor(R, "read in read_segment", len(reads), 1)
        for x, t in reads:
            a = o.call_args(x)
            off, size = a[1], a[2]
            # alternatives with their conditions: the (offset,size) pair local is assigned under is_process_memory
            names = set()
            for alt_o in alts(off):
                names |= {s[2] for s in walk(alt_o) if s[0] == "field" and s[2].startswith("p_")}
            for alt_s in alts(size):
                names |= {s[2] for s in walk(alt_s) if s[0] == "field" and s[2].startswith("p_")}
            ctx.check(names == {"p_vaddr", "p_memsz", "p_offset", "p_filesz"}, R, ("read_segment", "fields"), b.where(x), "a segment is read at (p_vaddr, p_memsz) or (p_offset, p_filesz)", "segment read uses fields %s" % sorted(names))
        # which pair under which condition
        ok = pair_selection(b, o, {"p_vaddr": 1, "p_memsz": 1, "p_offset": 0, "p_filesz": 0})
        ctx.check(ok, R, ("read_segment", "selection"), b.where(0), "memory addresses are used iff the module is process memory, file offsets otherwise", "field selection does not follow is_process_memory()")
    # the same discipline everywhere a SEGMENT's location is used (program headers, unlike section headers, describe what the loader
    # maps, so a segment of a module in process memory is at p_vaddr, not at its file offset): outside read_segment, every read of
    # p_offset / p_filesz is on paths where is_process_memory() is false, and p_vaddr / p_memsz where it is true
    WANT = {"p_vaddr": 1, "p_memsz": 1, "p_offset": 0, "p_filesz": 0}
    n_sites = 0
    for body in ctx.prog.bodies:
        if not body.short.startswith(MR + "::") or body.short.endswith("::read_segment"):
            continue
        bo = None
        for bi, blk in enumerate(body.blocks):
            if blk["cleanup"]:
                continue
            for si, st in enumerate(blk["stmts"]):
                if st["k"] != "assign" or st["r"]["k"] not in ("use", "cast", "agg"):
                    continue
                ops = [st["r"]["o"]] if st["r"]["k"] in ("use", "cast") else st["r"]["ops"]
                for op in ops:
                    if op.get("k") not in ("copy", "move"):
                        continue
                    for e in op["p"]["proj"]:
                        if e["k"] == "field" and e["n"] in ("p_offset", "p_vaddr") and "ProgramHeader" in (e.get("adt") or ""):
                            n_sites += 1
                            bo = bo or Origin(body)
                            dnf = conditions(body, bi, origin=bo, relevant=lambda a: a[0] == "call" and a[1].endswith("is_process_memory"))
                            okc = bool(dnf) and all(any(v == WANT[e["n"]] for (_, v) in c) for c in dnf)
                            fn = body.short.split("::{closure")[0].split("::")[-1]
                            ctx.check(okc, R, ("segment-location", fn, e["n"]), body.where(bi, si),
                                      "%s reads %s only when the module is %s" % (fn, e["n"], "process memory" if WANT[e["n"]] else "a file image"),
                                      "%s uses a segment's %s whatever kind of memory the module is read from (read_segment uses p_vaddr for process memory): for a loaded "
                                      "module whose segment is not mapped at its file offset the bytes are read from the wrong place" % (fn, e["n"]))
                            if e["n"] == "p_vaddr" and okc:
                                # a non-PIE executable's (or a prelinked object's) p_vaddr is already an absolute address: it becomes
                                # module-relative only through absolute(), like DT_STRTAB's value
                                ab = [x for x, t in body.calls(lambda c: c.endswith("ProcessMemory::absolute")) if any(q[0] == "field" and q[2] == "p_vaddr" for q in walk(bo.call_args(x)[1]))]
                                ctx.check(bool(ab), R, ("segment-location", fn, "p_vaddr-made-relative"), body.where(bi, si), "the segment's virtual address is made module-relative with absolute() before it is read",
                                          "%s reads at a raw p_vaddr: for a non-PIE executable (absolute link address) the read goes to start + 0x400000 + x and the note is lost" % fn)
    ctx.ok(R, ("segment-location", "sites"), None, "uses of a segment's location outside read_segment: %d" % n_sites, nontrivial=False)
    b = ctx.body(R, MR + "::ModuleReader::section_offset")
    if b is not None:
        o = Origin(b)
        ok = pair_selection(b, o, {"sh_addr": 1, "sh_offset": 0})
        ctx.check(ok, R, ("section_offset", "selection"), b.where(0), "sh_addr is used iff the module is process memory, sh_offset otherwise", "section offset selection does not follow is_process_memory()")
    # absolute(): rebases only for process memory
    b = ctx.body(R, MR + "::ProcessMemory::absolute")
    if b is not None:
        o = Origin(b)
        from engine.summ import return_origins
        outs = return_origins(ctx.prog, b.short) or []
        flat = [x for e in outs for x in alts(e)]
        plain = [x for x in flat if strip(x) == ("param", 2)]
        rebased = [x for x in flat if any(s[0] == "call" and s[1].split("::")[-1] == "checked_sub" for s in walk(x))]
        ctx.check(bool(plain) and bool(rebased), R, ("absolute", "rebases"), b.where(0), "absolute() returns addr unchanged for slices and addr - start_address (checked) for process memory", "absolute() returns %s" % [show(x)[:60] for x in flat])
    # text hash: min(4096, sh_size), 16-byte fold
    b = ctx.body(R, MR + "::ModuleReader::build_id_generate_from_text")
    if b is not None:
        o = Origin(b)
        mins = [o.call_args(x) for x, t in b.calls(lambda c: __import__("engine.names").names.stdseg(c.short or "") == "min")]
        ok = any({core(a[0]), core(a[1])} & {("const", 4096, "u64"), ("const", 4096, "usize")} and any(s[0] == "field" and s[2] == "sh_size" for s in walk(tuple(a))) for a in mins)
        ctx.check(ok, R, ("text-hash", "first-page"), b.where(0), "the text hash covers min(4096, sh_size) bytes of the first executable section", "text hash length is %s" % [show(a)[:80] for a in mins])
    b = ctx.body(R, MR + "::build_id_from_bytes")
    if b is not None:
        o = Origin(b)
        consts = {s[1] for bi, blk in enumerate(b.blocks) for st in blk["stmts"] if st["k"] == "assign" for s in walk(o._rvalue(st["r"], (bi, 0), 0)) if is_const(s) and isinstance(s[1], int)}
        for x, t in b.calls():
            for a in o.call_args(x):
                consts |= {s[1] for s in walk(a) if is_const(s) and isinstance(s[1], int)}
        ctx.check(16 in consts, R, ("text-hash", "fold-width"), b.where(0), "the fold is 16 bytes wide", "fold width constant 16 not found (%s)" % sorted(c for c in consts if isinstance(c, int) and c < 100))


def pair_selection(b, o, want):
    """each field name in `want` is read only on paths where is_process_memory() has the given truth value"""
    ok = True
    seen = set()
    for bi, blk in enumerate(b.blocks):
        if blk["cleanup"]:
            continue
        for si, st in enumerate(blk["stmts"]):
            if st["k"] != "assign":
                continue
            fields = set()
            r = st["r"]
            ops = []
            if r["k"] == "use":
                ops = [r["o"]]
            elif r["k"] == "agg":
                ops = r["ops"]
            elif r["k"] == "cast":
                ops = [r["o"]]
            for op in ops:
                if op["k"] in ("copy", "move"):
                    for e in op["p"]["proj"]:
                        if e["k"] == "field" and e["n"] in want:
                            fields.add(e["n"])
            for fld in fields:
                seen.add(fld)
                dnf = conditions(b, bi, origin=o, relevant=lambda a: a[0] == "call" and a[1].endswith("is_process_memory"))
                if not dnf or not all(any(v == want[fld] for (_, v) in c) for c in dnf):
                    ok = False
    return ok and seen == set(want)


def rule_scan_all_notes(ctx, R="C14/scan-all-notes"):
    """build_id_from_program_headers examines EVERY PT_NOTE segment: a segment that cannot be read or parsed (or holds no build-id
    note) is skipped, it does not end the scan — the GNU build-id note is often in a later PT_NOTE than an empty/odd first one"""
    b = ctx.body(R, MR + "::ModuleReader::build_id_from_program_headers")
    if b is None:
        return
    calls = [bi for bi, t in b.calls(lambda c: (c.short or "").endswith("ModuleReader::find_build_id_note"))]
    ctx.floor(R, "find_build_id_note call in the program-header scan", len(calls), 1)
    loops = b.loops()
    ex = Exits(b)
    for bi in calls:
        inner = [h for h, body in loops.items() if bi in body]
        if not inner:
            ctx.violated(R, "in-loop", b.where(bi), "the note lookup is not inside a loop over the program headers")
            continue
        h = min(inner, key=lambda x: len(loops[x]))
        bad = []
        for eb in sorted(ex.err_blocks()):
            if witness_path(b, bi, {eb}) and must_pass(b, bi, {eb}, {h}) is not None:
                bad.append(b.where(eb))
        ctx.check(not bad, R, "failing-segment-is-skipped", b.where(bi),
                  "after the lookup in one PT_NOTE segment an error return is only reachable through the loop header (a failing or empty segment is skipped)",
                  "an unreadable/unparsable PT_NOTE segment ends the scan with an error (%s) before the remaining PT_NOTE segments are examined" % ", ".join(bad[:3]))
        okx = [ob for ob in ex.ok_blocks() if witness_path(b, bi, {ob})]
        ctx.check(bool(okx), R, "found-returns", b.where(bi), "a build-id note found in a segment is returned", "no success return follows the lookup")


def rule_text_section_predicate(ctx, R="C14/text-section"):
    """the XOR-fold fallback hashes the first page of the first EXECUTABLE section: is_executable_section(h) must be
    sh_type == SHT_PROGBITS(1) && SHF_ALLOC(0x2) set && SHF_EXECINSTR(0x4) set   (ELF gABI values, not read from the code)"""
    from rules import c06
    from engine import ipe
    b = ctx.body(R, MR + "::is_executable_section")
    if b is None:
        return
    bad = []
    try:
        for ty in (0, 1, 7, 8):
            for flags in (0, 1, 2, 3, 4, 5, 6, 7, 0x10, 0x12, 0x14, 0x16, 0x36):
                def leaf(e, ty=ty, flags=flags):
                    e = core(e)
                    if e[0] == "field" and e[2] == "sh_type":
                        return (ty, "u32")
                    if e[0] == "field" and e[2] == "sh_flags":
                        return (flags, "u64")
                    if e[0] == "call" and e[1].split("::")[-1] == "from" and e[2]:
                        return None
                    return None
                got = c06.bool_fn_truth(ctx.prog, b, leaf)
                want = ty == 1 and bool(flags & 2) and bool(flags & 4)
                if got != want:
                    bad.append("sh_type=%d sh_flags=%#x -> %s" % (ty, flags, got))
    except ipe.Unsupported as e:
        ctx.unproven(R, "predicate", b.where(0), "cannot evaluate is_executable_section: %s" % e)
        return
    ctx.check(not bad, R, "predicate", b.where(0), "a section is the text section iff PROGBITS and ALLOC and EXECINSTR (52-row table against the gABI constants)",
              "is_executable_section is not `PROGBITS && ALLOC && EXECINSTR`: %s" % "; ".join(bad[:4]))
    # and the fallback hashes the FIRST section satisfying it
    g = ctx.body(R, MR + "::ModuleReader::build_id_generate_from_text")
    if g is not None:
        o = Origin(g)
        finds = [bi for bi, t in g.calls(lambda c: (c.short or "").split("::")[-1] == "find")]
        ok = False
        for bi in finds:
            a = o.call_args(bi)
            fn = strip(a[1])
            ok = ok or (fn[0] in ("fn", "const", "named") and "is_executable_section" in str(fn)) or "is_executable_section" in show(fn)
        ctx.check(ok, R, "first-match", g.where(finds[0]) if finds else None, "the fallback takes the first section (in header order) that satisfies the predicate",
                  "build_id_generate_from_text does not select the section with find(is_executable_section)")


def rule_header_tables(ctx, R="C14/header-tables"):
    """the program / section header tables are read at e_phoff / e_shoff with exactly e_phentsize*e_phnum / e_shentsize*e_shnum bytes —
    the entry size the FILE declares (40 vs 64 for sections, 32 vs 56 for segments, by ELF class), not a fixed one: a longer read runs off
    the end of a 32-bit image whose section table is the last thing in the file, a shorter one truncates the table"""
    for fn, off, esz, num in (("read_program_headers", "e_phoff", "e_phentsize", "e_phnum"), ("read_section_headers", "e_shoff", "e_shentsize", "e_shnum")):
        b = ctx.body(R, MR + "::ModuleReader::" + fn)
        if b is None:
            continue
        o = Origin(b)
        reads = [bi for bi, t in b.calls(lambda c: (c.short or "").endswith("ProcessMemory::read"))]
        ctx.floor(R, "table read in " + fn, len(reads), 1)
        for bi in reads:
            a = o.call_args(bi)

            def hdr(e, name):
                e = core(e)
                return e[0] == "field" and e[2] == name and core(e[1])[0] == "field" and core(e[1])[2] == "header"
            ln = core(a[2])
            okl = ln[0] == "bin" and ln[1] == "Mul" and ((hdr(ln[2], esz) and hdr(ln[3], num)) or (hdr(ln[3], esz) and hdr(ln[2], num)))
            ctx.check(hdr(a[1], off) and okl, R, (fn, "extent"), b.where(bi), "%s reads header.%s * header.%s bytes at header.%s" % (fn, esz, num, off),
                      "%s reads %s bytes at %s (expected header.%s * header.%s at header.%s)" % (fn, show(ln)[:90], show(core(a[1]))[:40], esz, num, off))


def rule_zero_length_read(ctx, R="C14/zero-length-read"):
    """reading the same module from memory and from its file gives the same answers, also for an EMPTY range (an empty first executable
    section folds to the all-zero id): ProcessMemory::read rejects a zero length only in the Process arm, where the raw allocation
    needs a non-zero size; the slice/file arm returns the empty sub-slice"""
    b = ctx.body(R, MR + "::ProcessMemory::read")
    if b is None:
        return
    o = Origin(b)
    nz = [bi for bi, t in b.calls(lambda c: "NonZero" in (c.short or "") and (c.short or "").split("::")[-1] == "new")]
    ctx.floor(R, "NonZero::new in ProcessMemory::read", len(nz), 1)
    vs = None
    for name, a in ctx.prog.adts.items():
        if name.endswith("module_reader::ProcessMemory"):
            vs = [v.get("name") for v in a.get("variants", [])]
    for bi in nz:
        dnf = conditions(b, bi, origin=o, relevant=lambda a_: a_[0] == "discr" and root(strip(a_[1])) == ("param", 1))
        ok = bool(dnf) and vs is not None and all(any((v_ == vs.index("Process")) for (a_, v_) in c) for c in dnf)
        ctx.check(ok, R, "process-arm-only", b.where(bi), "the zero-length rejection is reached only in the Process arm",
                  "a zero-length read is rejected for every kind of backing memory: an empty section/segment of a file-backed module is an error there but not ... (paths: %s)" % [[(show(a_)[:40], v_) for a_, v_ in c] for c in (dnf or [])][:2])


def rule_strtab_window(ctx, R="C14/strtab-window"):
    """The SONAME is the nul-terminated string at strtab+offset: the bytes searched for the terminator are everything from the name
    to the end of the string table — no shorter (a cap makes a long, valid name look unterminated) and not a fixed count."""
    b = ctx.body(R, MR + "::ModuleReader::read_name_from_strtab")
    if b is None:
        return
    o = Origin(b)
    rd = [bi for bi, t in b.calls(lambda c: c.endswith("ProcessMemory::read"))]
    ctx.floor(R, "read in read_name_from_strtab", len(rd), 1)
    for bi in rd:
        a = o.call_args(bi)
        st, ln = core(a[1]), core(a[2])
        ok_s = (st[0] == "call" and st[1].split("::")[-1] in ("saturating_add", "checked_add", "wrapping_add") and {nosite(x) for x in st[2]} == {("param", 2), ("param", 4)}) or \
               (st[0] == "bin" and st[1] in ("Add", "AddUnchecked", "AddWithOverflow") and {nosite(core(st[2])), nosite(core(st[3]))} == {("param", 2), ("param", 4)})
        ctx.check(ok_s, R, "start=strtab+offset", b.where(bi), "the name is read at strtab_offset + name_offset", "the name is read at %s" % show(st)[:100])
        ok_l = (ln[0] == "bin" and ln[1] in ("Sub", "SubUnchecked", "SubWithOverflow") and nosite(core(ln[2])) == ("param", 3) and nosite(core(ln[3])) == ("param", 4)) or \
               (ln[0] == "call" and ln[1].split("::")[-1] in ("saturating_sub", "wrapping_sub") and nosite(core(ln[2][0])) == ("param", 3) and nosite(core(ln[2][1])) == ("param", 4))
        ctx.check(ok_l, R, "len=rest-of-table", b.where(bi), "the terminator is searched up to the end of the string table (strtab_size - name_offset bytes)",
                  "the bytes searched for the name's terminator are %s, not the rest of the string table" % show(ln)[:120])
        dec = [x for x, t in b.calls(lambda c: (c.short or "").endswith("CStr::from_bytes_until_nul"))]
        okd = len(dec) == 1 and nosite(strip(o.call_args(dec[0])[0])) == nosite(strip(o.call_expr(bi)))
        ctx.check(okd, R, "until-first-nul", b.where(dec[0]) if dec else b.where(bi), "the name is the bytes of that whole buffer up to its first nul",
                  "the name is not decoded from the whole buffer read by from_bytes_until_nul")


# gABI dynamic tags (elf.h), written independently of the repository
DT_NULL, DT_STRTAB, DT_STRSZ, DT_SONAME = 0, 5, 10, 14
CLASS_DEPENDENT = ("goblin::elf::dynamic::Dyn", "goblin::elf::Dyn", "goblin::elf::ProgramHeader", "goblin::elf::program_header::ProgramHeader", "goblin::elf::SectionHeader",
                   "goblin::elf::section_header::SectionHeader", "goblin::elf::Header", "goblin::elf::header::Header", "goblin::elf::Sym", "goblin::elf::sym::Sym")


def _root_local(b, l, depth=0):
    """follow `x = copy/move y` chains of single-definition temporaries back to the local they copy"""
    while depth < 8:
        defs = [(bi, si, st) for bi, blk in enumerate(b.blocks) for si, st in enumerate(blk["stmts"]) if st["k"] == "assign" and st["p"]["l"] == l and not st["p"]["proj"]]
        if len(defs) != 1:
            return l
        r = defs[0][2]["r"]
        if r["k"] == "use" and r["o"].get("k") in ("copy", "move") and not r["o"]["p"]["proj"]:
            l = r["o"]["p"]["l"]
            depth += 1
            continue
        return l
    return l


def rule_dynamic_entries(ctx, R="C14/dynamic-entries"):
    """the DT_SONAME string `as found by an independent parser`, for 32- and 64-bit images of either byte order: dynamic entries are
    decoded and stepped over with the image's own class/endianness context (never with the size of goblin's unified in-memory struct),
    the walk ends at DT_NULL, and DT_STRTAB / DT_STRSZ / DT_SONAME are what is handed on as table address, table size and name offset."""
    prog = ctx.prog
    scope = prog.reachable([f for f in prog.by_short if f.endswith("ReadFromModule>::read_from_module")])
    ctx.floor(R, "functions reachable from the ELF readers", len(scope), 20)
    # (a) no stride/size taken from the in-memory struct
    n = 0
    for f in sorted(scope):
        for b in prog.by_short.get(f, ()):
            for bi, t in b.calls(lambda c: (c.short or "") in ("std::mem::size_of", "std::mem::size_of_val", "core::mem::size_of", "std::mem::align_of")):
                n += 1
                inst = (t["callee"].get("inst") or "")
                bad = [c for c in CLASS_DEPENDENT if "<" + c + ">" in inst]
                ctx.check(not bad, R, ("size-of", f.split("::{closure")[0].split("::")[-1], inst.split("<")[-1].rstrip(">").split("::")[-1]), b.where(bi), "size_of::<%s> is not an on-disk ELF structure" % inst.split("<")[-1].rstrip(">"),
                          "the size of goblin's unified in-memory %s is used as an on-disk size/stride: it is the ELF64 size, 32-bit images are mis-stepped" % (bad[0] if bad else ""))
    # (b) the iterator
    it = [b for b in prog.bodies if b.short.startswith("<linux::module_reader::DynIter") and b.short.endswith("Iterator>::next")]
    if len(it) != 1:
        ctx.violated(R, ("anchor", "DynIter::next"), None, "anchor missing: <DynIter as Iterator>::next")
    else:
        b = it[0]
        o = Origin(b)
        gr = [(bi, t) for bi, t in b.calls(lambda c: (c.short or "").split("::")[-1] in ("gread_with", "pread_with", "gread", "pread"))]
        okd = False
        if len(gr) == 1:
            bi, t = gr[0]
            a = o.call_args(bi)
            nm = (CalleeView(t["callee"]).short or "").split("::")[-1]
            src_ok = core(a[0])[0] == "field" and core(a[0])[2] == "data" and root(core(a[0])[1]) == ("param", 1)
            ctx_ok = any(core(x)[0] == "field" and core(x)[2] == "ctx" for x in a[1:])
            off_ok = nm == "gread_with" and any(q[0] == "field" and q[2] == "offset" for x in a[1:] for q in walk(x)) or \
                any(st["k"] == "assign" and st["r"]["k"] == "ref" and st["r"]["bk"] == "mut" and st["r"]["p"]["proj"] and st["r"]["p"]["proj"][-1].get("n") == "offset" for blk in b.blocks for st in blk["stmts"])
            okd = src_ok and ctx_ok and off_ok and nm == "gread_with" and "Dyn" in (t["callee"].get("inst") or "")
        ctx.check(okd, R, "decode-with-context", b.where(gr[0][0]) if gr else b.where(0), "each entry is decoded from self.data at self.offset with self.ctx, which also advances the offset by the entry's on-disk size",
                  "dynamic entries are not decoded by gread_with(&mut self.offset, self.ctx) over self.data (calls: %s)" % sorted({(CalleeView(t["callee"]).short or "").split("::")[-1] for _, t in b.calls()})[:8])
        sw = []
        for x in range(b.n):
            if b.blocks[x]["cleanup"] or b.term(x)["k"] != "switch":
                continue
            a, _ = switch_atom(b, o, x)
            a = core(a)
            if a[0] == "bin" and a[1] in ("Eq", "Ne") and any(q[0] == "field" and q[2] == "d_tag" for q in walk(a)):
                sw.append((x, a))
            elif a[0] == "field" and a[2] == "d_tag":
                sw.append((x, ("bin", "Eq", a, ("const", [v for v, _ in b.term(x)["targets"]][0] if b.term(x)["targets"] else -1, "u64"))))
        okn = len(sw) == 1 and is_const(core(sw[0][1][3])) and core(sw[0][1][3])[1] == DT_NULL
        ctx.check(okn, R, "ends-at-DT_NULL", b.where(sw[0][0]) if sw else b.where(0), "the walk ends at the first DT_NULL entry", "the walk does not end exactly at d_tag == DT_NULL (0)")
    # (c) tag -> role wiring in soname_from_program_headers
    b = ctx.body(R, MR + "::ModuleReader::soname_from_program_headers")
    if b is not None:
        o = Origin(b)
        tagsw = None
        for x in range(b.n):
            if b.blocks[x]["cleanup"] or b.term(x)["k"] != "switch":
                continue
            a, _ = switch_atom(b, o, x)
            if core(a)[0] == "field" and core(a)[2] == "d_tag":
                tagsw = x
        rn = [bi for bi, t in b.calls(lambda c: c.endswith("read_name_from_strtab"))]
        ab = [bi for bi, t in b.calls(lambda c: c.endswith("ProcessMemory::absolute"))]
        if tagsw is None or len(rn) != 1:
            ctx.unproven(R, ("tags", "shape"), b.where(0), "cannot find the match on d_tag / the single read_name_from_strtab call")
        else:
            role = {}
            for v, tb in b.term(tagsw)["targets"]:
                # the user variable that receives Some(d_val) in this arm
                dst = None
                for st in b.blocks[tb]["stmts"]:
                    if st["k"] == "assign" and not st["p"]["proj"] and b.locals[st["p"]["l"]].get("name"):
                        dst = st["p"]["l"]
                role[v] = dst
            # tuple scrutinee (a, b, c) and the bindings taken out of it
            tup = None
            for blk in b.blocks:
                for st in blk["stmts"]:
                    if st["k"] == "assign" and st["r"]["k"] == "agg" and st["r"].get("ak") == "tuple" and len(st["r"]["ops"]) == 3:
                        cand = (st["p"]["l"], [_root_local(b, op["p"]["l"]) if op.get("p") else None for op in st["r"]["ops"]])
                        if set(cand[1]) == set(role.get(v) for v in (DT_STRTAB, DT_STRSZ, DT_SONAME)):
                            tup = cand
            bind = {}
            if tup:
                for blk in b.blocks:
                    for st in blk["stmts"]:
                        if st["k"] == "assign" and not st["p"]["proj"] and st["r"]["k"] == "use" and st["r"]["o"].get("p") and st["r"]["o"]["p"]["l"] == tup[0] and st["r"]["o"]["p"]["proj"] and st["r"]["o"]["p"]["proj"][0]["k"] == "field":
                            bind[st["p"]["l"]] = tup[1][st["r"]["o"]["p"]["proj"][0]["i"]]
            args = b.term(rn[0])["args"]

            def src(op):
                l = _root_local(b, op["p"]["l"]) if op.get("p") else None
                if l is not None and l not in bind:
                    # through absolute(addr)
                    for bi in ab:
                        d = b.term(bi).get("dest")
                        if d and d["l"] == l:
                            l = _root_local(b, b.term(bi)["args"][1]["p"]["l"])
                return bind.get(l)
            got = [src(a_) for a_ in args[1:4]]
            want = [role.get(DT_STRTAB), role.get(DT_STRSZ), role.get(DT_SONAME)]
            okw = tup is not None and None not in want and got == want and len(set(want)) == 3
            ctx.check(okw, R, "tag-roles", b.where(rn[0]), "read_name_from_strtab(absolute(DT_STRTAB value), DT_STRSZ value, DT_SONAME value)",
                      "the values of DT_STRTAB(5)/DT_STRSZ(10)/DT_SONAME(14) are not handed on as (table address, table size, name offset): got locals %s, expected %s" % (got, want))
            thru = bool(ab) and any(b.term(bi).get("dest") and _root_local(b, args[1]["p"]["l"]) == b.term(bi)["dest"]["l"] for bi in ab)
            ctx.check(thru, R, "strtab-made-absolute", b.where(rn[0]), "the DT_STRTAB address is made module-relative (absolute()) before it is read", "the string table address is not passed through ProcessMemory::absolute")
    # (d) sections variant: the name offset is the d_val of the DT_SONAME entry
    b = ctx.body(R, MR + "::ModuleReader::soname_from_sections")
    if b is not None:
        o = Origin(b)
        rn = [bi for bi, t in b.calls(lambda c: c.endswith("read_name_from_strtab"))]
        ctx.floor(R, "read_name_from_strtab in soname_from_sections", len(rn), 1)
        for bi in rn:
            a = o.call_args(bi)
            off = core(a[3])
            okoff = off[0] == "field" and off[2] == "d_val"
            dnf = conditions(b, bi, origin=o, relevant=lambda q: any(s_[0] == "field" and s_[2] == "d_tag" for s_ in walk(q)))
            okt = bool(dnf)
            for c in dnf or []:
                hit = False
                for (q, v) in c:
                    q = core(q)
                    if q[0] == "bin" and q[1] in ("Eq", "Ne") and is_const(core(q[3])) and core(q[3])[1] == DT_SONAME and ((q[1] == "Eq") == bool(v)):
                        hit = True
                okt = okt and hit
            sz = core(a[2])
            oksz = all(core(x)[0] == "field" and core(x)[2] == "sh_size" for x in alts(a[2]))
            ctx.check(okoff and okt and oksz, R, "sections-tag-roles", b.where(bi), "the name offset is the value of the DT_SONAME entry, the table size is the string section's sh_size",
                      "soname_from_sections hands on offset %s under %s, size %s" % (show(off)[:50], [[(show(q)[:40], v) for q, v in c] for c in (dnf or [])][:1], show(sz)[:40]))


def rule_header_context(ctx, R="C14/header-context"):
    """everything after the header is decoded with the class and byte order the image declares: ModuleReader::new reads the header
    at offset 0 with the size of the larger (64-bit) header, and builds its context from that header's own e_ident (container and
    endianness) — never from the host."""
    from engine.summ import return_origins
    outs = return_origins(ctx.prog, MR + "::ModuleReader::new")
    b = ctx.body(R, MR + "::ModuleReader::new")
    if outs is None or b is None:
        return
    n = 0
    for e in outs:
        e = strip(e)
        if e[0] != "agg":
            continue
        n += 1
        f = dict(e[3])
        hd = strip(f.get("header", ("?",)))
        okh = hd[0] == "call" and hd[1].endswith("parse_header")
        rd = strip(hd[2][0]) if okh else ("?",)
        okr = rd[0] == "call" and rd[1].endswith("ProcessMemory::read") and core(rd[2][1]) == ("const", 0, "u64")
        sz = core(rd[2][2]) if okr else ("?",)
        oks = sz[0] == "call" and sz[1].endswith("Header::size") and any(q[0] == "agg" and q[2] == "Big" for q in walk(sz))
        ctx.check(okh and okr and oks, R, "header-read", b.where(0), "the header is parsed from the bytes at offset 0, read with the size of a 64-bit header",
                  "the ELF header is not parse_header(read(0, Header::size(Big))): %s" % show(hd)[:120])
        cx = strip(f.get("context", ("?",)))
        okc = cx[0] == "call" and cx[1].endswith("Ctx::new") and len(cx[2]) == 2
        if okc:
            c0, c1 = strip(cx[2][0]), strip(cx[2][1])
            okc = c0[0] == "call" and c0[1].endswith("container") and nosite(strip(c0[2][0])) == nosite(hd) and c1[0] == "call" and c1[1].endswith("endianness") and nosite(strip(c1[2][0])) == nosite(hd)
        ctx.check(okc, R, "context-from-header", b.where(0), "the decoding context is (header.container(), header.endianness()) of that same header",
                  "the decoding context is not taken from the parsed header: %s" % show(cx)[:140])
        ctx.check(f.get("module_memory") == ("param", 1), R, "memory", b.where(0), "the reader keeps the memory it was given", "module_memory <- %s" % show(f.get("module_memory"))[:60])
    ctx.floor(R, "ModuleReader constructions", n, 1)


def rule_note_walk(ctx, R="C14/note-walk"):
    """`the build id equals the GNU build-id note`: the notes of a segment or section are walked the way its own header lays them
    out.  find_build_id_note reads (offset, size) as given, walks that buffer from its first byte to `size`, pads entries by the
    alignment it was given (not by something it makes up: a 64-bit image whose notes are 4-aligned is the common case) and decodes
    them with the image's own context; each caller hands it the size and alignment fields of the header whose location it passes."""
    b = ctx.body(R, MR + "::ModuleReader::find_build_id_note")
    if b is None:
        return
    o = Origin(b)
    its = []
    for bi, blk in enumerate(b.blocks):
        for si, st in enumerate(blk["stmts"]):
            if st["k"] == "assign" and st["r"]["k"] == "agg" and norm(st["r"].get("adt") or "").endswith("note::NoteDataIterator"):
                its.append((bi, si, strip(o._rvalue(st["r"], (bi, si), 0))))
    ctx.floor(R, "note iterators in find_build_id_note", len(its), 1)
    roles = None
    for bi, si, e in its:
        f = dict(e[3])
        data = strip(f.get("data", ("?",)))
        while data[0] in ("okval", "ref", "deref"):
            data = strip(data[1])
        okd = data[0] == "call" and data[1].endswith("ProcessMemory::read") and strip(data[2][0]) == ("field", ("param", 1), "module_memory") \
            and core(data[2][1])[0] == "param" and core(data[2][2])[0] == "param"
        p_off, p_size = (core(data[2][1]), core(data[2][2])) if okd else (None, None)
        ctx.check(okd, R, "reads-given-window", b.where(bi, si), "the notes are the bytes read at the (offset, size) the caller gave", "the note buffer is %s" % show(f.get("data"))[:100])
        ctx.check(okd and core(f.get("size")) == p_size and core(f.get("offset")) == ("const", 0, "usize"), R, "walks-whole-buffer", b.where(bi, si),
                  "the walk starts at the first byte of the buffer and ends at the given size", "the walk covers offset %s .. %s" % (show(f.get("offset"))[:40], show(f.get("size"))[:40]))
        cx = strip(f.get("ctx", ("?",)))
        al = core(cx[1][0]) if cx[0] == "tuple" and len(cx[1]) == 2 else ("?",)
        oka = al[0] == "param" and al not in (p_off, p_size, ("param", 1))
        ctx.check(oka, R, "alignment-as-given", b.where(bi, si), "entries are padded by the alignment the caller passes on from the header",
                  "entries are padded by %s, not by an alignment handed on from the segment/section header: a 64-bit image with 4-aligned notes (or the reverse) is walked out of step and the build-id note behind another note is missed" % show(al)[:80])
        okc = cx[0] == "tuple" and len(cx[1]) == 2 and strip(cx[1][1]) == ("field", ("param", 1), "context")
        ctx.check(okc, R, "image-context", b.where(bi, si), "note headers are decoded with the image's own class and byte order", "note headers are decoded with %s" % (show(cx[1][1])[:60] if cx[0] == "tuple" and len(cx[1]) == 2 else show(cx)[:60]))
        if okd and oka:
            roles = (p_off[1], p_size[1], al[1])
    if roles is None:
        return
    WANT = {"build_id_from_program_headers": ("p_filesz", "p_align", None), "build_id_from_section": ("sh_size", "sh_addralign", "sh_offset")}
    n = 0
    for body in ctx.prog.bodies:
        for bi, t in body.calls(lambda c: (c.short or "").endswith("ModuleReader::find_build_id_note")):
            n += 1
            fn = body.short.split("::{closure")[0].split("::")[-1]
            bo = Origin(body)
            a = bo.call_args(bi)
            want = WANT.get(fn)
            if want is None:
                ctx.unproven(R, ("caller", fn), body.where(bi), "unreviewed caller of find_build_id_note")
                continue

            def fld(e):
                e = core(e)
                return (e[2], nosite(strip(e[1]))) if e[0] == "field" else (None, None)
            sz, szb = fld(a[roles[1] - 1])
            al, alb = fld(a[roles[2] - 1])
            ok = sz == want[0] and al == want[1] and szb == alb
            if want[2]:
                of, ofb = fld(a[roles[0] - 1])
                ok = ok and of == want[2] and ofb == szb
            ctx.check(ok, R, ("caller", fn), body.where(bi), "%s hands on %s and %s of the header it locates the notes with" % (fn, want[0], want[1]),
                      "%s passes size %s / alignment %s (expected %s / %s of one header)" % (fn, show(a[roles[1] - 1])[-40:], show(a[roles[2] - 1])[-40:], want[0], want[1]))
    ctx.floor(R, "callers of find_build_id_note", n, 2)


def rule_text_fold(ctx, R="C14/text-fold"):
    """`the defined XOR-fold`: byte i of every 16-byte chunk of the hashed text is XORed into byte i of a 16-byte accumulator that starts
    at zero.  Decided on the idiom the code uses (std semantics of chunks/fold/zip are trusted): build_id_from_bytes is
    `data.chunks(16).fold(vec![0u8; 16], f)`, f pairs the accumulator's bytes with the chunk's bytes position by position
    (`iter_mut().zip(iter())`, a short last chunk pairs with the first bytes) and hands the accumulator back, and the innermost
    closure is `*acc_byte ^= *chunk_byte`.  Any other way of folding is reported as a shape to review, not decided."""
    from engine.summ import return_origins
    fn = MR + "::build_id_from_bytes"
    b = ctx.body(R, fn)
    if b is None:
        return
    outs = [strip(e) for e in (return_origins(ctx.prog, fn) or [])]
    ok = len(outs) == 1 and outs[0][0] == "call" and outs[0][1] == "std::iter::Iterator::fold" and len(outs[0][2]) == 3
    if ok:
        it, init, f = (strip(x) for x in outs[0][2])
        ok = it[0] == "call" and it[1].endswith("::chunks") and strip(it[2][0]) == ("param", 1) and core(it[2][1]) == ("const", 16, "usize") \
            and init[0] == "call" and init[1] == "std::vec::from_elem" and core(init[2][0]) == ("const", 0, "u8") and core(init[2][1]) == ("const", 16, "usize") and f[0] == "closure"
    if not ok:
        ctx.unproven(R, "fold", b.where(0), "build_id_from_bytes is not `data.chunks(16).fold(vec![0u8; 16], ..)`: a re-implemented fold has to be reviewed (which accumulator byte does a trailing partial chunk/word go to?)")
        return
    ctx.ok(R, "fold", b.where(0), "build_id_from_bytes folds the 16-byte chunks of its argument into a zeroed 16-byte accumulator")
    cl = ctx.prog.closures_of(b)
    outer = [c for c in cl if c.short.endswith("build_id_from_bytes::{closure#0}")]
    inner = list(ctx.prog.closures_of(outer[0])) if len(outer) == 1 else []
    if len(cl) != 1 or len(outer) != 1 or len(inner) != 1 or list(ctx.prog.closures_of(inner[0])):
        ctx.unproven(R, "step", b.where(0), "the fold step is not the reviewed pair of closures (%d + %d closure bodies)" % (len(cl), len(inner)))
        return
    c = outer[0]
    co = Origin(c)
    fe = [(x, co.call_args(x)) for x, t in c.calls(lambda cc: cc.short == "std::iter::Iterator::for_each")]
    okz = len(fe) == 1
    if okz:
        z = strip(fe[0][1][0])
        okz = z[0] == "call" and z[1] == "std::iter::Iterator::zip" and len(z[2]) == 2
        if okz:
            l, r = strip(z[2][0]), strip(z[2][1])
            okz = l[0] == "call" and l[1].endswith("::iter_mut") and strip(l[2][0]) == ("param", 2) and r[0] == "call" and r[1].endswith("::iter") and strip(r[2][0]) == ("param", 3)
    rets = [strip(e) for e in (return_origins(ctx.prog, c.short) or [])]
    others = [CalleeView(t["callee"]).short for x, t in c.calls() if (CalleeView(t["callee"]).short or "").split("::")[-1] not in ("deref_mut", "deref", "iter_mut", "iter", "zip", "for_each", "into_iter")]
    ctx.check(okz and rets == [("param", 2)] and not others, R, "step", c.where(0), "each step pairs accumulator byte i with chunk byte i and returns the accumulator",
              "the fold step is not `acc.iter_mut().zip(chunk.iter()).for_each(..); acc` (%s)" % (others or [show(e)[:60] for e in rets]))
    ic = inner[0]
    io = Origin(ic)
    xors, stores = [], 0
    for bi, blk in enumerate(ic.blocks):
        for si, st in enumerate(blk["stmts"]):
            if st["k"] != "assign" or not st["p"]["proj"] or st["p"]["proj"][0]["k"] != "deref":
                continue
            stores += 1
            r = st["r"]
            if r["k"] == "binop" and r["op"] == "BitXor":
                tgt = strip(io.operand({"k": "copy", "p": {"l": st["p"]["l"], "proj": [], "ty": ""}}, (bi, si)))
                xors.append((tgt, strip(io._rvalue(r, (bi, si), 0))))

    def _is(e, n):
        e = strip(e)
        while e[0] in ("deref", "ref") and len(e) > 1:
            e = strip(e[1])
        return e == ("field", ("param", 2), n)
    okx = len(xors) == 1 and stores == 1 and not list(ic.calls())
    if okx:
        tgt, v = xors[0]
        okx = _is(tgt, "0") and v[0] == "bin" and ((_is(v[2], "0") and _is(v[3], "1")) or (_is(v[2], "1") and _is(v[3], "0")))
    ctx.check(okx, R, "xor", ic.where(0), "the paired bytes are combined as `*acc ^= *chunk` and nothing else is stored", "the innermost closure is not `*a ^= *b` on the zipped pair")


def _named_str(prog, name):
    """value of a named byte-string/str constant, from any operand that mentions it (the driver evaluates it where it is used)"""
    def scan(op):
        if isinstance(op, dict):
            if op.get("k") == "const" and op.get("named") == name and "str" in op:
                return op["str"]
            for v in op.values():
                r = scan(v)
                if r is not None:
                    return r
        elif isinstance(op, list):
            for v in op:
                r = scan(v)
                if r is not None:
                    return r
        return None
    for b in prog.bodies:
        for blk in b.blocks:
            for st in blk["stmts"]:
                r = scan(st)
                if r is not None:
                    return r
            r = scan(blk.get("term"))
            if r is not None:
                return r
    return None


def rule_section_name_exact(ctx, R="C14/section-name-exact"):
    """`as found by an independent parser`: a section is found by its NAME, not by a prefix of it.  section_header_with_name compares
    `len(name)` bytes of .shstrtab at sh_name with `name` as a whole, so the match is exact only if the name it is given carries its
    terminating NUL: every caller passes a byte string that ends in (exactly one, final) NUL."""
    fn = MR + "::section_header_with_name"
    b = ctx.body(R, fn)
    if b is None:
        return
    o = Origin(b)
    eqs = [(x, o.call_args(x)) for x, t in b.calls(lambda c: (c.short or "").split("::")[-1] in ("eq", "ne"))]
    okc = False
    for x, a in eqs:
        sides = [strip(a[0]), strip(a[1])]
        whole = [s_ for s_ in sides if s_ == ("param", 3)]
        rd = [s_ for s_ in sides if s_ != ("param", 3)]
        if whole and rd:
            r = rd[0]
            while r[0] in ("okval", "deref", "ref") or (r[0] == "call" and r[1].split("::")[-1] in ("deref", "as_ref", "as_slice", "borrow")):
                r = strip(r[1]) if r[0] != "call" else strip(r[2][0])
            okc = okc or (r[0] == "call" and r[1].endswith("ProcessMemory::read") and any(q[0] == "call" and q[1].split("::")[-1] == "len" and strip(q[2][0]) == ("param", 3) for q in walk(r[2][2])))
    ctx.check(okc, R, "compare-whole-name", b.where(0), "the bytes read for len(name) are compared with the whole name", "section_header_with_name does not compare len(name) bytes read at sh_name with the whole name")
    n = 0
    for body in ctx.prog.bodies:
        for x, t in body.calls(lambda c: (c.short or "").endswith("module_reader::section_header_with_name")):
            n += 1
            e = strip(Origin(body).call_args(x)[2])
            while e[0] in ("ref", "deref") and len(e) > 1:
                e = strip(e[1])
            lit = e[1] if e[0] == "str" else (_named_str(ctx.prog, e[1]) if e[0] == "named" else None)
            ok = lit is not None and lit.endswith("\x00") and "\x00" not in lit[:-1] and len(lit) > 1
            if lit is None:
                ok = e[0] == "call" and e[1].split("::")[-1] == "to_bytes_with_nul"
            who = body.short.split("::{closure")[0].split("::")[-1]
            ctx.check(ok, R, ("caller", who), body.where(x), "%s looks for %r, terminator included" % (who, (lit or "a C string with its NUL")[:-1] if lit else "a C string with its NUL"),
                      "%s hands section_header_with_name a name without its terminating NUL (%s): any section whose name merely STARTS with it matches — `.note.gnu.build-id.orig` is taken for the build-id note" % (who, repr(lit) if lit is not None else show(strip(Origin(body).call_args(x)[2]))[:60]))
    ctx.floor(R, "callers of section_header_with_name", n, 2)


def rule_process_read_verbatim(ctx, R="C14/module-read-verbatim"):
    """every decoder above it assumes that ProcessMemory::read(offset, length) returns the bytes [offset, offset+length) of the module or
    an error: the Process arm asks the reader for exactly (start_address + offset, length) and the Slice arm takes exactly
    [offset, offset + length) — no clamp, rounding or cap in between (a silent cap makes a long, valid note segment or string table look
    truncated)."""
    b = ctx.body(R, MR + "::ProcessMemory::read")
    if b is None:
        return
    o = Origin(b)
    rv = [(bi, o.call_args(bi)) for bi, t in b.calls(lambda c: c.endswith("MemReader::read_to_vec"))]
    ctx.floor(R, "read_to_vec in ProcessMemory::read", len(rv), 1)
    for bi, a in rv:
        addr, ln = core(a[1]), strip(a[2])
        while addr[0] == "call" and addr[1].split("::")[-1] in ("ok_or_else", "ok_or") and addr[2]:
            addr = core(addr[2][0])
        oka = addr[0] == "call" and addr[1].split("::")[-1] == "checked_add" and {nosite(core(x)) for x in addr[2]} == {("param", 2), nosite(core(("field", ("field", ("variant", ("param", 1), "Process"), "0"), "start_address")))} or \
            (addr[0] == "call" and addr[1].split("::")[-1] == "checked_add" and any(core(x) == ("param", 2) for x in addr[2]) and any(core(x)[0] == "field" and core(x)[2] == "start_address" for x in addr[2]))
        while ln[0] == "call" and ln[1].split("::")[-1] in ("ok_or_else", "ok_or") and ln[2]:
            ln = strip(ln[2][0])
        okl = ln[0] == "call" and ln[1].split("::")[-1] == "new" and core(ln[2][0]) == ("param", 3)
        ctx.check(oka and okl, R, "process-arm", b.where(bi), "the reader is asked for (start_address + offset, length) as given", "the Process arm reads (%s, %s)" % (show(addr)[:70], show(ln)[:70]))
    gs = [(bi, o.call_args(bi)) for bi, t in b.calls(lambda c: (c.short or "").split("::")[-1] == "get" and "slice" in (c.short or ""))]
    ctx.floor(R, "slice get in ProcessMemory::read", len(gs), 1)
    for bi, a in gs:
        rg = strip(a[1])
        oks = rg[0] == "agg" and rg[2] == "Range"
        if oks:
            f = dict(rg[3])
            end = core(f["end"])
            while end[0] == "call" and end[1].split("::")[-1] in ("ok_or_else", "ok_or") and end[2]:
                end = core(end[2][0])
            oks = core(f["start"]) == ("param", 2) and end[0] == "call" and end[1].split("::")[-1] == "checked_add" and [core(x) for x in end[2]] == [("param", 2), ("param", 3)]
        ctx.check(oks, R, "slice-arm", b.where(bi), "the Slice arm takes [offset, offset + length)", "the Slice arm takes %s" % show(rg)[:100])


def run(ctx):
    rule_process_read_verbatim(ctx)
    rule_header_context(ctx)
    rule_note_walk(ctx)
    rule_text_fold(ctx)
    rule_section_name_exact(ctx)
    rule_dynamic_entries(ctx)
    rule_strtab_window(ctx)
    from rules import preds
    preds.run(ctx, PROPERTY, ['is_process_memory', 'dynamic-segment', 'dynamic-section'])   # the opaque predicates these rules lean on, against oracle tables
    rule_total(ctx)
    rule_strategy_order(ctx)
    rule_scan_all_notes(ctx)
    rule_text_section_predicate(ctx)
    rule_header_tables(ctx)
    rule_zero_length_read(ctx)
    rule_mem_file_siblings(ctx)
    # "reading the same module from target memory and from its file gives the same answers": a short read of target memory is a short
    # buffer, never a zero-padded one (same rule instances as C17/prefix-only, C17/args)
    from rules import c17 as _c17r
    _c17r.rule_prefix_only(ctx, R="C14/reader-prefix-only")
    _c17r.rule_args(ctx, R="C14/reader-args")
    # shared infrastructure this property leans on (rules/families.py): each member is the same rule instance as in its home property
    from rules import families as _fam
    _fam.reader(ctx, "C14", module=True)
    # "from target memory": the module is read from the first byte of its mapping (same rule instance as C08/reader-base)
    from rules import c08 as _c08rb
    _c08rb.rule_reader_base(ctx, R="C14/reader-base")
    # the small accessors and pass-through wrappers the rules above look through by name return what their names say (rules/accessors.py)
    from rules import accessors as _acc
    _acc.rule_accessors(ctx, "C14")
