"""C04 — the thread list is a complete, register-accurate, consistent snapshot (structural clauses)."""
from engine.mir import CalleeView, norm
from engine.origin import Origin, strip, core, show, root, walk, nosite, is_const
from engine.paths import Exits, must_pass, witness_path, conditions, reachable_after
from engine.summ import effect_closure
from rules import regmap, c01
from rules.regmap import ABI

PROPERTY = "C04"
EXPLANATION = ("(reg-map) in ThreadInfoX86::fill_cpu_context every integer/flag/segment/debug register field of CONTEXT_AMD64 and the "
               "FXSAVE words are stored on every path from the user_regs_struct / fpregs field the x86-64 ABI table names (oracle table "
               "written independently of the code); (one-per-thread) the thread-list loop ranges over dumper.threads, writes one MDRawThread per "
               "element at the enumerated index with that element's tid and the ThreadInfo of the same index; (window) in dump() "
               "suspend_threads precedes every call that can read the target, and in generate_dump no call with effect reads_target is "
               "reachable after resume_threads (effect summaries over the call graph seeded by a table of foreign leaves); "
               "(skip-only-null-sp) an attached thread is dropped exactly when getregs failed or rsp == 0; (regs-source) ThreadInfo.regs/"
               "fpregs/dregs/stack_pointer come from ptrace requests on the same tid; (thread-list-mutators) PtraceDumper::threads is written only by "
               "enumerate_threads (push) and suspend_threads (retain keyed on the attach result): every other writer in the crate is reported; (lane-copy) copy_u32_registers, which turns the kernel's u32 register words "
               "into the context's u128 slots, is either the byte-wise copy dst_bytes[..n] <- src_bytes[..n] (n = min of both byte lengths) or a "
               "per-register assembly whose value evaluates to words[0] | words[1]<<32 | words[2]<<64 | words[3]<<96.")
TRUSTED = ["ptrace returns the stopped thread's registers", "tables/abi_x86_64.json", "foreign-leaf effect table (reads_target seeds)"]
ASSUMPTIONS = ["enumeration races with thread creation/exit are kernel schedules, not decided here",
               "only the x86_64 configuration is compiled on this host"]

PD = "linux::ptrace_dumper::PtraceDumper"
TI = "linux::thread_info::x86::ThreadInfoX86"
READS_TARGET_SEEDS = ("nix::sys::uio::process_vm_readv", "nix::sys::ptrace::read", "libc::ptrace", "nix::sys::ptrace::getregs",
                      "nix::sys::ptrace::getregset", "std::os::unix::fs::FileExt::read_exact_at", "std::os::unix::fs::FileExt::read_at",
                      "nix::sys::ptrace::read_user", "libc::process_vm_readv")


def reads_target_functions(prog):
    seeds = set()
    for b in prog.bodies:
        for bi, t in b.calls(lambda c: c.short in READS_TARGET_SEEDS or (c.target in READS_TARGET_SEEDS)):
            seeds.add(b.short)
    return effect_closure(prog, seeds), seeds


def rule_reg_map(ctx, R="C04/reg-map"):
    b = ctx.body(R, TI + "::fill_cpu_context")
    if b is None:
        return
    o = Origin(b)
    st = regmap.out_stores(b, o)
    n = 0
    for reg in ABI["user_regs_identity"]:
        recs = st.get(reg, [])
        if len(recs) != 1:
            ctx.violated(R, ("reg", reg), b.where(0), "CONTEXT field %s is stored %d times (expected exactly once)" % (reg, len(recs)))
            continue
        bi, si, e = recs[0]
        c = core(e)
        ok = c[0] == "field" and c[2] == reg and c[1][0] == "field" and c[1][2] == "regs" and root(c[1][1]) == ("param", 1)
        n += 1
        ctx.check(ok and regmap.on_every_path(b, bi), R, ("reg", reg), b.where(bi, si), "out.%s <- self.regs.%s" % (reg, reg),
                  "out.%s is filled from %s (ABI table: user_regs_struct.%s)" % (reg, show(c)[:100], reg))
    for dr, idx in ABI["debug_regs"].items():
        recs = st.get(dr, [])
        if len(recs) != 1:
            ctx.violated(R, ("reg", dr), b.where(0), "CONTEXT field %s is stored %d times" % (dr, len(recs)))
            continue
        bi, si, e = recs[0]
        c = core(e)
        ok = c[0] == "index" and is_const(c[2]) and c[2][1] == idx and c[1][0] == "field" and c[1][2] == "dregs" and root(c[1][1]) == ("param", 1)
        n += 1
        ctx.check(ok and regmap.on_every_path(b, bi), R, ("reg", dr), b.where(bi, si), "out.%s <- self.dregs[%d]" % (dr, idx), "out.%s is filled from %s" % (dr, show(c)[:100]))
    ctx.floor(R, "register stores checked", n, 30)
    regmap.check_float_block(ctx, R, b, o, lambda e: e[0] == "field" and e[2] == "fpregs" and root(e[1]) == ("param", 1), "thread")
    # context_flags declares what was filled
    cf = st.get("context_flags", [])
    ctx.check(len(cf) == 1, R, ("reg", "context_flags"), b.where(cf[0][0], cf[0][1]) if cf else None, "context_flags is set", "context_flags stored %d times" % len(cf), nontrivial=False)


def rule_regs_source(ctx, R="C04/regs-source"):
    """ThreadInfoX86::create_impl: regs/fpregs/dregs fetched with the tid being described; stack_pointer = regs.rsp"""
    b = ctx.body(R, TI + "::create_impl")
    if b is None:
        return
    o = Origin(b)
    n = 0
    for bi, blk in enumerate(b.blocks):
        for si, st in enumerate(blk["stmts"]):
            if st["k"] == "assign" and st["r"]["k"] == "agg" and st["r"].get("ak") == "adt" and norm(st["r"]["adt"]) == TI:
                e = o._rvalue(st["r"], (bi, si), 0)
                d = dict(e[3])
                n += 1
                for fld, fns in (("regs", ("getregset", "getregs")), ("fpregs", ("getfpregset", "getfpregs"))):
                    c = strip(d[fld])
                    getters = [s for s in walk(c) if s[0] == "call" and s[1].split("::")[-1] in fns]
                    params = {s for s in walk(c) if s[0] == "param"}
                    ok = bool(getters) and all(g[2] and g[2][0] == ("param", 2) for g in getters) and params <= {("param", 2)}
                    # fallback closures must fetch the same kind of register set for the same tid
                    for cl in [s for s in walk(c) if s[0] == "closure"]:
                        cb = ctx.prog.by_short.get(cl[1])
                        if not cb:
                            ok = False
                            continue
                        cbo = Origin(cb[0])
                        inner = [(x, t) for x, t in cb[0].calls(lambda cc: (cc.short or "").split("::")[-1] in fns)]
                        ok = ok and len(inner) >= 1 and cl[2] == (("param", 2),)
                        for x, t in inner:
                            a0 = cbo.call_args(x)[0]
                            ok = ok and root(strip(a0))[0] in ("param", "field")
                    ctx.check(ok, R, ("field", fld), b.where(bi, si), "%s <- %s(tid) of the thread being described (regset first, legacy request as fallback)" % (fld, "/".join(fns)), "%s <- %s" % (fld, show(c)[:160]))
                sp = core(d["stack_pointer"])
                ctx.check(sp[0] == "field" and sp[2] == "rsp" and nosite(strip(sp[1])) == nosite(strip(d["regs"])), R, ("field", "stack_pointer"), b.where(bi, si),
                          "stack_pointer <- regs.rsp of the same register set", "stack_pointer <- %s" % show(sp)[:120])
    # the register sets are stored as captured: nothing takes a mutable reference to, or stores into, the locals that hold what
    # getregset/getregs/getfpregset/getfpregs returned (an "adjustment" between capture and serialisation is not what the thread had)
    holders = set()
    for bi_, blk_ in enumerate(b.blocks):
        for si_, st_ in enumerate(blk_["stmts"]):
            if st_["k"] == "assign" and not st_["p"]["proj"]:
                ty_ = b.locals[st_["p"]["l"]]["ty"]
                if ty_ in ("libc::user_regs_struct", "libc::user_fpregs_struct"):
                    holders.add(st_["p"]["l"])
    touched = []
    for bi_, blk_ in enumerate(b.blocks):
        if blk_["cleanup"]:
            continue
        for si_, st_ in enumerate(blk_["stmts"]):
            if st_["k"] != "assign":
                continue
            if st_["p"]["l"] in holders and st_["p"]["proj"]:
                touched.append(("a field of the captured registers is overwritten", bi_, si_))
            r_ = st_["r"]
            if r_["k"] == "ref" and r_["bk"] == "mut" and r_["p"]["l"] in holders:
                touched.append(("the captured registers are borrowed mutably", bi_, si_))
            if r_["k"] == "addr" and r_.get("mut") and r_["p"]["l"] in holders:
                touched.append(("a raw mutable pointer to the captured registers is taken", bi_, si_))
    ctx.floor(R, "locals holding a captured register set", len(holders), 2)
    ctx.check(not touched, R, "stored-as-captured", b.where(touched[0][1], touched[0][2]) if touched else b.where(0),
              "the captured register sets reach the ThreadInfo unmodified (no store into them, no &mut of them)",
              "%s between capture and serialisation (%d place(s)): the recorded context is then not the state the thread had" % (touched[0][0] if touched else "", len(touched)))
    # ... and stay so afterwards: nowhere in the crate is a field of a ThreadInfo (regs, fpregs, dregs, stack_pointer) stored to or
    # borrowed mutably after construction
    late = []
    for body in ctx.prog.bodies:
        for bi_, blk_ in enumerate(body.blocks):
            if blk_["cleanup"]:
                continue
            for si_, st_ in enumerate(blk_["stmts"]):
                if st_["k"] != "assign":
                    continue
                for pl, kind in ((st_["p"], "store"), (st_["r"].get("p") if st_["r"]["k"] == "ref" and st_["r"].get("bk") == "mut" else None, "&mut")):
                    if not pl:
                        continue
                    for e_ in pl["proj"]:
                        if e_["k"] == "field" and e_.get("n") in ("regs", "fpregs", "dregs", "stack_pointer") and norm(e_.get("adt") or "").endswith("ThreadInfoX86"):
                            late.append("%s of .%s in %s (%s)" % (kind, e_["n"], body.short.split("::")[-1], body.where(bi_, si_)))
    ctx.check(not late, R, "immutable-after-capture", None, "no field of a ThreadInfo is written after it was built",
              "a ThreadInfo is modified after the registers were captured: %s" % "; ".join(late[:3]))
    pk = list(b.calls(lambda c: (c.short or "").endswith("ThreadInfoX86::peek_user")))
    ctx.floor(R, "peek_user (debug registers) call", len(pk), 1)
    for x, t in pk:
        a = o.call_args(x)
        ctx.check(a[0] == ("param", 2), R, ("dregs", "same-tid"), b.where(x), "debug registers are peeked from the same tid", "debug registers peeked from %s" % show(a[0]))
        addr = core(a[1])
        from engine import lenalg as LA
        idxs = [s for s in walk(addr) if LA.index_form(s, ctx.prog)[0] == "EnumIdx"]
        ctx.check(addr[0] == "bin" and addr[1] == "Add" and bool(idxs), R, ("dregs", "offset+i*size"), b.where(x), "debug register i is read at offset_of(user.u_debugreg) + i * size", "debug register address is %s" % show(addr)[:140])
    ctx.floor(R, "ThreadInfoX86 aggregates", n, 1)
    # get_instruction_pointer returns regs.rip
    gb = ctx.body(R, TI + "::get_instruction_pointer")
    if gb is not None:
        from engine.summ import return_origins
        outs = return_origins(ctx.prog, gb.short) or []
        ok = bool(outs) and all(core(e)[0] == "field" and core(e)[2] == "rip" and core(e)[1][0] == "field" and core(e)[1][2] == "regs" for e in outs)
        ctx.check(ok, R, "ip=regs.rip", gb.where(0), "get_instruction_pointer() is regs.rip", "get_instruction_pointer() is %s" % [show(e) for e in outs])


def rule_one_per_thread(ctx, R="C04/one-per-thread"):
    b = ctx.body(R, "linux::sections::thread_list_stream::write")
    if b is None:
        return
    o = Origin(b)
    sets = list(b.calls(lambda c: c.is_(c01.SET_AT)))
    ctx.floor(R, "thread record writes", len(sets), 1)
    loops = b.loops()
    for bi, t in sets:
        inner = [h for h, body in loops.items() if bi in body]
        if not inner:
            ctx.violated(R, "loop", b.where(bi), "thread records are not written in a loop")
            continue
        h = max(inner, key=lambda x: len(loops[x]))  # the outer (thread) loop
        item = c01.loop_item(b, o, h)
        if item is None:
            ctx.unproven(R, "loop", b.where(bi), "thread loop is not iterator-driven")
            continue
        itexpr, itlen = item
        from engine import lenalg as LA
        src = itlen
        okl = src[0] == "LenOf" and strip(src[1])[0] == "field" and strip(src[1])[2] == "threads"
        ctx.check(okl, R, "iterates-dumper.threads", b.where(h), "the loop ranges over dumper.threads (%s)" % LA.show_len(src), "the loop ranges over %s" % LA.show_len(src))
        # ... element for element: when the loop walks a COPY of the list, the copy must not be edited (swap/sort/remove) before or
        # during the walk — get_thread_info_by_index(idx) indexes dumper.threads itself, so position i must be the same thread in both
        clones = [(x, t2) for x, t2 in b.calls(lambda c: (c.short or "").split("::")[-1] == "clone") if strip(o.call_args(x)[0]) == ("field", ("param", 3), "threads")]
        edited = []
        for x, t2 in clones:
            dest = t2.get("dest")
            if not dest or dest["proj"]:
                continue
            holders = {dest["l"]}
            changed = True
            while changed:
                changed = False
                for blk in b.blocks:
                    for st in blk["stmts"]:
                        if st["k"] == "assign" and st["r"]["k"] == "use" and st["r"]["o"].get("k") == "move" and not st["r"]["o"]["p"]["proj"] and st["r"]["o"]["p"]["l"] in holders and not st["p"]["proj"] and st["p"]["l"] not in holders:
                            holders.add(st["p"]["l"])
                            changed = True
            for bi2, blk in enumerate(b.blocks):
                if blk["cleanup"]:
                    continue
                for si2, st in enumerate(blk["stmts"]):
                    if st["k"] == "assign" and st["r"]["k"] in ("ref", "rawptr") and st["r"].get("bk", "mut") != "shared" and st["r"]["p"]["l"] in holders:
                        edited.append(b.where(bi2, si2))
        ctx.check(not edited, R, "copy-not-reordered", b.where(h), "the walked copy of the thread list is never edited (position i is the same thread as dumper.threads[i])",
                  "the loop walks a copy of dumper.threads that is edited first (%s): ids come from the copy, registers from dumper.threads[idx] — entries get another thread's state" % ", ".join(edited[:3]))
        a = o.call_args(bi)
        idx = strip(a[3])
        elem = ("some", itexpr)
        ctx.check(idx == ("field", elem, "0"), R, "record-at-enumerated-index", b.where(bi), "record i is written at the enumerated index i", "record index is %s" % show(idx)[:100])
        from engine.origin import alts, field_of
        okt = True
        shown = []
        for alt in alts(a[2]):
            tid = field_of(alt, "thread_id")
            tid = core(tid) if tid is not None else None
            shown.append(show(tid)[:100] if tid else "?")
            if not (tid is not None and tid[0] == "field" and tid[2] == "tid" and nosite(tid[1]) == nosite(("field", elem, "1"))):
                okt = False
        ctx.check(okt, R, "record-tid", b.where(bi), "thread_id <- the same element's tid (all %d alternatives)" % len(shown), "thread_id <- %s" % shown)
        # every non-error path of one iteration reaches the write: from loop body entry, a path back to the header that avoids the write?
        body_entry = None
        for (s, lab) in b.succ_edges(b.term(h)["t"]) if b.term(h)["k"] == "call" else []:
            if lab[0] == "sw" and lab[1] == 1:
                body_entry = s
        if body_entry is not None:
            w = must_pass(b, body_entry, {h}, {bi})
            ctx.check(w is None, R, "every-iteration-writes", b.where(bi), "every iteration that does not return an error writes its record", "an iteration can skip writing its record", detail={"path": w})
    # get_thread_info_by_index(idx) with the same enumerated idx; info feeds the context
    gi = list(b.calls(lambda c: c.is_(PD + "::get_thread_info_by_index")))
    ctx.floor(R, "get_thread_info_by_index call", len(gi), 1)
    for bi, t in gi:
        a = o.call_args(bi)
        idx = strip(a[1])
        ok = idx[0] == "field" and idx[2] == "0" and idx[1][0] == "some"
        ctx.check(ok, R, "info-of-same-index", b.where(bi), "registers are fetched for the enumerated index of this element", "thread info index is %s" % show(idx)[:100])
    gb = ctx.body(R, PD + "::get_thread_info_by_index")
    if gb is not None:
        go = Origin(gb)
        for bi, t in gb.calls(lambda c: (c.short or "").endswith("ThreadInfoX86::create")):
            a = go.call_args(bi)
            tid = core(a[1])
            ok = tid[0] == "field" and tid[2] == "tid" and tid[1][0] == "index" and tid[1][2] == ("param", 2) and strip(tid[1][1])[0] == "field" and strip(tid[1][1])[2] == "threads"
            ctx.check(ok, R, "info-tid=threads[index].tid", gb.where(bi), "ThreadInfo is created for self.threads[index].tid", "ThreadInfo created for %s" % show(tid)[:100])


def rule_window(ctx):
    R = "C04/window"
    prog = ctx.prog
    rt, seeds = reads_target_functions(prog)
    ctx.analysed["reads_target_functions"] = len(rt)
    ctx.floor(R, "functions with direct target-reading foreign calls", len(seeds), 3)
    # dump(): suspend_threads before any reads_target callee
    b = ctx.body(R, "linux::minidump_writer::MinidumpWriter::dump")
    if b is not None:
        sus = [bi for bi, t in b.calls(lambda c: c.is_(PD + "::suspend_threads"))]
        ctx.floor(R, "suspend_threads call in dump", len(sus), 1)
        readers = []
        for bi, t in b.calls():
            cv = CalleeView(t["callee"])
            tgt = cv.target if cv.target in prog.by_short else cv.short
            if tgt in rt and tgt != PD + "::suspend_threads" and not (tgt or "").endswith("new_report_soft_errors"):
                readers.append((bi, tgt))
        n = 0
        for bi, tgt in readers:
            w = must_pass(b, 0, {bi}, sus)
            n += 1
            ctx.check(w is None, R, ("dump", "suspended-before", tgt.split("::")[-1]), b.where(bi), "%s (reads the target) runs only after suspend_threads" % tgt.split("::")[-1],
                      "%s can read the target before the threads are suspended" % tgt)
        ctx.floor(R, "target-reading calls in dump after suspend", n, 2)
    # generate_dump(): nothing that reads the target after resume_threads
    g = ctx.body(R, c01.GEN)
    if g is not None:
        res = [bi for bi, t in g.calls(lambda c: c.is_(PD + "::resume_threads"))]
        ctx.floor(R, "resume_threads call in generate_dump", len(res), 1)
        before = 0
        after = []
        for bi, t in g.calls():
            cv = CalleeView(t["callee"])
            tgt = cv.target if cv.target in prog.by_short else cv.short
            if tgt in rt:
                if any(reachable_after(g, r, {bi}) for r in res):
                    after.append((bi, tgt))
                else:
                    before += 1
        ctx.floor(R, "target-reading section writers before the resume", before, 3)
        ctx.check(not after, R, ("generate_dump", "no-read-after-resume"), g.where(res[0]) if res else None,
                  "no call that can read target memory/registers is reachable after resume_threads (%d such calls, all before)" % before,
                  "target is read after its threads were resumed: %s" % ["%s @ %s" % (tg, g.where(bi)) for bi, tg in after])


def rule_skip_only_null_sp(ctx, R="C04/skip-only-null-sp"):
    b = ctx.body(R, PD + "::suspend_thread")
    if b is None:
        return
    o = Origin(b)
    ex = Exits(b)
    n = 0
    for (eb, si) in ex.err_defs:
        if si == "term":
            continue
        ev = o._rvalue(b.blocks[eb]["stmts"][si]["r"], (eb, si), 0)
        inner = dict(ev[3]).get("0")
        if inner[0] == "agg" and inner[2] == "DetachSkippedThread":
            n += 1
            # path condition (materialised bool `skip_thread` is tracked path-sensitively by the guard engine)
            def rel(a):
                if a[0] == "discr" and any(s[0] == "call" and s[1].endswith("getregs") for s in walk(a)):
                    return True
                if a[0] == "bin" and a[1] in ("Eq", "Ne") and any(s[0] == "field" and s[2] == "rsp" for s in walk(a)):
                    return True
                return False
            dnf = conditions(b, eb, origin=o, relevant=rel)
            good = dnf is not None and len(dnf) == 2
            if good:
                forms = set()
                for c in dnf:
                    lits = {}
                    for (a, v) in c:
                        if a[0] == "discr":
                            lits["regs"] = v
                        else:
                            z = [x for x in (core(a[2]), core(a[3])) if is_const(x) and x[1] == 0]
                            # the register is compared at full width: no narrowing cast on the way (rsp as u32 == 0 also holds for 0x7000_0000_0000)
                            from engine.origin import INT_BITS
                            narrowed = any(isinstance(q, tuple) and q and q[0] == "cast" and INT_BITS.get(q[3], 64) < INT_BITS.get(q[2], 64) for side in (a[2], a[3]) for q in walk(side))
                            lits["rsp0"] = (a[1], v, bool(z) and not narrowed)
                    if lits.get("regs") == 0 and lits.get("rsp0") == ("Eq", 1, True):
                        forms.add("rsp==0")
                    elif lits.get("regs") not in (0, None) and "rsp0" not in lits:
                        forms.add("getregs-failed")
                good = forms == {"rsp==0", "getregs-failed"}
            ctx.check(good, R, "skip-predicate", b.where(eb, si), "an attached thread is skipped exactly when getregs failed or its rsp == 0",
                      "skip predicate is not `getregs failed or rsp == 0`: %s" % [[(show(a)[:80], v) for a, v in c] for c in (dnf or [])])
    ctx.floor(R, "DetachSkippedThread exits", n, 1)


# who may change the thread list (it is what the thread-list stream ranges over, C04/one-per-thread):
# (function, Vec method reached through `&mut self.threads`) -> why the change keeps "every attached thread exactly once"
THREAD_LIST_MUTATORS = {
    (PD + "::enumerate_threads", "push"): "appends one entry per numeric /proc/<pid>/task name, before any attach",
    (PD + "::suspend_threads", "retain"): "drops exactly the tids whose attach failed (predicate decided by C03/attach-detach|retain-iff-ok)",
}


MAPPING_LIST_MUTATORS = {
    (PD + "::enumerate_mappings", "store"): "the list IS the result of aggregate() over the whole memory map (C13/whole-map-read): assigned, never appended to",
    (PD + "::enumerate_mappings", "swap"): "moves the mapping that holds the entry point to the front (C08/main-first)",
}


def rule_list_mutators(ctx, R, field, table, what, floor, adt="ptrace_dumper::PtraceDumper"):
    """who-may-write rule for a list field of PtraceDumper"""
    def is_field(pl):
        return any(x.get("k") == "field" and x.get("n") == field and (x.get("adt") or "").endswith(adt) for x in pl["proj"])
    found = {}
    for b in ctx.prog.bodies:
        for bi, blk in enumerate(b.blocks):
            if blk["cleanup"]:
                continue
            for si, st in enumerate(blk["stmts"]):
                if st["k"] != "assign":
                    continue
                if is_field(st["p"]):
                    found.setdefault((b.short, "store"), b.where(bi, si))
                r = st["r"]
                if r["k"] in ("ref", "addr", "rawptr") and r.get("bk", "mut") != "shared" and "p" in r and is_field(r["p"]):
                    tmp = st["p"]["l"]
                    how = "borrow"
                    for ci, t in b.calls():
                        if any(a.get("k") == "move" and a["p"]["l"] == tmp and not a["p"]["proj"] for a in t["args"]):
                            how = (CalleeView(t["callee"]).short or "?").split("::")[-1]
                    if how in ("deref_mut", "borrow"):
                        # &mut *vec handed on as a slice: name the slice method it ends up in
                        for ci, t in b.calls():
                            d = t.get("dest")
                            if (CalleeView(t["callee"]).short or "").split("::")[-1] == "deref_mut" and any(a.get("k") == "move" and a["p"]["l"] == tmp for a in t["args"]) and d:
                                al = {d["l"]}
                                for _ in range(3):
                                    for blk2 in b.blocks:
                                        for st2 in blk2["stmts"]:
                                            if st2["k"] == "assign" and not st2["p"]["proj"]:
                                                r2 = st2["r"]
                                                if r2["k"] == "ref" and r2["p"]["l"] in al or (r2["k"] == "use" and r2["o"].get("p") and r2["o"]["p"]["l"] in al):
                                                    al.add(st2["p"]["l"])
                                for cj, t2 in b.calls():
                                    if cj != ci and any(a.get("k") in ("move", "copy") and a["p"]["l"] in al for a in t2["args"]):
                                        how = (CalleeView(t2["callee"]).short or "?").split("::")[-1]
                    found.setdefault((b.short, how), b.where(bi, si))
    for k, where in sorted(found.items()):
        if k[0].endswith("PtraceDumper::new_report_soft_errors") or k[0].endswith("PtraceDumper::new") or k[0].endswith("MinidumpWriter::new"):
            continue   # the constructor's empty list
        why = table.get(k)
        ctx.check(why is not None, R, ("mutator", "::".join(k[0].split("::{closure")[0].split("::")[-2:]), k[1]), where,
                  "%s changes %s through %s: %s" % (k[0].split("::")[-1], what, k[1], why),
                  "%s changes %s.%s through `%s`, which is not one of the reviewed writers (%s)" % (k[0], adt.split("::")[-1], field, k[1], ", ".join("%s/%s" % (a.split("::")[-1], m) for a, m in table)))
    ctx.floor(R, "reviewed writers of %s present" % field, len([k for k in found if k in table]), floor)


def rule_mapping_list_mutators(ctx, R="C13/mapping-list-writers"):
    """the mapping list a dump works with is the aggregate of ONE reading of the memory map: it is assigned by enumerate_mappings (not
    appended to, extended, de-duplicated or filtered anywhere) and only the entry-point swap reorders it"""
    rule_list_mutators(ctx, R, "mappings", MAPPING_LIST_MUTATORS, "the mapping list", 2)


def _is_threads(pl):
    return any(x.get("k") == "field" and x.get("n") == "threads" and (x.get("adt") or "").endswith("ptrace_dumper::PtraceDumper") for x in pl["proj"])


def rule_thread_list_mutators(ctx, R="C04/thread-list-mutators"):
    """ownership: the list is built once by enumerate_threads and only ever shrunk by the attach filter; any other writer
    (remove/swap/insert/element store) can lose or duplicate an attached thread without the record loop noticing"""
    found = {}
    for b in ctx.prog.bodies:
        for bi, blk in enumerate(b.blocks):
            for si, st in enumerate(blk["stmts"]):
                if st["k"] != "assign":
                    continue
                if _is_threads(st["p"]):
                    found.setdefault((b.short, "store"), b.where(bi, si))
                r = st["r"]
                if r["k"] in ("ref", "addr", "rawptr") and r.get("bk", "mut") != "shared" and "p" in r and _is_threads(r["p"]):
                    tmp = st["p"]["l"]
                    how = "borrow"
                    for ci, t in b.calls():
                        if any(a.get("k") == "move" and a["p"]["l"] == tmp and not a["p"]["proj"] for a in t["args"]):
                            how = (CalleeView(t["callee"]).short or "?").split("::")[-1]
                    found.setdefault((b.short, how), b.where(bi, si))
    for k, where in sorted(found.items()):
        why = THREAD_LIST_MUTATORS.get(k)
        ctx.check(why is not None, R, ("mutator", k[0].split("::")[-1], k[1]), where,
                  "%s changes the thread list through %s: %s" % (k[0].split("::")[-1], k[1], why),
                  "%s changes PtraceDumper::threads through `%s`, which is not one of the reviewed writers (enumerate_threads/push, suspend_threads/retain): "
                  "entries can be lost, kept or duplicated independently of which threads were attached" % (k[0], k[1]))
    ctx.floor(R, "reviewed writers of PtraceDumper::threads present", len([k for k in found if k in THREAD_LIST_MUTATORS]), 2)


COPY_U32 = "linux::thread_info::copy_u32_registers"


def rule_lane_copy(ctx, R="C04/lane-copy"):
    """the helper that turns the kernel's u32 register words (st_space / xmm_space) into the context's u128 slots, used by both
    fill_cpu_context implementations.  Two accepted forms:
      (bytes)  dst bytes [..n] <- src bytes [..n], n = min(16*|dst|, 4*|src|), both byte views built from the slices' own pointers
      (lanes)  for (reg, words) in dst.iter_mut().zip(src.chunks_exact(4)): *reg = value that evaluates to sum(words[k] << 32k)
    (little-endian target: lane k of register r is word 4r + k in both forms)"""
    from engine import ipe
    b = ctx.body(R, COPY_U32)
    if b is None:
        return
    o = Origin(b)
    cfs = list(b.calls(lambda c: (c.short or "").split("::")[-1] == "copy_from_slice"))
    if cfs:
        ok = len(cfs) == 1
        why = "more than one copy" if not ok else ""
        if ok:
            a = o.call_args(cfs[0][0])
            d, s_ = strip(a[0]), strip(a[1])

            def view(e, ctor, ptr, elem, param):
                e = strip(e)
                if not (e[0] == "call" and e[1].split("::")[-1] == ctor and len(e[2]) == 2):
                    return False
                p_, n_ = strip(e[2][0]), core(e[2][1])
                while p_[0] == "call" and p_[1].split("::")[-1] == "cast":
                    p_ = strip(p_[2][0])
                okp = p_[0] == "call" and p_[1].split("::")[-1] == ptr and root(strip(p_[2][0])) == ("param", param)
                okn = False
                if n_[0] == "bin" and n_[1] == "Mul":
                    for x, y in ((n_[2], n_[3]), (n_[3], n_[2])):
                        x, y = core(x), core(y)
                        if x[0] in ("call", "len") and (x[0] == "len" or x[1].split("::")[-1] == "len") and is_const(y) and y[1] == elem:
                            src_of = strip(x[2][0]) if x[0] == "call" else strip(x[1])
                            okn = root(src_of) == ("param", param)
                return okp and okn

            def windowed(e, base_ok):
                e = strip(e)
                if not (e[0] == "call" and e[1].split("::")[-1] in ("index", "index_mut") and len(e[2]) == 2):
                    return None
                base, rng = e[2][0], strip(e[2][1])
                if not base_ok(base) or not (rng[0] == "agg" and rng[1].endswith("ops::RangeTo")):
                    return None
                return nosite(core(dict(rng[3])["end"]))
            nd = windowed(d, lambda e: view(e, "from_raw_parts_mut", "as_mut_ptr", 16, 1))
            ns = windowed(s_, lambda e: view(e, "from_raw_parts", "as_ptr", 4, 2))
            ok = nd is not None and ns is not None and nd == ns and nd[0] == "call" and __import__("engine.names").names.stdseg(nd[1]) == "min"
            if ok:
                lens = [nosite(strip(x)) for x in nd[2]]
                ok = all(x[0] in ("call", "len") for x in lens)
            why = "destination window %s / source window %s" % (show(nd)[:80] if nd else "?", show(ns)[:80] if ns else "?")
        ctx.check(ok, R, "bytes", b.where(cfs[0][0]),
                  "bytes [..min(16*|dst|, 4*|src|)) of the u128 slots are the same-index bytes of the u32 words (lane k of register r = word 4r+k)",
                  "the byte-wise register copy is not dst_bytes[..n] <- src_bytes[..n] with n = min of both byte lengths: %s" % why)
        return
    # raw pointer copy form: copy_nonoverlapping::<E>(src.as_ptr().cast(), dst.as_mut_ptr().cast(), n) with n * size_of::<E>() == min(16*|dst|, 4*|src|)
    pcs = [(bi, t) for bi, t in b.calls(lambda c: (c.short or "").split("::")[-1] in ("copy_nonoverlapping", "copy") and "ptr" in (c.short or ""))]
    if pcs:
        bi, t = pcs[0]
        inst = CalleeView(t["callee"]).inst or ""
        esz = {"u8": 1, "u16": 2, "u32": 4, "u64": 8, "u128": 16}.get(inst.split("::<")[-1].rstrip(">").strip(), None)
        a = o.call_args(bi)
        bad = None

        def base_of(e, ptr_name, param):
            e = strip(e)
            while e[0] == "call" and e[1].split("::")[-1] in ("cast", "cast_const", "cast_mut", "add", "offset") and e[2]:
                e = strip(e[2][0])
            return e[0] == "call" and e[1].split("::")[-1] == ptr_name and root(strip(e[2][0])) == ("param", param)
        okp = len(pcs) == 1 and esz is not None and base_of(a[0], "as_ptr", 2) and base_of(a[1], "as_mut_ptr", 1)
        if okp:
            try:
                for D, S in ((8, 32), (16, 64), (8, 16), (2, 64), (16, 8)):
                    def leaf(e, D=D, S=S):
                        e = core(e)
                        src_ = e[1] if e[0] == "len" else (e[2][0] if e[0] == "call" and e[1].split("::")[-1] == "len" and e[2] else None)
                        if src_ is not None:
                            r_ = root(strip(src_))
                            if r_ == ("param", 1):
                                return (D, "usize")
                            if r_ == ("param", 2):
                                return (S, "usize")
                        return None
                    n_ = ipe.Eval({}, {}, leaf=leaf).val(core(a[2]))[0]
                    if n_ * esz != min(16 * D, 4 * S):
                        bad = "for %d registers and %d words it copies %d x %d bytes, the registers hold min(%d, %d)" % (D, S, n_, esz, 16 * D, 4 * S)
            except ipe.Unsupported as e:
                ctx.unproven(R, "ptr-copy", b.where(bi), "cannot evaluate the copied element count: %s" % e)
                return
        ctx.check(okp and bad is None, R, "ptr-copy", b.where(bi), "the raw copy moves min(16*|dst|, 4*|src|) bytes from src's start to dst's start",
                  "the raw register copy does not move all register bytes: %s" % (bad or "unexpected pointers %s / %s" % (show(a[0])[:50], show(a[1])[:50])))
        return
    # lane form
    stores = []
    for bi, blk in enumerate(b.blocks):
        for si, st in enumerate(blk["stmts"]):
            if st["k"] == "assign" and st["p"]["proj"] and st["p"]["proj"][0]["k"] == "deref" and len(st["p"]["proj"]) == 1 and "u128" in (st["p"].get("ty") or ""):
                stores.append((bi, si, st))
    if len(stores) != 1:
        ctx.unproven(R, "form", b.where(0), "copy_u32_registers is neither the byte-wise copy nor a single per-register store (found %d u128 stores)" % len(stores))
        return
    bi, si, st = stores[0]
    tgt = o._resolve(st["p"]["l"], (), (bi, si), 0)
    it = [x for x in walk(tgt) if x[0] == "call" and x[1].split("::")[-1] == "zip"]
    okit = False
    if it:
        za = it[0][2]
        l_, r_ = strip(za[0]), strip(za[1])
        okit = (l_[0] == "call" and l_[1].split("::")[-1] == "iter_mut" and root(strip(l_[2][0])) == ("param", 1)
                and r_[0] == "call" and r_[1].split("::")[-1] == "chunks_exact" and root(strip(r_[2][0])) == ("param", 2) and core(r_[2][1]) == ("const", 4, "usize"))
    ctx.check(okit, R, "lanes-iterate", b.where(bi, si), "registers are paired with consecutive groups of four words (dst.iter_mut().zip(src.chunks_exact(4)))",
              "the per-register loop does not pair dst[r] with src[4r..4r+4]: %s" % show(tgt)[:160])
    val = o._rvalue(st["r"], (bi, si), 0)
    good, shown = True, ""
    try:
        for lanes in ((0x80000001, 0x90000002, 0xa0000003, 0xb0000004), (0xffffffff, 0, 0x7fffffff, 0x80000000), (1, 2, 4, 8)):
            def leaf(e, lanes=lanes):
                if e[0] == "index" and is_const(core(e[2])) and 0 <= core(e[2])[1] < 4:
                    return (lanes[core(e[2])[1]], "u32")
                if e[0] in ("conv",) or (e[0] == "call" and e[1].split("::")[-1] == "from"):
                    inner = e[1] if e[0] == "conv" else e[2][0]
                    return (ipe.Eval({}, {}, leaf=leaf).val(inner)[0], "u128")
                if e[0] == "cast" and e[3] == "u128":
                    return (ipe.Eval({}, {}, leaf=leaf).val(e[1])[0], "u128")
                return None
            got = ipe.Eval({}, {}, leaf=leaf).val(val)[0]
            want = sum(l << (32 * k) for k, l in enumerate(lanes))
            if got != want:
                good = False
                shown = "words %s give %#034x, the register holds %#034x" % ([hex(x) for x in lanes], got, want)
    except ipe.Unsupported as e:
        ctx.unproven(R, "lanes-value", b.where(bi, si), "cannot evaluate the stored register value: %s" % e)
        return
    ctx.check(good, R, "lanes-value", b.where(bi, si), "the stored u128 is words[0] | words[1] << 32 | words[2] << 64 | words[3] << 96 (evaluated on three lane patterns)",
              "the u128 assembled from four register words is not their little-endian concatenation: %s" % shown)


# text decoding that fails on bytes that are not valid UTF-8
DECODERS = {"<std::io::Lines<B> as std::iter::Iterator>::next": "a line of the file is not valid UTF-8", "std::fs::read_to_string": "the file is not valid UTF-8",
            "std::string::String::from_utf8": "the bytes are not valid UTF-8", "std::str::from_utf8": "the bytes are not valid UTF-8",
            "std::ffi::OsStr::to_str": "the name is not valid UTF-8", "std::ffi::OsString::into_string": "the name is not valid UTF-8",
            "std::path::Path::to_str": "the path is not valid UTF-8", "std::ffi::CStr::to_str": "the string is not valid UTF-8",
            "std::io::Read::read_to_string": "the stream is not valid UTF-8", "std::io::BufRead::read_line": "the line is not valid UTF-8"}
# files whose text the target chooses (thread / process names, command line, environment, mapped file names)
TARGET_TEXT_FILES = ("/status", "/comm", "/cmdline", "/environ", "/maps", "/stat")


def rule_hard_decode(ctx, R="C04/hard-decode"):
    """every thread that can be attached must be listed whatever its NAME is: on the hard path of a dump (everything reachable from
    dump() without entering a best-effort step) no decode of target-chosen text may turn 'not valid UTF-8' into a propagated error.
    (A 15-byte comm cut in the middle of a multi-byte character is invalid UTF-8; /proc/<tid>/status repeats it on its Name: line.)"""
    from rules import c11
    prog = ctx.prog
    cg, _ = prog.callgraph()
    steps = set(c11.STEP_ROOTS)
    hard, st = set(), ["linux::minidump_writer::MinidumpWriter::dump"]
    while st:
        f = st.pop()
        if f in hard or f in steps:
            continue
        hard.add(f)
        st.extend(cg.get(f, ()))
    n = 0
    for f in sorted(hard):
        for b in prog.by_short.get(f, ()):
            o = None
            for bi, t in b.calls():
                cv = CalleeView(t["callee"])
                nm = cv.target or cv.short or ""
                if nm not in DECODERS and (cv.short or "") not in DECODERS:
                    continue
                why = DECODERS.get(nm) or DECODERS.get(cv.short)
                o = o or Origin(b)
                e = o.call_expr(bi)
                strs = [s_[1] for s_ in walk(e) if s_[0] == "str"]
                target_text = any(any(x in s_ for x in TARGET_TEXT_FILES) and "/proc/" in s_ for s_ in strs) or not strs
                if not target_text:
                    continue
                n += 1
                # is the failure propagated?  some Try::branch / ok_or(..)? in this function consumes a value derived from this call
                propagated = None
                for bj, t2 in b.calls(lambda c: c.short == "std::ops::Try::branch"):
                    a0 = o.call_args(bj)[0]
                    if any(q[0] == "call" and q[1] == e[1] and q[3] == e[3] for q in walk(a0)):
                        # only the decode's own Result counts: the branch operand is the item itself (possibly through Some/ok_or)
                        a1 = strip(a0)
                        while a1[0] == "call" and a1[1].split("::")[-1] in ("ok_or", "ok_or_else", "map_err") and a1[2]:
                            a1 = strip(a1[2][0])
                        if a1[0] in ("some",):
                            a1 = strip(a1[1])
                        if a1[0] == "call" and a1[1] == e[1] and a1[3] == e[3]:
                            propagated = bj
                key = (f.split("::")[-1], nm.split("::")[-1], "#%d" % n)
                if propagated is None:
                    ctx.ok(R, key, b.where(bi), "decode failure (%s) is handled locally, not propagated" % why, nontrivial=False)
                else:
                    ctx.violated(R, ("propagated", f.split("::")[-1], nm.split("::")[-1]), b.where(bi),
                                 "on the hard path of dump(), %s decodes target-chosen text (%s) and propagates the failure when %s: one thread or file with such a name makes the whole dump fail"
                                 % (f, ", ".join(strs)[:80] or "target bytes", why))
    # iterator adaptors that END the scan at the first undecodable item (map_while / take_while / scan over io::Lines, or with a closure
    # that turns a decode Result into None): the lines behind it are never seen, which is a failure of the whole function
    for f in sorted(hard):
        for b in prog.by_short.get(f, ()):
            for bi, t in b.calls(lambda c: (c.short or c.target or "").split("::")[-1] in ("map_while", "take_while", "scan")):
                cv = CalleeView(t["callee"])
                inst = cv.inst or ""
                if "std::io::Lines" in inst or "std::io::Split" in inst or "Utf8" in inst:
                    o_ = Origin(b)
                    strs = [s_[1] for s_ in walk(o_.call_expr(bi)) if s_[0] == "str"]
                    if strs and not any(any(x in s_ for x in TARGET_TEXT_FILES) and "/proc/" in s_ for s_ in strs):
                        continue
                    n += 1
                    ctx.violated(R, ("stops-at-first", f.split("::")[-1], cv.short.split("::")[-1] if cv.short else "?"), b.where(bi),
                                 "on the hard path of dump(), %s scans target-chosen text (%s) with %s(): the scan ends at the first line that is not valid UTF-8 and the lines behind it are never examined"
                                 % (f, ", ".join(strs)[:80] or "a target file", (cv.short or "?").split("::")[-1]))
    ctx.analysed["hard_path_functions"] = len(hard)
    ctx.floor(R, "functions on the hard path of dump()", len(hard), 100)


def rule_every_tid_listed(ctx, R="C04/every-tid-listed"):
    """enumerate_threads lists every task it could parse a tid for, whether or not its NAME could be read: from the comm read to the
    next iteration every path passes the push of Thread { tid, name } (a failed name read yields name: None, not a missing thread)"""
    b = ctx.body(R, PD + "::enumerate_threads")
    if b is None:
        return
    o = Origin(b)
    pushes = []
    for bi, t in b.calls(lambda c: c.short == "std::vec::Vec::push"):
        a = o.call_args(bi)
        if strip(a[0]) == ("field", ("param", 1), "threads") or any(x == ("field", ("param", 1), "threads") for x in walk(a[0])):
            pushes.append(bi)
    reads = [bi for bi, t in b.calls(lambda c: (c.short or "").endswith("fs::read_to_string"))]
    ctx.floor(R, "threads.push(Thread{..})", len(pushes), 1)
    ctx.floor(R, "comm read", len(reads), 1)
    # `every attachable thread appears`: the tids are the entries of the kernel's own listing of /proc/<pid>/task, walked through the
    # standard directory iterator until it says None (which re-issues getdents64 until the kernel returns 0) — not until a buffer looked
    # less than full, a count was reached or a deadline passed
    from rules.c18 import literal_pieces
    from engine.paths import conditions as _cond, Exits as _Exits

    def _listing(e):
        return [q for q in walk(e) if q[0] == "call" and q[1] == "std::fs::read_dir" and sorted(literal_pieces(q[2][0])) == ["/proc/", "/task"] and any(z == ("field", ("param", 1), "pid") for z in walk(q[2][0]))]
    for bi in pushes:
        v = strip(o.call_args(bi)[1])
        tid = dict(v[3]).get("tid") if v[0] == "agg" else None
        ok = tid is not None and bool(_listing(tid)) and any(q[0] == "call" and q[1].split("::")[-1] == "file_name" for q in walk(tid)) and any(q[0] == "call" and q[1].split("::")[-1] == "next" and _listing(q) for q in walk(tid))
        ctx.check(ok, R, "tid-from-listing", b.where(bi), "a listed tid is the name of an entry of read_dir(/proc/<pid>/task)", "the tid pushed to the thread list is %s, not the name of an entry handed out by read_dir(/proc/<pid>/task)" % (show(tid)[:120] if tid is not None else show(v)[:120]))
    for ob in sorted(_Exits(b).ok_blocks()):
        dnf = _cond(b, ob, origin=o, relevant=lambda a: a[0] == "discr" and any(q[0] == "call" and q[1].split("::")[-1] == "next" for q in walk(a)) and bool(_listing(a)))
        ok = bool(dnf) and all(any(v == 0 for (_, v) in c) for c in dnf)
        ctx.check(ok, R, "listing-exhausted", b.where(ob), "enumerate_threads returns Ok only after the directory iterator has said None", "enumerate_threads can return Ok before the listing of /proc/<pid>/task is exhausted: threads further down the listing are never attached nor listed")
    loops = b.loops()
    for rd in reads:
        inner = [h for h, body in loops.items() if rd in body]
        if not inner:
            ctx.unproven(R, "loop", b.where(rd), "the thread-name read is not inside the task loop")
            continue
        h = max(inner, key=lambda x: len(loops[x]))
        w = must_pass(b, rd, {h}, set(pushes))
        ctx.check(w is None, R, "listed-after-name-read", b.where(rd), "whatever the name read returns, the thread is pushed to the list before the next task is looked at",
                  "after the thread-name read an iteration can end without listing the thread: a thread whose name cannot be read disappears from the dump (no registers, no stack)",
                  detail={"path": w})


# Linux ptrace ABI (include/uapi/linux/ptrace.h, elf.h): written independently of the repository
PTRACE_ABI = {
    # getter: (helper, request, note type discriminant or None, result struct)
    "getregset": ("ptrace_get_data_via_io", 0x4204, ("NT_PRSTATUS", 1), "libc::user_regs_struct"),
    "getregs": ("ptrace_get_data", 12, None, "libc::user_regs_struct"),
    "getfpregset": ("ptrace_get_data_via_io", 0x4204, ("NT_PRFPREGSET", 2), "libc::user_fpregs_struct"),
    "getfpregs": ("ptrace_get_data", 14, None, "libc::user_fpregs_struct"),
}
PTRACE_PEEKUSER = 3


def rule_fresh_context(ctx, R="C04/fresh-context"):
    """`never ... given another thread's state`: the CPU context a thread's registers are written into starts out blank FOR THAT THREAD.
    Neither fill_cpu_context writes every field (the crash-context one leaves ds/es/ss and the debug registers alone, relying on a
    zeroed context), so the local handed to fill_cpu_context must be (re)initialised inside the same iteration of the thread loop."""
    b = ctx.body(R, "linux::sections::thread_list_stream::write")
    if b is None:
        return
    loops = b.loops()
    fills = [(bi, t) for bi, t in b.calls(lambda c: (c.short or "").endswith("fill_cpu_context") or (c.target or "").endswith("fill_cpu_context"))]
    ctx.floor(R, "fill_cpu_context calls in the thread loop", len(fills), 2)
    roots = []
    for k, (bi, t) in enumerate(fills):
        inner = [h for h, body in loops.items() if bi in body]
        if not inner:
            ctx.unproven(R, ("fill", k + 1), b.where(bi), "fill_cpu_context is not called inside the thread loop")
            continue
        h = min(inner, key=lambda x: len(loops[x]))
        # the &mut argument: find the local it borrows
        arg = t["args"][1] if len(t["args"]) > 1 else None
        src_local = None
        if arg is not None and arg.get("p") is not None:
            cur, seen = arg["p"]["l"], set()
            # follow `tmp = &mut X` / `tmp = &mut *tmp2` / `tmp = move tmp2` down to the local that holds the context
            while cur not in seen:
                seen.add(cur)
                nxt = None
                for blk in b.blocks:
                    for st in blk["stmts"]:
                        if st["k"] == "assign" and st["p"]["l"] == cur and not st["p"]["proj"]:
                            r = st["r"]
                            if r["k"] == "ref" and r.get("bk") == "mut":
                                nxt = (r["p"]["l"], [pj["k"] for pj in r["p"]["proj"]])
                            elif r["k"] in ("move", "copy") and r.get("p") is not None and not r["p"]["proj"]:
                                nxt = (r["p"]["l"], ["deref"])
                if nxt is None:
                    break
                if not nxt[1]:
                    src_local = nxt[0]
                    break
                if nxt[1] != ["deref"]:
                    break
                cur = nxt[0]
        if src_local is None:
            ctx.unproven(R, ("fill", k + 1), b.where(bi), "cannot identify the context local handed to fill_cpu_context")
            continue
        inits = [x for x, blk in enumerate(b.blocks) for st in blk["stmts"] if st["k"] == "assign" and st["p"]["l"] == src_local and not st["p"]["proj"]]
        inits += [x for x, t2 in b.calls() if t2.get("dest") and t2["dest"]["l"] == src_local and not t2["dest"]["proj"]]
        # some initialising block lies inside the loop body and dominates the fill: every iteration passes through it first
        fresh = any(x in loops[h] and x != h and b.dominates(x, bi) for x in inits)
        roots.append((k, bi, t, src_local, fresh))
    for k, bi, t, src_local, fresh in roots:
        if fresh:
            ctx.ok(R, ("fill", k + 1), b.where(bi), "the context filled here is blank for this thread (initialised in the same iteration)")
            continue
        # a context that lives across iterations is still this thread's alone if this fill overwrites every field that any
        # fill sharing the local may have written for an earlier thread
        mine = _fill_writes(ctx, t)
        if mine is None:
            ctx.unproven(R, ("fill", k + 1), b.where(bi), "the context handed to fill_cpu_context outlives one iteration and the fill's writes cannot be enumerated")
            continue
        stale = set()
        for k2, bi2, t2, src2, _f in roots:
            if src2 != src_local:
                continue
            w2 = _fill_writes(ctx, t2)
            if w2 is None:
                stale.add("?")
            else:
                stale |= w2[0] - mine[1]
        ctx.check(not stale, R, ("fill", k + 1), b.where(bi), "the context filled here outlives one iteration, but this fill overwrites every field an earlier fill may have set",
                  "the CPU context handed to fill_cpu_context is initialised outside the thread loop and this fill does not overwrite field(s) %s that a fill for the thread written before may have set: they carry over into this thread's record" % ", ".join(sorted(stale, key=lambda v: (len(v), v))))


def _fill_writes(ctx, t):
    """(may, must) top-level fields of `*out` written by the fill_cpu_context this call resolves to; must = written in a block that
    dominates every return."""
    cv = CalleeView(t["callee"])
    cands = [x for x in ctx.prog.bodies if x.name == norm(cv.target or cv.short or "") or (cv.short and x.name.endswith(norm(cv.short)))]
    if len(cands) != 1:
        return None
    f = cands[0]
    rets = [x for x, blk in enumerate(f.blocks) if (blk.get("term") or {}).get("k") == "return"]
    may, must = set(), set()
    for x, blk in enumerate(f.blocks):
        for st in blk["stmts"]:
            if st["k"] != "assign":
                continue
            pl = None
            if st["p"]["l"] == 2 and len(st["p"]["proj"]) >= 2 and st["p"]["proj"][0]["k"] == "deref":
                pl = st["p"]["proj"][1]
            r = st["r"]
            if r["k"] == "ref" and r.get("bk") == "mut" and r["p"]["l"] == 2:
                if len(r["p"]["proj"]) < 2:
                    return None  # the whole context escapes: cannot enumerate
                pl = r["p"]["proj"][1]
            if pl is None or pl["k"] != "field":
                continue
            fld = str(pl.get("n") or pl.get("i"))
            may.add(fld)
            if rets and all(f.dominates(x, rb) for rb in rets):
                must.add(fld)
    return may, must


def rule_status_ids(ctx, R="C04/status-ids"):
    """`every attachable thread ... appears`: a thread's registers are read only after its /proc/<tid>/status gave a Tgid and a PPid, and
    the thread-list writer turns a failure there into a failed dump.  So get_ppid_and_tgid may refuse a thread only when a LINE is
    missing: the marker for "line not seen" is a value no line the kernel prints can parse to (negative; `PPid: 0` is what the init of a
    pid namespace, or a process whose parent is outside the namespace, shows), and each id is compared with that very marker."""
    b = ctx.body(R, "linux::thread_info::CommonThreadInfo::get_ppid_and_tgid")
    if b is None:
        return
    o = Origin(b)
    ex = Exits(b)
    n = 0
    for eb in sorted(ex.err_blocks()):
        dnf = conditions(b, eb, origin=o, relevant=lambda a: a[0] == "bin" and a[1] in ("Eq", "Ne", "Lt", "Le", "Gt", "Ge"))
        atoms = {(nosite(a), v) for c in (dnf or []) for (a, v) in c}
        if not atoms:
            continue
        n += 1
        bad = []
        for a, v in sorted(atoms, key=repr):
            x, y = strip(a[2]), strip(a[3])
            if is_const(core(x)):
                x, y = y, x
            ok = a[1] == "Eq" and x[0] == "phi" and is_const(core(y)) and isinstance(core(y)[1], int) and core(y)[1] < 0 \
                and any(is_const(core(q)) and core(q)[1] == core(y)[1] for q in x[1] if isinstance(q, tuple)) \
                and any(isinstance(q, tuple) and any(z[0] == "call" and z[1].split("::")[-1] == "parse" for z in walk(q)) for q in x[1])
            if not ok:
                bad.append(show(a)[:90])
        ctx.check(not bad, R, ("refusal", n), b.where(eb), "a thread is refused only when an id still holds the negative `line not seen` marker",
                  "get_ppid_and_tgid refuses a thread on %s: an id the kernel really prints (`PPid: 0` in a pid namespace) is taken for a missing line, and the thread list fails as a whole" % bad[:2])
    # (no floor: an `Option` instead of a marker leaves no comparison at all, which is fine; the anchor is the function itself)
    ctx.ok(R, ("refusals", "counted"), b.where(0), "value-dependent refusals in get_ppid_and_tgid: %d" % n, nontrivial=False)


def rule_ptrace_requests(ctx, R="C04/ptrace-requests"):
    """`equal to the registers the thread had` starts with asking the kernel for the right thing: each getter issues the request
    number and note type of the Linux ptrace ABI for the struct it returns, for the tid it was given; the shared helpers hand the
    kernel a buffer of exactly that struct (iovec length = size_of::<T>()) and look at the result before assuming it was filled."""
    prog = ctx.prog
    X = "linux::thread_info::x86::ThreadInfoX86::"
    note_discr = {}
    for name, a in prog.adts.items():
        if name.endswith("thread_info::NT_Elf"):
            note_discr = {v["name"]: v.get("discr") for v in a.get("variants", [])}
    for g, (helper, req, note, ty) in sorted(PTRACE_ABI.items()):
        b = ctx.body(R, X + g)
        if b is None:
            continue
        o = Origin(b)
        hs = [(bi, t) for bi, t in b.calls(lambda c: (c.short or "").split("::")[-1] in ("ptrace_get_data", "ptrace_get_data_via_io"))]
        if len(hs) != 1:
            ctx.violated(R, (g, "anchor"), b.where(0), "anchor lost: %s does not make exactly one request through the shared helpers" % g)
            continue
        bi, t = hs[0]
        cv = CalleeView(t["callee"])
        a = o.call_args(bi)
        rq = core(a[0])
        ctx.check((cv.short or "").split("::")[-1] == helper, R, (g, "helper"), b.where(bi), "%s goes through %s" % (g, helper), "%s goes through %s (the ABI wants %s)" % (g, (cv.short or "").split("::")[-1], helper))
        ctx.check(is_const(rq) and rq[1] == req, R, (g, "request"), b.where(bi), "%s issues request %#x" % (g, req), "%s issues request %s, the ABI number is %#x" % (g, show(rq), req))
        fl = strip(a[1])
        if note is None:
            okn = fl[0] == "agg" and fl[2] == "None"
        else:
            okn = fl[0] == "agg" and fl[2] == "Some" and strip(dict(fl[3])["0"])[0] == "agg" and strip(dict(fl[3])["0"])[2] == note[0] and note_discr.get(note[0]) == note[1]
        ctx.check(okn, R, (g, "note-type"), b.where(bi), "%s selects %s" % (g, "%s = %d" % note if note else "no register set"), "%s selects %s (the ABI wants %s; enum value %s)" % (g, show(fl)[:60], note, note_discr.get(note[0]) if note else None))
        pid = strip(a[2])
        ctx.check(pid[0] == "call" and pid[1].endswith("Pid::from_raw") and pid[2][0] == ("param", 1), R, (g, "tid"), b.where(bi), "%s asks about the tid it was given" % g, "%s asks about %s" % (g, show(pid)[:60]))
        rty = b.locals[0]["ty"]
        ctx.check(rty.startswith("std::result::Result<" + ty + ","), R, (g, "struct"), b.where(0), "%s returns %s" % (g, ty.split("::")[-1]), "%s returns %s, the ABI struct for this request is %s" % (g, rty[:60], ty))
    pk = ctx.body(R, X + "peek_user")
    if pk is not None:
        o = Origin(pk)
        for bi, t in pk.calls(lambda c: (c.short or "").endswith("ptrace_peek")):
            a = o.call_args(bi)
            ctx.check(is_const(core(a[0])) and core(a[0])[1] == PTRACE_PEEKUSER and strip(a[1])[0] == "call" and strip(a[1])[2][0] == ("param", 1) and a[2] == ("param", 2), R, ("peek_user", "request"), pk.where(bi),
                      "peek_user issues PTRACE_PEEKUSER (3) for its tid at its address", "peek_user issues %s(%s, %s)" % (show(a[0]), show(a[1])[:40], show(a[2])[:40]))
    n = 0
    for h in ("ptrace_get_data", "ptrace_get_data_via_io"):
        b = ctx.body(R, "linux::thread_info::CommonThreadInfo::" + h)
        if b is None:
            continue
        o = Origin(b)
        pc = [(bi, t) for bi, t in b.calls(lambda c: c.short == "libc::ptrace")]
        if len(pc) != 1:
            ctx.violated(R, (h, "anchor"), b.where(0), "anchor lost: %s does not make exactly one libc::ptrace call" % h)
            continue
        n += 1
        bi, t = pc[0]
        a = o.call_args(bi)
        buf = [x for x, t2 in b.calls(lambda c: (c.short or "").endswith("MaybeUninit::uninit"))]
        okargs = a[0] == ("param", 1) and root(strip(a[1])) == ("param", 3) and strip(a[2])[0] == "call" and strip(a[2])[1].endswith("unwrap_or") and strip(a[2])[2][0] == ("param", 2)
        ctx.check(okargs, R, (h, "args"), b.where(bi), "ptrace(request, pid, note type or 0, ..) with the caller's request, pid and note type", "ptrace called with (%s, %s, %s)" % tuple(show(x)[:40] for x in a[:3]))
        d = strip(a[3])
        if h == "ptrace_get_data":
            okd = d[0] == "call" and d[1].endswith("as_mut_ptr") and strip(d[2][0])[0] == "call" and strip(d[2][0])[1].endswith("MaybeUninit::uninit")
        else:
            f = dict(d[3]) if d[0] == "agg" else {}
            base, ln = strip(f.get("iov_base", ("?",))), strip(f.get("iov_len", ("?",)))
            inst = ""
            if ln[0] == "call" and len(ln) > 3:
                inst = (b.term(ln[3][1]).get("callee") or {}).get("inst") or ""
            okd = d[0] == "agg" and any(q[0] == "call" and q[1].endswith("MaybeUninit::uninit") for q in walk(base)) and ln[0] == "call" and ln[1].endswith("mem::size_of") and inst.endswith("size_of::<T>")
        ctx.check(okd, R, (h, "buffer"), b.where(bi), "the kernel is handed the uninitialised T itself%s" % (" with iov_len = size_of::<T>()" if h.endswith("io") else ""), "the data argument is %s" % show(d)[:120])
        # assume_init only after the result was checked
        ai = [x for x, t2 in b.calls(lambda c: (c.short or "").endswith("MaybeUninit::assume_init"))]
        rs = [x for x, t2 in b.calls(lambda c: (c.short or "").endswith("Errno>::result") or (c.short or "").endswith("Errno::result"))]
        okr = bool(ai) and bool(rs) and all(b.dominates(rs[0], x) for x in ai) and nosite(strip(o.call_args(rs[0])[0])) == nosite(strip(o.call_expr(bi)))
        if okr:
            dnf = conditions(b, ai[0], origin=o, relevant=lambda q: q[0] == "discr")
            okr = bool(dnf) and all(any(v_ == 0 for (_, v_) in c) for c in dnf)
        ctx.check(okr, R, (h, "checked-before-use"), b.where(ai[0]) if ai else b.where(bi), "the buffer is taken as filled only after Errno::result(ptrace(..)) was Ok", "the buffer can be assumed initialised although the request failed")
    ctx.floor(R, "shared ptrace data helpers", n, 2)


def run(ctx):
    rule_reg_map(ctx)
    rule_regs_source(ctx)
    rule_fresh_context(ctx)
    rule_ptrace_requests(ctx)
    rule_one_per_thread(ctx)
    rule_window(ctx)
    rule_skip_only_null_sp(ctx)
    rule_thread_list_mutators(ctx)
    rule_lane_copy(ctx)
    rule_hard_decode(ctx)
    rule_every_tid_listed(ctx)
    rule_status_ids(ctx)
    # a thread that could not be attached is omitted *and reported*: the failing-attach branch pushes that error
    from rules import c11
    c11.rule_soft_sites(ctx, R="C04/omitted-thread-reported", only=("suspend_thread",), floor=1)
    # the stream is attempted in every dump: its writer is on every success path of generate_dump (same rule instance as C01/every-stream-attempted)
    from rules import c01 as _c01
    _c01.rule_stream_attempted(ctx, R="C04/stream-attempted", only=("thread_list_stream::write",))
    # the crashing thread's recorded context is the supplied one, register for register, for every 64-bit pattern (same rule instance as C05/greg-map)
    from rules import c05 as _c05
    _c05.rule_greg_map(ctx, R="C04/crash-thread-registers")
    # the stream reaches the caller's file where the directory says, wherever in the destination the dump starts (rules/families.py)
    from rules import families as _famd
    _famd.destination(ctx, "C04")
    # the small accessors and pass-through wrappers the rules above look through by name return what their names say (rules/accessors.py)
    from rules import accessors as _acc
    _acc.rule_accessors(ctx, "C04")
    # the stream this property talks about is all-or-nothing: generate_dump succeeds only if its writer returned Ok (rules/c01.py rule_hard_streams)
    from rules import c01 as _c01h
    _c01h.rule_hard_streams(ctx, R="C04/hard-streams", only=('thread_list_stream::write',))
    # `never ... given another thread's state`: the supplied crash context is written for the thread whose TID is the blamed one — decided
    # by comparing tids per entry, not by a position computed on an earlier version of the list (same rule instance as C05/branch-select)
    from rules import c05 as _c05b
    _c05b.rule_branch_select(ctx, R="C04/crash-context-for-blamed-tid")
    # the thread list fails as a whole when a stack or the window around the crash address cannot be read (`?` in thread_list_stream): the reader must
    # try every strategy before it gives up (rules/families.py, reader family)
    from rules import families as _famr
    _famr.reader(ctx, "C04")
    # `every thread that exists ... is listed`: a thread is attached and its stop AWAITED (blocking waitpid(__WALL) of nix, no polling with a
    # give-up path) before anything is read from it; a thread whose stop was not awaited is dropped from the list (same rule instance as C03/attach-detach)
    from rules import c03 as _c03w
    _c03w.rule_blocking_wait(ctx, R="C04/stop-awaited")
    # `the recorded ... stack memory describe the state the thread had`: the stack descriptor's start is the address the bytes were copied
    # from (also for the shortened window of the extra threads), so the listed rsp lies inside the range it names (same rule instance as C06/descriptor-agrees)
    from rules import c06 as _c06d
    _c06d.rule_descriptor_agrees(ctx, R="C04/stack-descriptor-agrees")
