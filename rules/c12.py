"""C12 — stack sanitisation lets only pointers and small integers survive (structural clauses)."""
import itertools
from engine.mir import CalleeView, norm
from engine.origin import Origin, strip, core, show, root, walk, nosite, is_const, alts
from engine.paths import Exits, must_pass, conditions, switch_atom
from engine import ipe

PROPERTY = "C12"
EXPLANATION = ("The word classifier of sanitize_stack_copy is comparison-only, so it is decided exactly: the path condition (DNF over "
               "branch literals, E3) under which a word is overwritten with the sentinel is evaluated (E4) on every order type of the word "
               "relative to the small-integer bound in both the unsigned and two's-complement reading, crossed with all truth assignments of the "
               "opaque mapping tests, and compared with the specification `defaced iff not(|w| <= 4096 or in own stack mapping or in cached "
               "executable mapping or (pre-filter hit and found mapping executable))`. Further: the last-hit cache is only assigned executable "
               "mappings; the pre-filter's set and test sides use the same canonical index/mask expressions and shift; bytes below the aligned "
               "SP offset and the trailing partial word are zeroed; the sentinel is 0x0defaced0defaced; the slice is never resized.")
TRUSTED = ["monotonicity of >> (bucket range soundness)", "chunks_exact_mut / into_remainder semantics"]
ASSUMPTIONS = ["find_mapping_no_bias / contains_address / is_executable are treated as opaque predicates of (mapping, address); their own range forms are checked by C20/C13 siblings"]

FN = "linux::ptrace_dumper::PtraceDumper::sanitize_stack_copy"
SMALL = 4096


def word_loop(b, o):
    """(header, next-call expr) of the loop driven by chunks_exact_mut"""
    for h, body in b.loops().items():
        for x in body:
            t = b.term(x)
            if t["k"] == "call" and CalleeView(t["callee"]).short == "std::iter::Iterator::next":
                e = o.call_expr(x)
                if any(s[0] == "call" and s[1].split("::")[-1] == "chunks_exact_mut" for s in walk(e)) and not any(
                        s[0] == "call" and s[1].split("::")[-1] == "into_remainder" for s in walk(e)):
                    return h, e, x
    return None


def classify_atom(a, word):
    """name an atom of the classifier; word = nosite'd expression of the current chunk"""
    a = nosite(a)
    if ipe.is_cmp_atom(a) and not any(s[0] == "call" and s[1].split("::")[-1] == "from_elem" for s in walk(a)):
        if any(s[0] == "call" and s[1].split("::")[-1] == "from_ne_bytes" for s in walk(a)):
            return "cmp"
    if a[0] == "call" and a[1].endswith("MappingInfo::contains_address"):
        m = strip(a[2][0])
        if any(s[0] == "param" and s[1] == 3 for s in walk(m)):
            return "in_stack"
        return "in_last"
    if a[0] == "discr":
        x = strip(a[1])
        if x[0] == "call" and x[1].endswith("find_mapping_no_bias"):
            if any(s == ("param", 3) for s in x[2]):
                return "stack_some"
            return "found_some"
        if x[0] == "phi":
            return "last_some"
    if a[0] == "call" and a[1].endswith("MappingInfo::is_executable"):
        return "found_exec"
    if a[0] == "bin" and a[1] in ("Ne", "Eq") and any(s[0] == "call" and s[1].split("::")[-1] == "from_elem" for s in walk(a)):
        return "bitmap"
    return None


def rule_classifier(ctx):
    R = "C12/keep-only-if"
    b = ctx.body(R, FN)
    if b is None:
        return
    o = Origin(b)
    wl = word_loop(b, o)
    if wl is None:
        ctx.violated(R, ("anchor", "word-loop"), b.where(0), "anchor missing: loop over chunks_exact_mut words")
        return
    h, nxt, nb = wl
    word = nosite(("some", nxt))
    # deface site: copy_from_slice(chunk, &defaced)
    deface = [bi for bi, t in b.calls(lambda c: (c.short or "").split("::")[-1] == "copy_from_slice") if bi in b.loops()[h]]
    ctx.floor(R, "sentinel store in the word loop", len(deface), 1)
    if len(deface) != 1:
        return
    db = deface[0]
    da = o.call_args(db)
    sent = None
    for s in walk(da[1]):
        if is_const(s) and isinstance(s[1], int) and s[1] > 0xffff:
            sent = s[1]
    dst_ok = nosite(strip(da[0])) == strip(word)
    ctx.check(dst_ok, "C12/zero-below-sp", "sentinel-target", b.where(db), "the sentinel overwrites the word being classified", "the sentinel is written to %s" % show(da[0])[:100])
    ctx.check(sent == 0x0defaced0defaced, "C12/zero-below-sp", "sentinel-value", b.where(db), "sentinel is 0x0defaced0defaced", "sentinel is %s" % (hex(sent) if sent else show(da[1])[:80]))
    dnf = conditions(b, db, origin=o, entry=h)
    if dnf is None:
        ctx.unproven(R, "path-condition", b.where(db), "too many paths to the sentinel store")
        return
    # name all atoms
    names = {}
    unknown = []
    for conj in dnf:
        for (a, v) in conj:
            k = classify_atom(a, word)
            if k is None:
                # loop-control / `?` literals on the way are irrelevant when they are fixed on every path
                unknown.append(a)
            names[a] = k
    # literals that are not classifier atoms must be identical in all disjuncts (e.g. iterator has next, try_into Ok)
    fixed = None
    for conj in dnf:
        f = frozenset((a, v) for (a, v) in conj if names[a] is None)
        if fixed is None:
            fixed = f
        elif f != fixed:
            ctx.unproven(R, "path-condition", b.where(db), "non-classifier literals differ between paths: %s" % [show(a)[:80] for a, _ in (f ^ fixed)])
            return
    cls_dnf = [frozenset((a, v) for (a, v) in conj if names[a] is not None) for conj in dnf]
    kinds = sorted({k for k in names.values() if k})
    want_kinds = ["bitmap", "cmp", "found_exec", "found_some", "in_last", "in_stack", "last_some", "stack_some"]
    ctx.check(kinds == want_kinds, R, "atoms", b.where(db), "classifier atoms: %s" % kinds, "classifier atoms are %s (expected %s)" % (kinds, want_kinds))
    if kinds != want_kinds:
        return
    cmp_atoms = [a for a, k in names.items() if k == "cmp"]
    opaque_atoms = {k: [a for a, kk in names.items() if kk == k] for k in want_kinds if k != "cmp"}
    # subject of the comparisons: the bytes of the current word
    subj = None
    for a in cmp_atoms:
        for s in walk(a):
            if s[0] == "call" and s[1].split("::")[-1] == "from_ne_bytes":
                subj = nosite(s[2][0])
    vals = ipe.boundary_values({SMALL} | ipe.consts_in([[(nosite(a), 1) for a in cmp_atoms]]))
    n_eval = 0
    mism = []
    small_bad = []
    okeys = [k for k in want_kinds if k != "cmp"]
    for w in vals:
        sw = ipe.signed(w)
        spec_small = -SMALL <= sw <= SMALL
        for bits in itertools.product((0, 1), repeat=len(okeys)):
            asg = dict(zip(okeys, bits))
            opaque = {}
            for k in okeys:
                for a in opaque_atoms[k]:
                    # discriminant atoms: value 1 = Some; bool atoms: 1 = true
                    opaque[nosite(a)] = asg[k]
            env = {subj: w}
            ev = ipe.Eval(env, opaque)
            try:
                got = any(all(ev.lit(nosite(a), v) for (a, v) in conj) for conj in cls_dnf)
            except ipe.Unsupported as e:
                ctx.unproven(R, "evaluate", b.where(db), "predicate outside the comparison fragment: %s" % e)
                return
            keep_spec = spec_small or (asg["stack_some"] and asg["in_stack"]) or (asg["last_some"] and asg["in_last"]) or (asg["bitmap"] and asg["found_some"] and asg["found_exec"])
            n_eval += 1
            if got != (not keep_spec):
                mism.append((w, asg, got))
                if not any(asg.values()) or (got and spec_small):
                    small_bad.append(w)
    ctx.analysed["c12_truth_table_rows"] = n_eval
    small_only = sorted({w for (w, asg, got) in mism if got and (-SMALL <= ipe.signed(w) <= SMALL)})
    other = [(w, asg, got) for (w, asg, got) in mism if not (got and (-SMALL <= ipe.signed(w) <= SMALL))]
    R2 = "C12/small-int"
    if small_only:
        lo, hi = min(ipe.signed(w) for w in small_only), max(ipe.signed(w) for w in small_only)
        ctx.violated(R2, "truth-set", b.where(db),
                     "the small-integer keep test does not have truth set signed(w) in [-%d, %d]: words with signed value in [%d, %d] (e.g. %s) are defaced — the upper bound is applied to the unsigned reading" % (
                         SMALL, SMALL, lo, hi, hex(small_only[0])), detail={"defaced_small_words": [hex(w) for w in small_only[:8]]})
    else:
        ctx.ok(R2, "truth-set", b.where(db), "small-integer keep test has truth set signed(w) in [-%d, %d] on all %d order-type representatives" % (SMALL, SMALL, len(vals)))
    ctx.check(not other, R, "truth-table", b.where(db),
              "the sentinel is stored exactly when no keep rule applies (%d rows: %d word order types x %d opaque assignments)" % (n_eval, len(vals), 2 ** len(okeys)),
              "classifier disagrees with the specification on %d rows, e.g. word=%s %s -> defaced=%s" % (len(other), hex(other[0][0]) if other else "", other[0][1] if other else "", other[0][2] if other else ""))
    # every iteration either keeps (continues) or passes the sentinel store: no other exit from the loop body except errors
    ex = Exits(b)
    leave = []
    for x in b.loops()[h]:
        for (s, lab) in b.succ_edges(x):
            if lab == ("unwind",) or s in b.loops()[h]:
                continue
            leave.append((x, s))
    errs = ex.err_blocks()
    bad_leave = []
    for (x, s) in leave:
        if b.term(s)["k"] == "unreachable":
            continue
        # allowed: iterator exhausted (from the next() switch) or an error return
        t = b.term(x)
        if t["k"] == "switch":
            atom, _ = switch_atom(b, o, x)
            if atom[0] == "discr" and strip(atom[1])[0] == "call" and strip(atom[1])[1].split("::")[-1] == "next":
                continue
            if atom[0] == "discr" and strip(atom[1])[0] == "try":
                continue
        bad_leave.append(b.where(x))
    ctx.check(not bad_leave, R, "no-early-exit", b.where(h), "the word loop is left only when all words are classified (or on a conversion error)", "the word loop can be left early at %s" % bad_leave)


def rule_cache(ctx):
    R = "C12/keep-only-if"
    b = ctx.body(R, FN)
    if b is None:
        return
    o = Origin(b)
    # assignments to last_hit_mapping: local of type Option<&MappingInfo> named last_hit_mapping
    locs = [i for i, l in enumerate(b.locals) if l.get("name") == "last_hit_mapping"]
    if len(locs) != 1:
        ctx.unproven(R, "cache-local", b.where(0), "cannot find the last_hit_mapping local")
        return
    L = locs[0]
    n = 0
    for (bi, si, kind, st) in b.defs.get(L, ()):
        if kind != "assign":
            continue
        v = strip(o._rvalue(st["r"], (bi, si), 0))
        if v[0] == "agg" and v[2] == "None":
            continue
        n += 1
        m = dict(v[3]).get("0") if v[0] == "agg" else None
        dnf = conditions(b, bi, origin=o, entry=0, relevant=lambda a: a[0] == "call" and a[1].endswith("MappingInfo::is_executable"))
        wl = word_loop(b, o)
        dnf = conditions(b, bi, origin=o, entry=wl[0] if wl else 0, relevant=lambda a: a[0] == "call" and a[1].endswith("MappingInfo::is_executable"))
        ok = bool(dnf) and all(any(v_ == 1 and nosite(strip(a[2][0])) == nosite(strip(m)) for (a, v_) in c) for c in dnf)
        ctx.check(ok, R, "cache-only-executable", b.where(bi, si), "last_hit_mapping is only assigned a mapping for which is_executable() held", "last_hit_mapping can cache a mapping that was not checked executable")
    ctx.floor(R, "cache assignments", n, 1)


def canon_bits(e, T):
    """canonical form of a bitmap index/mask expression with the bucket variable abstracted as T"""
    if nosite(strip(e)) == nosite(strip(T)) or nosite(core(e)) == nosite(core(T)):
        return ("T",)
    e = core(e)
    if e[0] == "bin":
        return ("bin", e[1], canon_bits(e[2], T), canon_bits(e[3], T))
    if e[0] == "const":
        return ("const", e[1])
    if e[0] == "cast":
        return canon_bits(e[1], T)
    return ("?", show(e)[:60])


def rule_bitmap(ctx):
    R = "C12/bitmap-agree"
    b = ctx.body(R, FN)
    if b is None:
        return
    o = Origin(b)
    # set side: could_hit_mapping[IDX] |= MASK  — an Index projection store with BitOr
    set_forms = []
    for bi, blk in enumerate(b.blocks):
        for si, st in enumerate(blk["stmts"]):
            if st["k"] == "assign" and st["r"]["k"] == "binop" and st["r"]["op"] == "BitOr":
                pj = st["p"]["proj"]
                e = o._rvalue(st["r"], (bi, si), 0)
                set_forms.append((bi, si, e))
    # test side: the bitmap atom
    wl = word_loop(b, o)
    test_atom = None
    for x in range(b.n):
        if b.term(x)["k"] == "switch":
            a, _ = switch_atom(b, o, x)
            if classify_atom(a, None) == "bitmap":
                test_atom = (x, a)
    ctx.floor(R, "bitmap set sites", len(set_forms), 1)
    if not set_forms or test_atom is None:
        ctx.unproven(R, "anchors", b.where(0), "bitmap set/test sites not found")
        return
    # set: value = BitOr(index(vec, IDX), Shl(1, BitAnd(T,7))) ; the store target index is in the MIR place of an index_mut call
    bi, si, e = set_forms[0]
    old, mask_e = core(e[2]), core(e[3])
    # T for the set side: the RangeInclusive item
    Tset = None
    for s in walk(e):
        if s[0] == "some" and strip(s[1])[0] == "call" and strip(s[1])[1].split("::")[-1] == "next":
            it = strip(strip(s[1])[2][0]) if strip(s[1])[2] else ("?",)
            if it[0] == "call" and it[1].split("::")[-1] == "new" and "RangeInclusive" in it[1] and Tset is None:
                Tset = s
    # index used on the set side: argument of index_mut in the same loop
    idx_set = None
    for x, t in b.calls(lambda c: (c.short or "").split("::")[-1] == "index_mut"):
        a = o.call_args(x)
        if Tset is not None and any(nosite(s) == nosite(Tset) for s in walk(a[1])):
            idx_set = a[1]
    # test side
    x, ta = test_atom
    tb = core(ta[2]) if core(ta[3]) == ("const", 0, "i32") or is_const(core(ta[3])) else core(ta[3])
    # tb = BitAnd(index(vec, IDX_T), Shl(1, BitAnd(T,7)))
    if tb[0] != "bin" or tb[1] != "BitAnd":
        ctx.unproven(R, "test-shape", b.where(x), "bitmap test is not `vec[i] & mask != 0`: %s" % show(ta)[:160])
        return
    parts = [core(tb[2]), core(tb[3])]
    idxp = [p for p in parts if p[0] in ("index",) or (p[0] == "call" and p[1].split("::")[-1] == "index")]
    maskp = [p for p in parts if p not in idxp]
    if len(idxp) != 1 or len(maskp) != 1:
        ctx.unproven(R, "test-shape", b.where(x), "cannot split bitmap test into element and mask")
        return
    idx_test = idxp[0][2] if idxp[0][0] == "index" else idxp[0][2][1]
    mask_test = maskp[0]
    # T for the test side: Shr(word, shift)
    Ttest = None
    for s in walk(mask_test):
        if s[0] == "bin" and s[1] == "Shr" and any(q[0] == "call" and q[1].split("::")[-1] == "from_ne_bytes" for q in walk(s)):
            Ttest = s
    if Tset is None or Ttest is None or idx_set is None:
        ctx.unproven(R, "bucket-variable", b.where(x), "cannot identify the bucket variables (set: %s, test: %s)" % (Tset is not None, Ttest is not None))
        return
    cs_i, ct_i = canon_bits(idx_set, Tset), canon_bits(idx_test, Ttest)
    cs_m, ct_m = canon_bits(mask_e, Tset), canon_bits(mask_test, Ttest)
    ctx.check(cs_i == ct_i and "?" not in str(cs_i), R, "byte-index", b.where(bi, si), "set and test use the same byte index expression %s" % (cs_i,), "byte index differs: set %s vs test %s" % (cs_i, ct_i))
    ctx.check(cs_m == ct_m and "?" not in str(cs_m), R, "bit-mask", b.where(bi, si), "set and test use the same bit mask expression %s" % (cs_m,), "bit mask differs: set %s vs test %s" % (cs_m, ct_m))
    # shift agreement: Ttest = Shr(word, S); range endpoints = Shr(start, S) ..= Shr(start+size, S)
    S = core(Ttest[3])
    rng = None
    for s in walk(Tset):
        if s[0] == "call" and s[1].split("::")[-1] == "new" and "RangeInclusive" in s[1]:
            rng = s
    okr = False
    if rng is not None:
        lo, hi = core(rng[2][0]), core(rng[2][1])
        if lo[0] == "bin" and lo[1] == "Shr" and hi[0] == "bin" and hi[1] == "Shr" and core(lo[3]) == S and core(hi[3]) == S:
            st_, en_ = core(lo[2]), core(hi[2])
            okr = (st_[0] == "field" and st_[2] == "start_address" and en_[0] == "bin" and en_[1] == "Add" and
                   {core(en_[2])[2] if core(en_[2])[0] == "field" else None, core(en_[3])[2] if core(en_[3])[0] == "field" else None} == {"start_address", "size"})
    ctx.check(okr, R, "bucket-range", b.where(bi, si), "buckets start>>%s ..= (start+size)>>%s are set inclusively with the same shift the test uses" % (S[1], S[1]),
              "bucket range / shift disagree with the test (shift %s): %s" % (show(S), show(rng)[:160] if rng else "?"))
    # the filter is a function of the mapping list alone: once the word scan has started nobody writes it, and the only writes there
    # are set `|=` bits.  (One bit stands for a whole 2 MiB bucket and its aliases: clearing it after one miss — a "negative cache" —
    # makes every later code pointer of that bucket fail the test, so what survives depends on the words that came before.)
    bm_base = None
    for x, t in b.calls(lambda c: (c.short or "").split("::")[-1] == "index_mut"):
        a = o.call_args(x)
        if Tset is not None and any(nosite(s_) == nosite(Tset) for s_ in walk(a[1])):
            bm_base = nosite(strip(a[0]))
    wl_blocks = b.loops().get(wl[0], set()) if wl else set()
    writes = []
    if bm_base is not None:
        for x, t in b.calls(lambda c: (c.short or "").split("::")[-1] in ("index_mut", "fill", "iter_mut", "as_mut_slice", "get_mut", "clear", "truncate", "resize", "swap", "push", "deref_mut")):
            a = o.call_args(x)
            if a and nosite(strip(a[0])) == bm_base:
                writes.append(x)
    in_scan = [b.where(x) for x in writes if x in wl_blocks]
    not_or = []
    for x in writes:
        # the value stored through this element reference: the statement(s) assigning through the call's destination
        dl = (b.term(x).get("dest") or {}).get("l")
        for bj, blk in enumerate(b.blocks):
            for sj, st in enumerate(blk["stmts"]):
                if st["k"] == "assign" and st["p"]["l"] == dl and st["p"]["proj"] and st["p"]["proj"][0]["k"] == "deref":
                    if not (st["r"]["k"] == "binop" and st["r"]["op"] == "BitOr"):
                        not_or.append(b.where(bj, sj))
    ctx.check(bm_base is not None and bool(wl) and not in_scan and not not_or, R, "filter-fixed-during-scan", b.where(bi, si),
              "the pre-filter is written only by `|=` in the set loop (%d write site(s)) and never once the word scan has started" % len(writes),
              "the pre-filter is modified %s: whether a word that points into an executable mapping survives then depends on the words scanned before it" % (("inside the word scan at %s" % in_scan) if in_scan else ("by something other than `|=` at %s" % not_or)))
    # only non-executable mappings are skipped in the set loop
    setloop = [h for h, body in b.loops().items() if bi in body]
    outer = max(setloop, key=lambda h: len(b.loops()[h])) if setloop else None
    if outer is not None:
        dnf = conditions(b, bi, origin=o, entry=outer)
        atoms = {(nosite(a)[1] if a[0] == "call" else a[0], v) for c in (dnf or []) for (a, v) in c if not (a[0] == "discr")}
        ok = atoms == {("linux::maps_reader::MappingInfo::is_executable", 1)}
        ctx.check(ok, R, "covers-all-executable", b.where(outer), "every executable mapping contributes its buckets (is_executable is the only filter)", "set loop filters by %s" % sorted(map(str, atoms)))


def rule_zero_below_sp(ctx):
    R = "C12/zero-below-sp"
    b = ctx.body(R, FN)
    if b is None:
        return
    o = Origin(b)
    # no success exit before the zeroing: whatever the relation between the copy's length and the stack pointer offset, the bytes
    # below the stack pointer are cleared before the function reports success
    zsites = set()
    for h, body in b.loops().items():
        for x in body:
            t = b.term(x)
            if t["k"] == "call" and CalleeView(t["callee"]).short == "std::iter::Iterator::next":
                it = o.call_expr(x)
                if any(s_[0] == "agg" and s_[1].endswith("ops::Range") for s_ in walk(it)) and any(s_ == ("param", 2) for s_ in walk(it)) and not any(s_[0] == "call" and s_[1].split("::")[-1] == "chunks_exact_mut" for s_ in walk(it)):
                    zsites.add(h)
    for bi, t in b.calls(lambda c: (c.short or "").split("::")[-1] == "fill"):
        a = o.call_args(bi)
        if len(a) == 2 and core(a[1]) == ("const", 0, "u8"):
            zsites.add(bi)
    ex = Exits(b)
    early = [ob for ob in ex.ok_blocks() if not zsites or must_pass(b, 0, {ob}, zsites) is not None]
    ctx.check(bool(zsites) and not early, R, "no-success-before-zeroing", b.where(early[0]) if early else b.where(0), "every success path clears the bytes below the stack pointer first",
              "a success path returns without having cleared the bytes below the stack pointer (e.g. when the copy is shorter than the stack pointer offset)")
    ims = [(bi, o.call_args(bi)) for bi, t in b.calls(lambda c: (c.short or "").split("::")[-1] == "index_mut") if strip(o.call_args(bi)[0]) == ("param", 2)]
    rng = [(bi, strip(a[1])) for bi, a in ims]
    rr = [x for x in rng if x[1][0] == "agg" and x[1][1].endswith("ops::Range")]
    rf = [x for x in rng if x[1][0] == "agg" and x[1][1].endswith("ops::RangeFrom")]
    ctx.floor(R, "stack_copy[0..offset] slice", len(rr), 1)
    ctx.floor(R, "stack_copy[offset..] slice", len(rf), 1)
    if not rr or not rf:
        return
    d = dict(rr[0][1][3])
    off = core(d["end"])
    W = 8

    def leaf(e):
        # len(stack_copy)
        if e[0] == "len" or (e[0] == "call" and e[1].split("::")[-1] == "len"):
            if any(s_ == ("param", 2) for s_ in walk(e)):
                return leaf.len
        return None

    def value(expr, sp, ln):
        leaf.len = ln
        return ipe.Eval({("param", 4): sp}, leaf=leaf).val(expr)[0]
    okoff = core(d["start"]) == ("const", 0, "usize")
    rows = 0
    bad = None
    try:
        for sp in (0, 1, 7, 8, 9, 15, 16, 2047, 2048, 4095, 4096, (1 << 64) - 1, (1 << 64) - 8):
            for ln in (0, 1, 7, 8, 16, 2048, 4096, 8192):
                rows += 1
                want_v = min(((sp + W - 1) & ~(W - 1)) & ((1 << 64) - 1) if sp <= (1 << 64) - W else (1 << 64) - W, ln)
                got = value(off, sp, ln)
                if got != want_v:
                    okoff = False
                    bad = bad or (sp, ln, got, want_v)
    except ipe.Unsupported as e:
        okoff = False
        bad = ("unsupported", str(e))
    ctx.check(okoff, R, "aligned-offset", b.where(rr[0][0]),
              "bytes [0, min(align_up(sp_offset, 8), len)) are selected for zeroing on all %d (sp_offset, len) boundary pairs" % rows,
              "zeroed prefix end %s is not min(align_up(sp_offset, 8), len): %s" % (show(off)[:140], bad))
    st2 = core(dict(rf[0][1][3])["start"])
    same = nosite(st2) == nosite(off)
    ctx.check(same, R, "words-start-at-offset", b.where(rf[0][0]), "word classification starts exactly at the end of the zeroed prefix", "words start at %s" % show(st2)[:120])
    # the prefix loop and the remainder loop store 0 into each byte
    zero_loops = 0
    for h, body in b.loops().items():
        it = None
        for x in body:
            t = b.term(x)
            if t["k"] == "call" and CalleeView(t["callee"]).short == "std::iter::Iterator::next":
                it = o.call_expr(x)
        if it is None:
            continue
        is_prefix = any(nosite(s) == nosite(("call", "x", ())) for s in ()) or any(s[0] == "agg" and s[1].endswith("ops::Range") and not s[1].endswith("RangeInclusive") for s in walk(it)) and not any(s[0] == "call" and s[1].split("::")[-1] == "chunks_exact_mut" for s in walk(it))
        is_rem = any(s[0] == "call" and s[1].split("::")[-1] == "into_remainder" for s in walk(it))
        if not (is_prefix or is_rem):
            continue
        stores = []
        for x in body:
            for si, st in enumerate(b.blocks[x]["stmts"]):
                if st["k"] == "assign" and st["p"]["proj"] and st["p"]["proj"][0]["k"] == "deref" and st["p"]["ty"] == "u8":
                    stores.append((x, si, o._rvalue(st["r"], (x, si), 0)))
        okz = len(stores) == 1 and stores[0][2] == ("const", 0, "u8")
        zero_loops += 1
        # ... of the caller's buffer: the bytes walked over are a view into stack_copy, not an owned copy of it (`.to_vec()`, `.clone()`,
        # `.to_owned()`, `collect()` make the zeroes land in a temporary that is dropped)
        COPYING = {"to_vec", "clone", "to_owned", "collect", "cloned", "copied", "into_vec", "from", "into_boxed_slice", "concat", "repeat"}
        copies = sorted({s_[1].split("::")[-1] for s_ in walk(it) if s_[0] == "call" and s_[1].split("::")[-1] in COPYING})
        ctx.check(not copies and any(s_ == ("param", 2) for s_ in walk(it)), R, ("zero-" + ("prefix" if is_prefix else "remainder"), "in-place"), b.where(h),
                  "the zeroed bytes are a view into the caller's stack copy", "the zeroed bytes are %s: the caller's buffer keeps its bytes" % (("a copy made by %s()" % ", ".join(copies)) if copies else "not derived from the stack copy"))
        ctx.check(okz, R, "zero-" + ("prefix" if is_prefix else "remainder"), b.where(h), "every byte of the %s is set to 0" % ("prefix below SP" if is_prefix else "trailing partial word"),
                  "%s loop does not simply zero each byte" % ("prefix" if is_prefix else "remainder"))
    # a prefix cleared with `stack_copy[0..offset].fill(0)` instead of a loop
    for bi, t in b.calls(lambda c: (c.short or "").split("::")[-1] == "fill"):
        a = o.call_args(bi)
        if len(a) == 2 and core(a[1]) == ("const", 0, "u8") and any(s_[0] == "agg" and s_[1].endswith("ops::Range") for s_ in walk(a[0])) and any(s_ == ("param", 2) for s_ in walk(a[0])):
            zero_loops += 1
            ctx.ok(R, "zero-prefix", b.where(bi), "every byte of the prefix below SP is set to 0 (slice fill)")
    ctx.floor(R, "zeroing loops (prefix + remainder)", zero_loops, 2)
    # the slice is never resized: stack_copy is &mut [u8] (a slice cannot change length) — check the parameter type
    ctx.check(b.locals[2]["ty"] == "&mut [u8]", R, "length-preserved", b.where(0), "the stack copy is a `&mut [u8]`: its length cannot change", "stack copy parameter type is %s" % b.locals[2]["ty"], nontrivial=False)


def run(ctx):
    from rules import preds
    preds.run(ctx, PROPERTY, ['is_executable', 'contains_address'])   # the opaque predicates these rules lean on, against oracle tables
    # the `inside an executable mapping` test of the sanitiser resolves the word with find_mapping_no_bias: it has to be the order-independent scan (the mapping list is not address-sorted)
    from rules import c06
    c06.rule_find_mapping(ctx, R="C12/exec-mapping-lookup", fn="find_mapping_no_bias", system_range=True)
    from rules import c20
    c20.rule_offset_relative(ctx, rule="C12/offset-relative-to-copy")
    rule_classifier(ctx)
    rule_cache(ctx)
    rule_bitmap(ctx)
    rule_zero_below_sp(ctx)
    # sanitisation stays requested for every dump from this writer (same rule instance as C19/config-preserved)
    from rules import c19 as _c19
    _c19.rule_config_preserved(ctx, R="C12/options-kept", only=("sanitize_stack",))
    # shared infrastructure this property leans on (rules/families.py): each member is the same rule instance as in its home property
    from rules import families as _fam
    _fam.reader(ctx, "C12")
    _fam.mapping_list(ctx, "C12")
    _fam.stack_lookup(ctx, "C12")
    # words are found relative to the copy: a shortened copy must start on a word boundary of the target's stack (same rule instance as
    # C06/who-is-shortened)
    from rules import c06 as _c06w
    _c06w.rule_who_is_shortened(ctx, R="C12/who-is-shortened")
