"""C19 — a writer can be reused: successive dumps are independent (E7 per-call state reset)."""
from engine.mir import CalleeView, norm
from engine.origin import Origin, strip, show, root, core, is_const, walk
from engine.paths import must_pass, witness_path

PROPERTY = "C19"
EXPLANATION = ("E7 state-reset dataflow: the set W of MinidumpWriter fields written by anything reachable from "
               "MinidumpWriter::dump is computed from MIR stores/&mut borrows; for every field in W each use in dump "
               "(direct, or through a callee that transitively touches the field) must be preceded on every path from "
               "the entry of dump by a kill (fresh assignment or clear()). Plus: no mutable/interior-mutable static or "
               "thread-local is reachable from dump, and buffer/dumper/soft-error list are locals of dump. (config-preserved) fields stored by "
               "the public setters are never stored to or mutably borrowed by anything reachable from dump.")
TRUSTED = ["call graph over resolved callees (trait calls on generic parameters are treated by item name)"]
ASSUMPTIONS = ["configuration fields (written only by the public setters) are intentionally persistent",
               "equivalence of the k-th dump with a fresh writer's dump on a changed target is not computed; the rule shows nothing recorded earlier can be read later"]

MW = "linux::minidump_writer::MinidumpWriter"
DUMP = MW + "::dump"
KILL_CALLS = ("std::vec::Vec::clear", "std::option::Option::take", "std::mem::take", "std::mem::replace")


def field_accesses(body):
    """yield (block, stmt_idx|'term', field, kind) for places rooted in a MinidumpWriter value.
    kind: 'write' (full store to the field), 'read', 'mutborrow' (taken &mut: accumulating write)"""
    def mw_field(p):
        for i, e in enumerate(p["proj"]):
            if e["k"] == "field" and e.get("adt") and norm(e["adt"]) == MW:
                return e["n"], i == len(p["proj"]) - 1
        return None, False

    for bi, blk in enumerate(body.blocks):
        for si, st in enumerate(blk["stmts"]):
            if st["k"] != "assign":
                continue
            f, exact = mw_field(st["p"])
            if f:
                yield bi, si, f, ("write" if exact else "partialwrite")
            r = st["r"]
            for p, kind in places_in_rvalue(r):
                f, exact = mw_field(p)
                if f:
                    yield bi, si, f, ("mutborrow" if kind == "mut" else "read")
        t = blk["term"]
        if t["k"] == "call":
            for a in t["args"]:
                if a["k"] in ("copy", "move"):
                    f, exact = mw_field(a["p"])
                    if f:
                        yield bi, "term", f, "read"
            f, exact = mw_field(t["dest"])
            if f:
                yield bi, "term", f, ("write" if exact else "partialwrite")
        elif t["k"] == "switch" and t["o"]["k"] in ("copy", "move"):
            f, exact = mw_field(t["o"]["p"])
            if f:
                yield bi, "term", f, "read"
        elif t["k"] == "drop":
            pass


def places_in_rvalue(r):
    k = r["k"]
    if k == "use" and r["o"]["k"] in ("copy", "move"):
        yield r["o"]["p"], "read"
    elif k in ("ref", "rawptr"):
        yield r["p"], ("mut" if r.get("bk") in ("mut", "Mut") else "read")
    elif k in ("cast", "unop", "repeat") and r["o"]["k"] in ("copy", "move"):
        yield r["o"]["p"], "read"
    elif k == "binop":
        for x in (r["a"], r["b"]):
            if x["k"] in ("copy", "move"):
                yield x["p"], "read"
    elif k == "discr":
        yield r["p"], "read"
    elif k == "agg":
        for x in r["ops"]:
            if x["k"] in ("copy", "move"):
                yield x["p"], "read"


def touched_fields(prog):
    """fn short -> {field: set(kinds)} transitively over the call graph"""
    direct = {}
    for b in prog.bodies:
        d = {}
        for bi, si, f, kind in field_accesses(b):
            d.setdefault(f, set()).add(kind)
        direct[b.short] = d
    cg, _ = prog.callgraph()
    trans = {k: {f: set(v) for f, v in d.items()} for k, d in direct.items()}
    changed = True
    while changed:
        changed = False
        for f, callees in cg.items():
            cur = trans.setdefault(f, {})
            for c in callees:
                for fld, kinds in trans.get(c, {}).items():
                    s = cur.setdefault(fld, set())
                    if not kinds <= s:
                        s |= kinds
                        changed = True
    return direct, trans


def passes_self(body, o, t):
    """does this call receive (a reborrow of) dump's self parameter?"""
    for i, a in enumerate(t["args"]):
        if a["k"] in ("copy", "move"):
            e = o.operand(a, (None, None)) if False else None
    return False


def rule_stale_field(ctx, rule="C19/stale-field", only=None):
    R = rule
    prog = ctx.prog
    b = ctx.body(R, DUMP)
    if b is None:
        return
    o = Origin(b)
    direct, trans = touched_fields(prog)
    reach = prog.reachable([DUMP])
    W = {}
    for fn in reach:
        for fld, kinds in direct.get(fn, {}).items():
            if kinds & {"write", "partialwrite", "mutborrow"}:
                W.setdefault(fld, set()).add(fn)
    ctx.analysed["dump_reachable_functions"] = len(reach)
    ctx.analysed["fields_written_during_dump"] = sorted(W)
    if only is None:
        ctx.floor(R, "MinidumpWriter fields written during dump()", len(W), 3)
    # sites in dump
    for fld in sorted(W):
        if only and fld not in only:
            continue
        kills = set()
        uses = {}
        for bi, si, f, kind in field_accesses(b):
            if f != fld:
                continue
            if kind == "write":
                kills.add(bi)
            elif kind == "mutborrow":
                # &mut self.f passed to a killing call (clear/take) in the same block
                t = b.term(bi)
                if t["k"] == "call" and CalleeView(t["callee"]).short in KILL_CALLS:
                    kills.add(bi)
                else:
                    uses.setdefault(bi, "accumulating write / &mut borrow in dump")
            else:
                uses.setdefault(bi, "read in dump")
        for bi, t in b.calls():
            cv = CalleeView(t["callee"])
            tgt = cv.target if cv.target in prog.by_short else cv.short
            if tgt not in prog.by_short:
                continue
            # does the call receive self?
            gets_self = False
            for a in t["args"]:
                if a["k"] in ("copy", "move"):
                    e = root(strip(o.operand(a, (bi, "term"))))
                    if e == ("param", 1):
                        gets_self = True
            if not gets_self:
                continue
            kinds = trans.get(tgt, {}).get(fld)
            if kinds:
                uses.setdefault(bi, "call %s (touches the field: %s)" % (tgt, "/".join(sorted(kinds))))
        # a block that both kills and uses (kill by assignment happens in stmts, use by terminator) counts as killed first
        bad = []
        for ub, why in sorted(uses.items()):
            if ub in kills:
                continue
            w = must_pass(b, 0, {ub}, kills) if 0 not in kills else None
            if w is not None:
                bad.append((ub, why, w))
        if not uses:
            ctx.ok(R, ("field", fld), b.where(0), "field is written during dump but never used from dump", nontrivial=False)
            continue
        if bad:
            ub, why, w = bad[0]
            ctx.violated(R, ("field", fld), b.where(ub),
                         "MinidumpWriter.%s is written during a dump (by %s) and can be used by a later dump() before being reset: "
                         "first unreset use: %s; %d kill site(s) in dump; witness path avoids them" % (
                             fld, ", ".join(sorted(x.split('::')[-2] + '::' + x.split('::')[-1] for x in W[fld]))[:160], why, len(kills)),
                         detail={"use_block": ub, "kills": sorted(kills), "path": w[:40]})
        else:
            ctx.ok(R, ("field", fld), b.where(min(uses)), "every use of MinidumpWriter.%s in dump is preceded by a reset on all paths (%d kill site(s), %d use site(s))" % (fld, len(kills), len(uses)))


def rule_fresh_locals(ctx):
    R = "C19/fresh-locals"
    prog = ctx.prog
    b = ctx.body(R, DUMP)
    if b is None:
        return
    o = Origin(b)
    # buffer, dumper, soft_errors are constructed inside dump
    want = {"mem_writer::Buffer::with_capacity": "image buffer", "linux::ptrace_dumper::PtraceDumper::new_report_soft_errors": "dumper",
            "std::default::Default::default": "soft-error list / auxv"}
    found = {}
    for bi, t in b.calls():
        cv = CalleeView(t["callee"])
        if cv.short in want:
            found[cv.short] = bi
    for k, what in want.items():
        ctx.check(k in found, R, ("local", what), b.where(found.get(k, 0)), "%s is constructed inside dump()" % what,
                  "%s is not constructed inside dump()" % what, nontrivial=False)
    # the buffer handed to generate_dump is that local
    for bi, t in b.calls(lambda c: c.endswith("MinidumpWriter::generate_dump")):
        args = o.call_args(bi)
        okb = strip(args[1])[0] == "call" and strip(args[1])[1].endswith("Buffer::with_capacity")
        okd = strip(args[2])[0] in ("okval",) or (strip(args[2])[0] == "call" and "PtraceDumper::new" in strip(args[2])[1])
        ctx.check(okb, R, ("generate_dump", "buffer"), b.where(bi), "generate_dump receives the buffer created in this call", "generate_dump receives a buffer of other origin: %s" % show(args[1])[:120])
        ctx.check(okd, R, ("generate_dump", "dumper"), b.where(bi), "generate_dump receives the dumper created in this call", "generate_dump receives a dumper of other origin: %s" % show(args[2])[:120])
    # statics / thread locals
    reach = prog.reachable([DUMP])
    bad = [s for s in prog.statics if s["mut"] or not s["freeze"]]
    for s in bad:
        ctx.violated(R, ("static", s["name"]), "%s:%s" % (s["file"], s["line"]), "mutable or interior-mutable static %s in the crate" % s["name"])
    if not bad:
        ctx.ok(R, ("static", "none"), None, "no mutable / interior-mutable static item in the crate (%d statics)" % len(prog.statics), nontrivial=False)
    tl = []
    for fn in reach:
        for body in prog.by_short.get(fn, ()):
            for bi, blk in enumerate(body.blocks):
                for si, st in enumerate(blk["stmts"]):
                    if st["k"] == "assign" and st["r"]["k"] == "tlref":
                        tl.append(body.where(bi, si))
    ctx.check(not tl, R, ("thread_local", "none"), tl[0] if tl else None, "no thread-local access reachable from dump()",
              "thread-local state reachable from dump(): %s" % tl[:3], nontrivial=False)


def rule_config_preserved(ctx, R="C19/config-preserved", only=None):
    """configuration fields — those the public setters (functions not reachable from dump) store to — must survive a dump unchanged:
    anything reachable from dump that stores to one, or takes it by &mut (Option::take, mem::take, push, clear ...), makes the next
    dump run with a different configuration than the caller set"""
    prog = ctx.prog
    direct, trans = touched_fields(prog)
    reach = prog.reachable([DUMP])
    config = {}
    for fn, d in direct.items():
        if fn in reach or not fn.startswith(MW + "::"):
            continue
        for fld, kinds in d.items():
            if kinds & {"write", "partialwrite", "mutborrow"}:
                config.setdefault(fld, set()).add(fn.split("::")[-1])
    # ... and the fields `new()` fills from its arguments (process_id, blamed_thread): they have no setter, the caller configures them once
    try:
        from engine.summ import return_origins as _ro
        for e in _ro(prog, MW + "::new") or []:
            e = strip(e)
            if e[0] == "agg":
                for fld, v in e[3]:
                    if any(q[0] == "param" for q in walk(v)):
                        config.setdefault(fld, set()).add("new")
    except Exception:
        pass
    ctx.analysed["configuration_fields"] = {k: sorted(v) for k, v in sorted(config.items())}
    ctx.floor(R, "configuration fields (stored by setters outside dump)", len(config), 6)
    # whole-object stores (`*self = Self { .. }`) inside a dump: every configuration field must be carried over from itself
    whole = []
    for fn in sorted(reach):
        for body in prog.by_short.get(fn, ()):
            bo = None
            for bi, blk in enumerate(body.blocks):
                if blk["cleanup"]:
                    continue
                for si, st in enumerate(blk["stmts"]):
                    if st["k"] == "assign" and [e["k"] for e in st["p"]["proj"]] == ["deref"] and norm(body.locals[st["p"]["l"]]["ty"].lstrip("&").replace("mut ", "").strip()) == MW:
                        bo = bo or Origin(body)
                        whole.append((body, bi, si, strip(bo._rvalue(st["r"], (bi, si), 0))))
    for fld in sorted(config):
        if only is not None and fld not in only:
            continue
        for body, bi, si, val in whole:
            carried = False
            if val[0] == "agg":
                v = dict(val[3]).get(fld)
                if v is not None:
                    carried = any(q[0] == "field" and q[2] == fld and root(q[1]) == ("param", 1) for q in walk(v))
            ctx.check(carried, R, ("whole-store", body.short.split("::")[-1], fld), body.where(bi, si),
                      "%s overwrites the whole writer but carries %s over" % (body.short.split("::")[-1], fld),
                      "%s overwrites the whole MinidumpWriter during a dump and MinidumpWriter.%s (set by %s) is not carried over: the next dump runs with the default instead of what the caller configured"
                      % (body.short.split("::")[-1], fld, ", ".join(sorted(config[fld]))))
        writers = []
        for fn in sorted(reach):
            for body in prog.by_short.get(fn, ()):
                for bi, si, f, kind in field_accesses(body):
                    if f == fld and kind in ("write", "partialwrite", "mutborrow"):
                        how = kind
                        if kind == "mutborrow":
                            t = body.term(bi)
                            if t["k"] == "call":
                                how = "&mut handed to %s" % (CalleeView(t["callee"]).short or "?").split("::")[-1]
                        writers.append("%s (%s) @ %s" % (fn.split("::")[-1], how, body.where(bi, si)))
        ctx.check(not writers, R, ("field", fld), None,
                  "MinidumpWriter.%s (set by %s) is only read during a dump" % (fld, ", ".join(sorted(config[fld]))),
                  "MinidumpWriter.%s is configuration (set by %s) but a dump modifies it: %s — the next dump from the same writer no longer runs with what the caller configured"
                  % (fld, ", ".join(sorted(config[fld])), "; ".join(writers)[:300]))


def rule_setters_verbatim(ctx, R="C19/setters-verbatim", only=None):
    """what the caller configures is what a dump uses: every `set_*` method of MinidumpWriter stores its argument itself
    (or Some(argument)) into the field of the same name — no filtering, de-duplication, clamping or reordering on the way in"""
    prog = ctx.prog
    n = 0
    for b in prog.bodies:
        if not (b.short.startswith(MW + "::set_") and b.kind != "Closure"):
            continue
        fld = b.short.split("::set_")[-1]
        if only and fld not in only:
            continue
        o = Origin(b)
        stores = []
        others = []
        for bi, blk in enumerate(b.blocks):
            if blk["cleanup"]:
                continue
            for si, st in enumerate(blk["stmts"]):
                if st["k"] == "assign" and st["p"]["proj"] and st["p"]["proj"][-1].get("k") == "field" and norm(st["p"]["proj"][-1].get("adt") or "") == MW:
                    stores.append((bi, si, st["p"]["proj"][-1]["n"], o._rvalue(st["r"], (bi, si), 0)))
            t = blk["term"]
            if t["k"] == "call":
                nm = (CalleeView(t["callee"]).short or "?").split("::")[-1]
                if nm not in ("drop", "drop_in_place", "deref_mut", "deref"):
                    others.append(nm)
        n += 1
        good = len(stores) == 1 and stores[0][2] == fld
        if good:
            v = strip(stores[0][3])
            if v[0] == "agg" and v[2] == "Some":
                v = strip(dict(v[3])["0"])
            good = v == ("param", 2)
        ctx.check(good and not others, R, ("setter", fld), b.where(0), "set_%s stores its argument unchanged" % fld,
                  "set_%s does not store its argument verbatim (stores: %s; calls: %s): the dump no longer uses exactly what the caller asked for"
                  % (fld, [(f_, show(v_)[:60]) for _, _, f_, v_ in stores], sorted(set(others))))
    if not only:
        ctx.floor(R, "setters of MinidumpWriter", n, 6)
    return n


def rule_fresh_writer(ctx, R="C19/fresh-writer"):
    """'a freshly configured writer': MinidumpWriter::new(pid, tid) names the target by its two arguments (in that order) and starts with
    every option off / empty and no per-dump state — what dump() resets to is what new() starts from"""
    from engine.summ import return_origins
    b = ctx.body(R, MW + "::new")
    if b is None:
        return
    rets = return_origins(ctx.prog, b.short) or []
    ok_any = False
    for e in rets:
        e = strip(e)
        if e[0] != "agg":
            continue
        ok_any = True
        d = {k: strip(v) for k, v in e[3]}
        want_param = {"process_id": ("param", 1), "blamed_thread": ("param", 2)}
        for f, w in want_param.items():
            ctx.check(core(d.get(f, ("?",))) == w, R, ("field", f), b.where(0), "%s <- argument %d" % (f, w[1]), "%s <- %s" % (f, show(d.get(f, ("?",)))[:60]))

        def is_none(v):
            return v[0] == "agg" and v[2] == "None"

        def is_empty(v):
            return v[0] == "call" and v[1].split("::")[-1] in ("new", "default") and not v[2]
        for f in ("minidump_size_limit", "principal_mapping_address", "principal_mapping", "crash_context", "direct_auxv_dump_info", "crashing_thread_context"):
            ctx.check(f in d and is_none(d[f]), R, ("field", f), b.where(0), "%s starts as None" % f, "%s starts as %s" % (f, show(d.get(f, ("?",)))[:60]), nontrivial=False)
        for f in ("skip_stacks_if_mapping_unreferenced", "sanitize_stack"):
            ctx.check(f in d and is_const(core(d[f])) and core(d[f])[1] == 0, R, ("field", f), b.where(0), "%s starts off" % f, "%s starts as %s" % (f, show(d.get(f, ("?",)))[:60]), nontrivial=False)
        for f in ("user_mapping_list", "app_memory", "memory_blocks"):
            ctx.check(f in d and is_empty(d[f]), R, ("field", f), b.where(0), "%s starts empty" % f, "%s starts as %s" % (f, show(d.get(f, ("?",)))[:60]), nontrivial=False)
        known = set(want_param) | {"minidump_size_limit", "principal_mapping_address", "principal_mapping", "crash_context", "direct_auxv_dump_info", "crashing_thread_context",
                                   "skip_stacks_if_mapping_unreferenced", "sanitize_stack", "user_mapping_list", "app_memory", "memory_blocks", "stop_timeout"}
        extra = sorted(set(d) - known)
        ctx.check(not extra, R, ("fields", "no-unreviewed-state"), b.where(0), "MinidumpWriter has no field outside the reviewed configuration / per-dump state",
                  "MinidumpWriter has new field(s) %s: decide whether they are configuration (set only by setters) or per-dump state (reset in dump())" % extra)
    ctx.check(ok_any, R, "shape", b.where(0), "new() returns a struct literal", "cannot read the value new() returns", nontrivial=False)


def run(ctx):
    rule_stale_field(ctx)
    rule_config_preserved(ctx)
    rule_setters_verbatim(ctx)
    rule_fresh_writer(ctx)
    rule_fresh_locals(ctx)
    # what a failed request leaves behind is not only in the writer's fields: threads it left ptrace-attached make every later request of this
    # tracer find nothing to attach to.  Every exit of a request releases the target (same rule instance as C03/drop-resumes)
    from rules import c03 as _c03d
    _c03d.rule_drop_resumes(ctx, R="C19/failed-request-releases-target")
    _c03d.rule_lazy_consumed(ctx, R="C19/lazy-effects-consumed")
