"""C11 — best-effort steps fail softly and every failure is reported (structural clauses)."""
from engine.mir import CalleeView, norm
from engine.origin import Origin, strip, core, show, root, walk, nosite, is_const, alts
from engine.paths import Exits, must_pass, conditions, switch_atom, witness_path
from rules import c01

PROPERTY = "C11"
USES_TEST_CONFIG = True
EXPLANATION = ("Frozen table of the best-effort steps named by the property (21 sites). For each: the failing branch (a) passes a "
               "WriteErrorList::push whose argument is built from that very error value and carries the expected variant, (b) rejoins the success "
               "path — no return/exit is reachable from the failing branch before control merges with the success continuation — and (c) for stream "
               "sites feeds the all-zero directory entry (C01/stream-unique). (subwriter-map) each sub-list is attached under its own variant at "
               "the call that fills it; (stream-always) every success path of generate_dump serialises the same list all pushes went to and flushes "
               "its entry, after resume_threads; (no-dontcare) the error-discarding strategy is used only in Drop; (error-turned-success) an Err arm or "
               "or_else closure on the dump path that answers a failed callee with Ok(..) pushes a soft error or is one of 5 reviewed recoveries. The thorough tier repeats the rules "
               "on the cfg(test) build where the five failspot injection points are live.")
TRUSTED = ["serde_json emits well-formed JSON", "error-graph ErrorList/subwriter semantics"]
ASSUMPTIONS = ["naturally induced failures are runtime events; the rule shows every failing branch is soft and reported"]

PD = "linux::ptrace_dumper::PtraceDumper"
GEN = c01.GEN


def callee_in(atom, name_suffix):
    return any(s[0] == "call" and (s[1].endswith(name_suffix)) for s in walk(atom))


def site(caller, what, pred, soft_value, variant):
    return {"caller": caller, "what": what, "pred": pred, "soft": soft_value, "variant": variant}


def discr_of_call(suffix):
    return lambda a: a[0] == "discr" and strip(a[1])[0] == "call" and strip(a[1])[1].endswith(suffix)


def discr_of_write_file(piece):
    def p(a):
        if a[0] != "discr":
            return False
        x = strip(a[1])
        if not (x[0] == "call" and (x[1].endswith("MinidumpWriter::write_file") or x[1].split("::")[-1] == "or_else")):
            return False
        return any(s[0] == "str" and piece in s[1] for s in walk(x))
    return p


SITES = [
    site(PD + "::init", "stop_process", discr_of_call("PtraceDumper::stop_process"), 1, "StopProcessFailed"),
    site(PD + "::init", "try_filling_missing_info", discr_of_call("AuxvDumpInfo::try_filling_missing_info"), 1, "FillMissingAuxvInfoFailed"),
    site(PD + "::init", "enumerate_threads", discr_of_call("PtraceDumper::enumerate_threads"), 1, "EnumerateThreadsFailed"),
    site(PD + "::init", "enumerate_mappings", discr_of_call("PtraceDumper::enumerate_mappings"), 1, "EnumerateMappingsFailed"),
    site(PD + "::enumerate_threads", "task dir entry", lambda a: a[0] == "discr" and strip(a[1])[0] == "call" and strip(a[1])[1].split("::")[-1] == "next" and "ReadDir" in strip(a[1])[1] and False, 1, "ReadProcessThreadEntryFailed"),
    site(PD + "::enumerate_threads", "tid parse", lambda a: a[0] == "discr" and strip(a[1])[0] == "call" and strip(a[1])[1].split("::")[-1] == "and_then", 0, "ProcessTaskEntryNotTid"),
    site(PD + "::enumerate_threads", "thread name", lambda a: a[0] == "discr" and callee_in(a, "fs::read_to_string") and strip(a[1])[0] in ("call", "phi"), 1, "ReadThreadNameFailed"),
    site(PD + "::suspend_threads::{closure#0}", "suspend_thread", discr_of_call("PtraceDumper::suspend_thread"), 1, None),
    site(PD + "::resume_threads", "resume_thread", discr_of_call("PtraceDumper::resume_thread"), 1, None),
    site("linux::sections::systeminfo_stream::write", "write_cpu_information", discr_of_call("write_cpu_information"), 1, "WriteCpuInformationFailed"),
    site("linux::auxv::AuxvDumpInfo::try_filling_missing_info", "auxv pair", lambda a: a[0] == "discr" and strip(a[1])[0] == "call" and strip(a[1])[1].split("::")[-1] == "next" and False, 1, None),
    site(GEN, "cpuinfo", discr_of_write_file("/proc/cpuinfo"), 1, "WriteCpuInfoFailed"),
    site(GEN, "status", discr_of_write_file("/status"), 1, "WriteThreadProcStatusFailed"),
    site(GEN, "os-release", discr_of_write_file("/etc/lsb-release"), 1, "WriteOsReleaseInfoFailed"),
    site(GEN, "cmdline", discr_of_write_file("/cmdline"), 1, "WriteCommandLineFailed"),
    site(GEN, "environ", discr_of_write_file("/environ"), 1, "WriteEnvironmentFailed"),
    site(GEN, "auxv", discr_of_write_file("/auxv"), 1, "WriteAuxvFailed"),
    site(GEN, "maps", discr_of_write_file("/maps"), 1, "WriteMapsFailed"),
    site(GEN, "limits", discr_of_write_file("/limits"), 1, "WriteLimitsFailed"),
    site(GEN, "dso_debug", discr_of_call("write_dso_debug_stream"), 1, "WriteDSODebugStreamFailed"),
    site(GEN, "handle_data", discr_of_call("handle_data_stream::write"), 1, "WriteHandleDataStreamFailed"),
]
# iterator-item sites (`match entry { Err(e) => push; continue }`): the discriminant read is on the item of next()
ITEM_SITES = {
    (PD + "::enumerate_threads", "task dir entry"): lambda a: a[0] == "discr" and a[1][0] == "some" and strip(a[1][1])[0] == "call" and strip(a[1][1])[1].split("::")[-1] == "next",
    ("linux::auxv::AuxvDumpInfo::try_filling_missing_info", "auxv pair"): lambda a: a[0] == "discr" and a[1][0] == "some" and strip(a[1][1])[0] == "call" and strip(a[1][1])[1].split("::")[-1] == "next",
}


def is_push(cv):
    return (cv.short or "").endswith("WriteErrorList::push") or (cv.target or "").endswith("WriteErrorList<E>>::push") or ((cv.short or "").split("::")[-1] == "push" and "WriteErrorList" in (cv.inst or cv.short or ""))


def rule_soft_sites(ctx, R="C11/soft-sites", only=None, floor=21):
    n_ok = 0
    for s in SITES:
        if only is not None and s["what"] not in only:
            continue
        bodies = ctx.prog.by_short.get(s["caller"])
        key = (s["caller"].split("::")[-1] if "closure" not in s["caller"] else s["caller"].split("::")[-2], s["what"])
        if not bodies:
            ctx.violated(R, key + ("anchor",), None, "anchor missing: %s" % s["caller"])
            continue
        b = bodies[0]
        o = Origin(b)
        pred = ITEM_SITES.get((s["caller"], s["what"]), s["pred"])
        hits = []
        for x in range(b.n):
            if b.blocks[x]["cleanup"] or b.term(x)["k"] != "switch":
                continue
            a, _ = switch_atom(b, o, x)
            try:
                if pred(a):
                    hits.append((x, a))
            except Exception:
                pass
        if len(hits) > 1:
            # nested matches re-read the same discriminant (e.g. an inner arm per error kind): the deciding branch is the one that dominates the rest
            dom = [h for h in hits if all(b.dominates(h[0], g[0]) for g in hits)]
            if len(dom) == 1:
                hits = dom
        if len(hits) != 1:
            ctx.violated(R, key + ("anchor",), b.where(0), "anchor lost: expected one branch on the result of %s in %s, found %d" % (s["what"], s["caller"], len(hits)))
            continue
        x, atom = hits[0]
        E = S = None
        for (tgt, lab) in b.succ_edges(x):
            if lab[0] != "sw":
                continue
            if b.term(tgt)["k"] == "unreachable":
                continue
            val = lab[1] if lab[1] != "otherwise" else None
            if val == s["soft"] or (val is None and s["soft"] not in lab[2] and E is None and len([1 for (_, l2) in b.succ_edges(x) if l2[0] == "sw" and l2[1] == s["soft"]]) == 0):
                E = tgt
            else:
                S = tgt
        if E is None or S is None:
            ctx.unproven(R, key + ("branches",), b.where(x), "cannot identify failing/succeeding branch")
            continue
        reachS = b.reachable_from(S, unwind=False)
        reachE = b.reachable_from(E, unwind=False)
        only_e = reachE - reachS
        # (a) a push built from this error on every path through the failing branch
        pushes = []
        for y in only_e | {E}:
            t = b.term(y)
            if t["k"] == "call" and is_push(CalleeView(t["callee"])):
                pushes.append(y)
        joinpts = [y for y in reachE if y in reachS]
        okp = bool(pushes)
        if okp:
            # every path from E to the join passes a push
            for j in joinpts[:1] or []:
                pass
            frontier = {y for y in reachE & reachS if any(p in only_e or p == E for p in b.preds.get(y, ()))}
            w = must_pass(b, E, frontier, set(pushes)) if frontier else None
            okp = w is None
        from_err = False
        variant_ok = s["variant"] is None
        for y in pushes:
            arg = o.call_args(y)[1]
            # the pushed value is built from the error of THIS result
            base = strip(atom[1])
            if any(nosite(q) == nosite(base) or (q[0] in ("errval", "residual") and nosite(strip(q[1])) == nosite(base)) for q in walk(arg)):
                from_err = True
            else:
                # the result may be a phi (e.g. an injected failure or the real call): every alternative's error must be what is pushed
                subs = {nosite(q) for q in walk(arg)}
                subs |= {nosite(strip(q[1])) for q in walk(arg) if q[0] in ("errval", "residual")}
                okall = True
                for x in alts(base):
                    if nosite(x) in subs:
                        continue
                    if x[0] == "agg" and x[2] == "Err" and nosite(dict(x[3])["0"]) in subs:
                        continue
                    okall = False
                from_err = okall and len(alts(base)) > 1
            if s["what"] == "tid parse":
                from_err = any(q[0] == "call" and q[1].split("::")[-1] == "file_name" for q in walk(arg))
            if s["variant"] and any(q[0] == "agg" and q[2] == s["variant"] for q in walk(arg)):
                variant_ok = True
        ctx.check(okp and from_err and variant_ok, R, key + ("reported",), b.where(E),
                  "a failing %s is pushed to the soft-error list%s, built from that error" % (s["what"], " as %s" % s["variant"] if s["variant"] else ""),
                  "a failing %s is not reported as a soft error built from its own error value (push on every path: %s, from the error: %s, variant %s: %s)" % (s["what"], okp, from_err, s["variant"], variant_ok))
        # (b) rejoin: nothing only reachable from the failing branch may leave the function
        ex = Exits(b)
        leaving = [y for y in only_e | ({E} - reachS) if b.term(y)["k"] in ("return",) or y in ex.err_blocks() or (ex.is_result and (y in ex.ok_blocks() or y in ex.pass_blocks()))]
        ctx.check(not leaving and bool(reachE & reachS), R, key + ("continues",), b.where(E), "after a failing %s control rejoins the normal continuation (the remaining steps still run)" % s["what"],
                  "a failing %s can leave %s early at %s" % (s["what"], s["caller"].split("::")[-1], [b.where(y) for y in leaving]))
        n_ok += 1
    ctx.floor(R, "best-effort sites located", n_ok, floor)


SUBWRITERS = [
    ("linux::minidump_writer::MinidumpWriter::dump", "InitErrors", "PtraceDumper::new_report_soft_errors"),
    ("linux::minidump_writer::MinidumpWriter::dump", "SuspendThreadsErrors", "PtraceDumper::suspend_threads"),
    (GEN, "ResumeThreadsErrors", "PtraceDumper::resume_threads"),
    (GEN, "WriteSystemInfoErrors", "systeminfo_stream::write"),
    (PD + "::init", "FillMissingAuxvInfoErrors", "AuxvDumpInfo::try_filling_missing_info"),
    (PD + "::init", "EnumerateThreadsErrors", "PtraceDumper::enumerate_threads"),
]


def rule_subwriter_map(ctx):
    R = "C11/subwriter-map"
    n = 0
    for caller, variant, callee in SUBWRITERS:
        b = ctx.body(R, caller)
        if b is None:
            continue
        o = Origin(b)
        found = False
        for x, t in b.calls(lambda c: (c.short or "").endswith(callee)):
            for a in o.call_args(x):
                for s in walk(a):
                    if s[0] == "call" and s[1].split("::")[-1] == "subwriter" and any(q[0] == "fn" and q[1].endswith("::" + variant) for q in walk(s)):
                        found = True
                        others = [q[1].split("::")[-1] for q in walk(s) if q[0] == "fn"]
        n += 1
        ctx.check(found, R, (caller.split("::")[-1], variant), b.where(0), "%s receives the sub-list attached under %s" % (callee.split("::")[-1], variant),
                  "%s is not given a subwriter tagged %s" % (callee, variant))
    ctx.floor(R, "subwriter attachments", n, 6)
    # init forwards its list into new_report_soft_errors -> init
    nb = ctx.body(R, PD + "::new_report_soft_errors")
    if nb is not None:
        no = Origin(nb)
        for x, t in nb.calls(lambda c: c.is_(PD + "::init")):
            a = no.call_args(x)
            ctx.check(a[2] == ("param", 4), R, "init-gets-list", nb.where(x), "init() pushes into the list handed to new_report_soft_errors", "init() is given %s" % show(a[2])[:80])


def rule_stream_always(ctx):
    R = "C11/stream-always"
    b = ctx.body(R, GEN)
    if b is None:
        return
    o = Origin(b)
    ws = [x for x, t in b.calls(lambda c: (c.short or "").endswith("minidump_writer::write_soft_errors"))]
    ctx.floor(R, "write_soft_errors call", len(ws), 1)
    ex = Exits(b)
    for ob in ex.ok_blocks():
        w = must_pass(b, 0, {ob}, set(ws))
        ctx.check(w is None, R, "on-every-success-path", b.where(ws[0]) if ws else None, "every success path serialises the soft-error list", "a success path skips the soft-error stream")
    for x in ws:
        a = o.call_args(x)
        ctx.check(root(strip(a[1])) == ("param", 4), R, "same-list", b.where(x), "the serialised list is the one handed to generate_dump (all pushes and subwriters hang off it)", "the serialised list is %s" % show(a[1])[:100])
        # followed by its flush
        flushes = [y for y, t in b.calls(lambda c: c.is_(c01.W2F)) if witness_path(b, x, {y})]
        ctx.check(len(flushes) >= 1 and all(must_pass(b, x, {ob}, set(flushes)) is None for ob in ex.ok_blocks()), R, "flushed", b.where(x), "the soft-error entry is flushed before returning", "the soft-error stream is not flushed on every success path")
        res = [y for y, t in b.calls(lambda c: c.is_(PD + "::resume_threads"))]
        ctx.check(bool(res) and all(b.dominates(r, x) for r in res), R, "after-resume", b.where(x), "resume errors are collected before the list is serialised", "the list is serialised before resume_threads")
        # all pushes in generate_dump happen before serialisation
        late = []
        for y, t in b.calls(lambda c: is_push(c)):
            if witness_path(b, x, {y}):
                late.append(b.where(y))
        ctx.check(not late, R, "no-late-push", b.where(x), "no soft error is pushed after the list was serialised", "soft errors pushed after serialisation: %s" % late)
    # dump() hands the list it created (and filled) to generate_dump
    d = ctx.body(R, "linux::minidump_writer::MinidumpWriter::dump")
    if d is not None:
        do = Origin(d)
        for x, t in d.calls(lambda c: c.is_(GEN)):
            a = do.call_args(x)
            l = strip(a[3])
            ctx.check(l[0] == "call" and l[1].endswith("Default>::default") or (l[0] == "call" and l[1].split("::")[-1] == "default"), R, "dump-list", d.where(x), "generate_dump receives the list created at the top of dump()", "generate_dump receives %s" % show(l)[:80])
    # write_soft_errors serialises its argument with serde_json and returns the location of those bytes
    wb = ctx.body(R, "linux::minidump_writer::write_soft_errors")
    if wb is not None:
        from engine.summ import return_origins
        outs = return_origins(ctx.prog, wb.short) or []
        ok = bool(outs)
        for e in outs:
            e = strip(e)
            ok = ok and e[0] == "call" and e[1].endswith("MemoryArrayWriter::location") and any(s[0] == "call" and s[1].endswith("write_bytes") for s in walk(e)) and any(s[0] == "call" and "serde_json" in s[1] and root(strip(s[2][0])) == ("param", 2) for s in walk(e))
        ctx.check(ok, R, "json-of-list", wb.where(0), "the stream is serde_json of the list, appended as bytes", "write_soft_errors returns %s" % [show(e)[:100] for e in outs])


def rule_no_dontcare(ctx):
    R = "C11/no-dontcare"
    users = []
    for b in ctx.prog.bodies:
        for bi, blk in enumerate(b.blocks):
            for si, st in enumerate(blk["stmts"]):
                if st["k"] == "assign" and st["r"]["k"] == "agg" and st["r"].get("ak") == "adt" and norm(st["r"]["adt"]).endswith("strategy::DontCare"):
                    users.append((b.short, b.where(bi, si)))
    allowed = "<%s as std::ops::Drop>::drop" % PD
    bad = [u for u in users if u[0] != allowed]
    # (no user at all is fine: nothing is discarded through the strategy — Drop may spell its clean-up out, C03/drop-resumes)
    ctx.check(not bad, R, "only-in-drop", users[0][1] if users else None, "the error-discarding strategy is used only in PtraceDumper::drop (%d site)" % len(users), "errors are discarded outside Drop: %s" % bad)


# functions that implement the best-effort steps (the callees whose Result the soft sites branch on)
STEP_ROOTS = [PD + "::stop_process", "linux::auxv::AuxvDumpInfo::try_filling_missing_info", PD + "::enumerate_threads", PD + "::enumerate_mappings",
              PD + "::suspend_thread", PD + "::resume_thread", "linux::dumper_cpu_info::x86_mips::write_cpu_information",
              "linux::minidump_writer::MinidumpWriter::write_file", "linux::dso_debug::write_dso_debug_stream", "linux::sections::handle_data_stream::write"]


def rule_steps_total(ctx):
    """a best-effort step can only fail softly if it fails by returning: the C02 panic ledgers restricted to what the step
    functions reach (a panic inside a step unwinds out of dump() instead of becoming a soft error)"""
    R = "C11/steps-total"
    from engine import taint as T
    from rules import c02
    prog = ctx.prog
    roots = [r for r in STEP_ROOTS if r in prog.by_short]
    for r in STEP_ROOTS:
        if r not in prog.by_short:
            ctx.violated(R, ("anchor", r.split("::")[-1]), None, "anchor missing: best-effort step function %s" % r)
    own = prog.reachable(roots)
    taint = T.Taint(prog, c02.ENTRIES)
    st = c02.ledger(ctx, taint, R, scope=lambda f: f in own)
    c02.rule_explicit_panic(ctx, taint, rule=R + "-explicit", scope=lambda f: f in own)
    ctx.analysed["steps_total"] = {"step_functions": len(roots), "reachable_functions": len(own), "panic_sinks": st}
    ctx.floor(R, "functions reachable from the best-effort steps", len(own), 30)
    ctx.floor(R, "panic sinks examined inside best-effort steps", st["total"], 40)


def _root_local(b, o, operand, at, hops=8):
    """the local a (moved/copied/reborrowed) operand ultimately denotes, or None when definitions disagree"""
    if operand["k"] not in ("copy", "move") or operand["p"]["proj"]:
        return operand["p"]["l"] if operand["k"] in ("copy", "move") and all(p_["k"] == "deref" for p_ in operand["p"]["proj"]) else None
    l = operand["p"]["l"]
    for _ in range(hops):
        defs = o._reaching(l, (), at)
        if len(defs) != 1 or defs[0][0] != "full":
            return l if (len(defs) == 1 and defs[0][0] in ("call", "param")) else (None if len(defs) > 1 else l)
        r = defs[0][3]["r"]
        at = (defs[0][1], defs[0][2])
        if r["k"] == "use" and r["o"]["k"] in ("copy", "move") and not r["o"]["p"]["proj"]:
            l = r["o"]["p"]["l"]
        elif r["k"] == "ref" and all(p_["k"] == "deref" for p_ in r["p"]["proj"]):
            l = r["p"]["l"]
        else:
            return l
    return l


def rule_partial_results_kept(ctx, R="C11/partial-results-kept"):
    """'all other streams intact' when reading CPU information fails: the system-info record that is written is the very object the
    failing step was filling (what it stored before failing — the processor architecture, which every reader needs to decode the
    thread contexts — survives), and that store precedes everything in the step that can fail"""
    b = ctx.body(R, "linux::sections::systeminfo_stream::write")
    if b is not None:
        o = Origin(b)
        wc = [bi for bi, t in b.calls(lambda c: (c.short or "").endswith("write_cpu_information"))]
        sv = [bi for bi, t in b.calls(lambda c: c.short == "mem_writer::MemoryWriter::set_value")]
        ctx.floor(R, "write_cpu_information call", len(wc), 1)
        ctx.floor(R, "set_value of the system-info record", len(sv), 1)
        if wc and sv:
            filled = _root_local(b, o, b.term(wc[0])["args"][0], (wc[0], "term"))
            written = _root_local(b, o, b.term(sv[0])["args"][2], (sv[0], "term"))
            ctx.check(filled is not None and filled == written, R, "same-record", b.where(sv[0]),
                      "the record written to the stream is the object write_cpu_information was given (fields it set before failing are kept)",
                      "the record written to the stream is not the object the CPU-information step filled (a scratch copy is committed only on success): after a failure "
                      "the fields the step always sets — processor_architecture — are lost and no reader can decode the thread contexts")
    w = ctx.body(R, "linux::dumper_cpu_info::x86_mips::write_cpu_information")
    if w is not None:
        ex = Exits(w)
        stores = [(bi, si) for bi, blk in enumerate(w.blocks) if not blk["cleanup"] for si, st in enumerate(blk["stmts"])
                  if st["k"] == "assign" and st["p"]["proj"] and st["p"]["proj"][-1].get("n") == "processor_architecture"]
        ctx.floor(R, "store to processor_architecture", len(stores), 1)
        if stores:
            sb = stores[0][0]
            bad = [w.where(eb) for eb in sorted(ex.err_blocks()) if not w.dominates(sb, eb)]
            ctx.check(not bad, R, "arch-before-failures", w.where(sb, stores[0][1]), "processor_architecture is stored before every point where the step can fail",
                      "the step can fail (%s) before processor_architecture is stored" % bad[:2])


# foreign types whose serde::Serialize implementation can return an error for some values
FALLIBLE_SER = [
    (r"std::path::Path(Buf)?\b", "serde fails on a path that is not valid UTF-8"),
    (r"std::time::SystemTime\b", "serde fails on a time before the UNIX epoch"),
    (r"std::cell::RefCell\b", "serde fails when the cell is mutably borrowed"),
    (r"std::sync::(Mutex|RwLock)\b", "serde fails on a poisoned lock"),
]
# variants that carry such a type but whose values never enter a soft-error list: variant -> (functions that may construct it, why that is harmless)
FALLIBLE_SER_REVIEWED = {
    ("linux::errors::MapsReaderError", "SymlinkError"): ((), "never constructed"),
    ("linux::errors::ModuleReaderError", "MapFile"): (("linux::module_reader::ReadFromModule::read_from_file",),
                                                      "read_from_file's only caller (the module-list fallback) logs the error and uses an empty id"),
}
READ_FROM_FILE_CALLERS = ("linux::sections::mappings::write",)


def rule_soft_errors_serialisable(ctx, R="C11/serialisable"):
    """generate_dump writes the stream from serde_json::to_string_pretty(list) and drops the stream when that fails
    (`.unwrap_or_default()`): with a String sink serde_json fails only when a Serialize implementation reports an error.  So nothing that
    can sit in a soft-error list may have a fallible Serialize: no fallible foreign type among the fields of the error types, no custom
    error or delegation to such a type in the crate's own `serialize_with` helpers."""
    import re
    prog = ctx.prog
    fall = [(re.compile(rx), why) for rx, why in FALLIBLE_SER]
    root = "linux::minidump_writer::write_soft_errors"
    if root not in prog.by_short:
        ctx.violated(R, ("anchor", "write_soft_errors"), None, "anchor missing: %s" % root)
        return
    wb = prog.by_short[root][0]
    ser = [(bi, CalleeView(t["callee"])) for bi, t in wb.calls(lambda c: (c.short or "").startswith("serde_json::to_"))]
    ctx.floor(R, "serde_json call in write_soft_errors", len(ser), 1)
    # ---- type closure from the element type of the list
    seen, todo = set(), []
    for bi, cv in ser:
        for name in prog.adts:
            if name in (cv.inst or ""):
                todo.append(name)
    while todo:
        n = todo.pop()
        if n in seen:
            continue
        seen.add(n)
        for v in prog.adts[n].get("variants", []):
            for f in v.get("fields", []):
                for name in prog.adts:
                    if name in f["ty"] and name not in seen:
                        todo.append(name)
    ctx.floor(R, "error types that can sit in the soft-error list", len(seen), 25)
    constructed = {}
    for b in prog.bodies:
        for blk in b.blocks:
            for st in blk["stmts"]:
                if st["k"] == "assign" and st["r"]["k"] == "agg" and st["r"].get("ak") == "adt" and st["r"].get("vname"):
                    constructed.setdefault((norm(st["r"]["adt"]), st["r"]["vname"]), set()).add(b.short.split("::{closure")[0])
    nf = 0
    for n in sorted(seen):
        for v in prog.adts[n].get("variants", []):
            for f in v.get("fields", []):
                nf += 1
                hit = [why for rx, why in fall if rx.search(f["ty"])]
                if not hit:
                    continue
                key = (n.split("::")[-1], v["name"], f["name"])
                rev = FALLIBLE_SER_REVIEWED.get((n, v["name"]))
                made = constructed.get((n, v["name"]), set())
                if rev is not None and made <= set(rev[0]):
                    ctx.ok(R, ("field",) + key, None, "%s::%s.%s is a %s (%s) — reviewed: %s; constructed only in %s" % (key + (f["ty"], hit[0], rev[1], sorted(made) or "no function")))
                else:
                    ctx.violated(R, ("field",) + key, None, "%s::%s.%s is a %s: %s, and then the whole soft-error stream is dropped (constructed in %s)" % (key + (f["ty"], hit[0], sorted(made))))
    ctx.floor(R, "fields of soft-error types examined", nf, 100)
    # the reviewed exception for MapFile leans on who calls read_from_file
    cg, _ = prog.callgraph()
    callers = sorted({f.split("::{closure")[0] for f, cs in cg.items() if any(c.endswith("ReadFromModule>::read_from_file") or c.endswith("ReadFromModule::read_from_file") for c in cs)})
    ctx.check(set(callers) <= set(READ_FROM_FILE_CALLERS), R, "read_from_file-callers", None, "read_from_file is only called by the module-list fallback, which logs its error",
              "read_from_file (whose error carries a PathBuf) has a new caller: %s" % [c for c in callers if c not in READ_FROM_FILE_CALLERS])
    # ---- the crate's own serialize_with helpers and everything else serde calls back into
    scope = prog.reachable([root])
    helpers = sorted(f for f in scope if f.split("::")[-1].startswith("serialize_") and "serializers" in f)
    ctx.floor(R, "serialize_with helpers reachable from the soft-error writer", len(helpers), 8)
    n_calls = 0
    for f in sorted(scope):
        derived = "_serde::Serialize for" in f
        for b in prog.by_short.get(f, ()):
            for bi, t in b.calls():
                cv = CalleeView(t["callee"])
                if cv.local:
                    continue
                inst = cv.inst or ""
                n_calls += 1
                fk = f.split("::{closure")[0].split("::")[-1] if not derived else f.split(" for ")[-1].split(">")[0].split("::")[-1]
                if (cv.target or "").endswith("ser::Error::custom"):
                    ctx.violated(R, ("custom-error", fk), b.where(bi), "%s can report a serialisation error of its own: the whole soft-error stream is dropped when it does" % fk)
                    continue
                if derived:
                    continue    # field types of derived implementations are covered by the type closure above
                if "serde" not in inst:
                    continue
                hit = [why for rx, why in fall if rx.search(inst)]
                if hit:
                    ctx.violated(R, ("delegates", fk), b.where(bi), "%s serialises through %s: %s, and then the whole soft-error stream is dropped" % (fk, inst[:100], hit[0]))
    ctx.ok(R, "helpers-total", None, "%d foreign calls in %d functions reachable from the soft-error writer: no custom serialisation error, no fallible foreign Serialize" % (n_calls, len(scope)), nontrivial=False)


def rule_serialisers_total(ctx, R="C11/serialisers-total"):
    """a recorded failure must still be serialisable when the dump is finished: the C02 panic ledgers restricted to what the soft-error
    writer reaches through serde's callbacks (a panic there unwinds out of dump() after all the work is done)"""
    from engine import taint as T
    from rules import c02
    prog = ctx.prog
    root = "linux::minidump_writer::write_soft_errors"
    if root not in prog.by_short:
        ctx.violated(R, ("anchor", "write_soft_errors"), None, "anchor missing: %s" % root)
        return
    own = prog.reachable([root])
    taint = T.Taint(prog, c02.ENTRIES)
    st = c02.ledger(ctx, taint, R, scope=lambda f: f in own)
    c02.rule_explicit_panic(ctx, taint, rule=R + "-explicit", scope=lambda f: f in own)
    helpers = [f for f in own if f.split("::")[-1].startswith("serialize_") and "serializers" in f]
    ctx.floor(R, "serialize_with helpers reachable from the soft-error writer", len(helpers), 8)
    ctx.floor(R, "functions reachable from the soft-error writer", len(own), 100)
    ctx.ok(R, "sinks", None, "panic sinks examined in the serialisation of soft errors: %s" % st, nontrivial=False)


SWALLOWERS = ("ok", "into_iter", "unwrap_or", "unwrap_or_default", "unwrap_or_else", "flatten", "is_ok", "is_err", "iter", "map_or", "map_or_else", "is_ok_and", "err", "unwrap", "expect")
# every place on the dump path where a Result is consumed by something that drops its error, with the reason that is harmless.
# key: (function, callee, consumer)
REVIEWED_DISCARDS = {
    ("CrashContext>::fill_cpu_context", "pwrite_with", "expect"): "serialising into a local array of the exact size cannot fail (C02 reviewed site)",
    ("ThreadInfoX86::fill_cpu_context", "pwrite_with", "expect"): "serialising into a local array of the exact size cannot fail (C02 reviewed site)",
    ("dumper_cpu_info::os_information", "uname", "map_or_else"): "the OS version string falls back to a fixed text; the stream is still written",
    ("MappingInfo::get_mapping_effective_path_name_and_version", "so_name", "ok"): "a file-based SONAME is optional: the file name is used instead",
    ("SoVersion::parse", "parse", "unwrap_or_default"): "a non-numeric version component counts as 0",
    ("MinidumpWriter::generate_dump", "map", "unwrap_or_default"): "the soft-error stream itself: nothing is left to report to (C11/serialisable shows it cannot fail by serialisation)",
    ("PtraceDumper::enumerate_threads", "parse", "ok"): "a task entry that is not a number is reported as ProcessTaskEntryNotTid (C11/soft-sites `tid parse`)",
    ("handle_data_stream::direntry_to_descriptor", "read_link", "ok"): "one descriptor whose link cannot be read (closed meanwhile) is skipped; the listing as a whole has succeeded",
    ("handle_data_stream::direntry_to_descriptor", "write_string_to_location", "ok"): "one descriptor is skipped",
    ("handle_data_stream::file_stat", "new", "ok"): "a /proc path never contains a NUL; the descriptor is skipped",
    ("handle_data_stream::filename_to_fd", "parse", "ok"): "an entry of /proc/<pid>/fd that is not a number is skipped",
    ("mappings::write", "from_process_memory_for_index", "ok"): "the SONAME is optional: the mapping's file name is used",
    ("mappings::write", "or_else", "unwrap_or_else"): "a module whose build id cannot be read is logged and listed without an id / skipped as uninteresting (C08)",
}


def rule_discarded_results(ctx, R="C11/discarded-results"):
    """error discipline on the dump path: a failure can only be reported (hard or soft) if the Result that carries it is looked at.
    Every call whose Result is handed straight to something that drops the error (`.ok()`, `.into_iter().flatten()`, `unwrap_or*`,
    `map_or*`, ...) must be one of the reviewed places; anything else makes a failed step look like an empty success."""
    prog = ctx.prog
    reach = prog.reachable(["linux::minidump_writer::MinidumpWriter::dump"])
    n_calls = n_sw = 0
    seen = set()
    for f in sorted(reach):
        if "_serde" in f:
            continue
        for b in prog.by_short.get(f, ()):
            o = None
            for bi, t in b.calls():
                d = t.get("dest")
                if not d or d["proj"]:
                    continue
                ty = b.locals[d["l"]]["ty"]
                if not (ty.startswith("std::result::Result<") or ty.startswith("std::io::Result")):
                    continue
                if ty.replace(" ", "") == "std::result::Result<usize,usize>":
                    continue    # binary_search & co: both sides are positions, neither is a failure
                n_calls += 1
                o = o or Origin(b)
                me = nosite(o.call_expr(bi))
                for bj, t2 in b.calls():
                    if bj == bi:
                        continue
                    a = o.call_args(bj)
                    x = a[0] if a else None
                    while x is not None and x[0] == "conv":
                        x = x[1]
                    if x is None or nosite(x) != me:
                        continue
                    cons = (CalleeView(t2["callee"]).short or "?").split("::")[-1]
                    if cons not in SWALLOWERS:
                        continue
                    n_sw += 1
                    fk = "::".join(f.split("::{closure")[0].split("::")[-2:])
                    key = (fk, (CalleeView(t["callee"]).short or "?").split("::")[-1], cons)
                    why = REVIEWED_DISCARDS.get(key)
                    if key in seen and why:
                        continue
                    seen.add(key)
                    ctx.check(why is not None, R, key, b.where(bi), "reviewed: %s" % why,
                              "the Result of %s is consumed by %s() in %s: its error is dropped, a failure here looks like an empty success and is reported nowhere" % (key[1], cons, fk))
    # the same thing spelled point-free: `iter.map_while(Result::ok)`, `.filter_map(Result::ok)`, `.flat_map(Result::ok)` hand every
    # item's error to a swallower passed as a function item
    for f in sorted(reach):
        if "_serde" in f:
            continue
        for b in prog.by_short.get(f, ()):
            for bi, t in b.calls():
                for a in t.get("args", []):
                    fn = a.get("fn") if isinstance(a, dict) and a.get("k") == "const" else None
                    if not fn or not fn.startswith("std::result::Result::<") or fn.split("::")[-1] not in SWALLOWERS:
                        continue
                    n_sw += 1
                    fk = "::".join(f.split("::{closure")[0].split("::")[-2:])
                    adaptor = (CalleeView(t["callee"]).short or "?").split("::")[-1]
                    key = (fk, adaptor, "fn:" + fn.split("::")[-1])
                    why = REVIEWED_DISCARDS.get(key)
                    seen.add(key)
                    ctx.check(why is not None, R, key, b.where(bi), "reviewed: %s" % why,
                              "%s(Result::%s) in %s drops the error of every item it is applied to: a failure here (an unreadable line, a failed entry) looks like the end of the data and is reported nowhere" % (adaptor, fn.split("::")[-1], fk))
    ctx.floor(R, "Result-returning calls on the dump path", n_calls, 200)
    ctx.floor(R, "reviewed discards found", n_sw, 8)
    stale = [k for k in REVIEWED_DISCARDS if k not in seen]
    ctx.ok(R, "table", None, "%d of %d reviewed entries matched%s" % (len(REVIEWED_DISCARDS) - len(stale), len(REVIEWED_DISCARDS), (" (unused: %s)" % stale) if stale else ""), nontrivial=False)



# every place on the dump path where a FAILED attempt is answered with a success value — an `Err(..)` arm (or an `or_else` closure) that
# produces `Ok(..)`.  key: (function, callee whose Result is matched) — the spelling (match arm / or_else closure) is not part of it
REVIEWED_RECOVERIES = {
    ("<linux::module_reader::BuildId as linux::module_reader::ReadFromModule>::read_from_module", "build_id_from_program_headers"):
        "the next source of the build id (section note, then the text-page hash) is tried; all three failing is returned as the combined error",
    ("<linux::module_reader::BuildId as linux::module_reader::ReadFromModule>::read_from_module", "build_id_from_section"):
        "the text-page hash is tried next; its failure is returned together with the two earlier errors",
    ("<linux::module_reader::SoName as linux::module_reader::ReadFromModule>::read_from_module", "soname_from_program_headers"):
        "the section-based lookup is tried next; both failing is returned as the combined error",
    ("linux::mem_reader::MemReader::read", "vmem"):
        "the next read strategy (/proc/<pid>/mem, then ptrace) is tried; the last one's error is returned (C17/probing-exhaustive)",
    ("linux::ptrace_dumper::ptrace_detach", "detach"):
        "ESRCH from PTRACE_DETACH means the thread is gone: there is nothing left to resume (C03/attach-detach)",
}


def rule_error_turned_success(ctx, R="C11/error-turned-success"):
    """`every failure is reported`: a function on the dump path that looks at a callee's Result and answers the Err case with an Ok value
    of its own makes that failure invisible to every caller — the step looks as if it had succeeded (with an empty or default result) and
    no soft error is recorded.  The places where a failed attempt is legitimately followed by another attempt are listed and reviewed;
    any other `Err(..) => Ok(..)` arm or `or_else(|e| Ok(..))` closure on the dump path is reported."""
    prog = ctx.prog
    reach = prog.reachable(["linux::minidump_writer::MinidumpWriter::dump"])

    def is_res(ty):
        return ty.startswith("std::result::Result<") or ty.startswith("std::io::Result")

    def assigns_ok(b, blocks):
        for x in blocks:
            for st in b.blocks[x]["stmts"]:
                if st["k"] == "assign" and st["p"]["l"] == 0 and not st["p"]["proj"] and st["r"]["k"] == "agg" and st["r"].get("vname") == "Ok" \
                        and norm(st["r"].get("adt") or "") == "std::result::Result":
                    return x
        return None
    seen = set()
    n_sw = 0
    for f in sorted(reach):
        if "_serde" in f:
            continue
        for b in prog.by_short.get(f, ()):
            fk = f.split("::{closure")[0]
            if is_res(b.locals[0]["ty"]):
                for bi, blk in enumerate(b.blocks):
                    t = blk["term"]
                    if t["k"] != "switch" or "p" not in t["o"]:
                        continue
                    src = None
                    for (x, si, kind, st) in b.defs.get(t["o"]["p"]["l"], ()):
                        if kind == "assign" and st["r"]["k"] == "discr":
                            src = st["r"]["p"]
                    if src is None or src["proj"] or not is_res(b.locals[src["l"]]["ty"]):
                        continue
                    n_sw += 1
                    errt = [tt for v, tt in t["targets"] if v == 1]
                    if not errt and any(v == 0 for v, tt in t["targets"]):
                        errt = [t["otherwise"]]
                    for e in errt:
                        region = [y for y in range(b.n) if b.dominates(e, y)]
                        x = assigns_ok(b, region)
                        if x is None:
                            continue
                        if any(b.term(y)["k"] == "call" and is_push(CalleeView(b.term(y)["callee"])) for y in region):
                            continue      # the failure is recorded as a soft error before the step goes on
                        cal = sorted({(CalleeView(st2["callee"]).short or "?").split("::")[-1] for (x2, si2, k2, st2) in b.defs.get(src["l"], ()) if k2 == "call"}) or ["?"]
                        key = (fk, cal[0])
                        why = REVIEWED_RECOVERIES.get(key)
                        if key in seen and why:
                            continue
                        seen.add(key)
                        ctx.check(why is not None, R, key, b.where(x), "reviewed: %s" % why,
                                  "%s answers a failed %s() with Ok(..): the failure is reported nowhere and the callers take the step for a success" % (fk, cal[0]))
            for bi, t in b.calls():
                cv = CalleeView(t["callee"])
                if not ((cv.short or "").startswith("std::result::Result") and cv.short.split("::")[-1] == "or_else"):
                    continue
                n_sw += 1
                o = Origin(b)
                a = o.call_args(bi)
                clo = [q for q in walk(a[1]) if q[0] == "closure"] if len(a) > 1 else []
                recv = [q for q in walk(a[0]) if q[0] == "call"] if a else []
                for q in clo:
                    for cb in prog.by_short.get(q[1], ()):
                        x = assigns_ok(cb, range(cb.n))
                        if x is None:
                            continue
                        key = (fk, recv[0][1].split("::")[-1] if recv else "?")
                        why = REVIEWED_RECOVERIES.get(key)
                        seen.add(key)
                        ctx.check(why is not None, R, key, cb.where(x), "reviewed: %s" % why,
                                  "%s recovers from a failed %s() with or_else(|e| .. Ok(..)): the failure is reported nowhere" % (fk, key[1]))
    ctx.floor(R, "matches on a Result / or_else calls on the dump path", n_sw, 40)
    stale = [k for k in REVIEWED_RECOVERIES if k not in seen]
    ctx.check(not stale, R, "table", None, "all %d reviewed recoveries matched" % len(REVIEWED_RECOVERIES), "reviewed recoveries no longer found (anchor lost): %s" % stale, nontrivial=False)


INIT_STEPS = ("PtraceDumper::stop_process", "AuxvDumpInfo::try_filling_missing_info", "PtraceDumper::enumerate_threads", "PtraceDumper::enumerate_mappings")


def rule_every_step_attempted(ctx, R="C11/every-step-attempted"):
    """`every other stream is still produced as if the failure had not happened`: the outcome of one best-effort step never decides
    whether another one runs — each of the four preparation steps of PtraceDumper::init is called on every path through init (a step
    skipped because an earlier one failed "so it cannot work anyway" costs everything that depends on it)."""
    b = ctx.body(R, PD + "::init")
    if b is None:
        return
    rets = [i for i in range(b.n) if b.term(i)["k"] == "return"]
    for step in INIT_STEPS:
        calls = [bi for bi, t in b.calls(lambda c: (c.short or "").endswith(step) or (c.target or "").endswith(step))]
        ctx.floor(R, "calls of %s in init" % step.split("::")[-1], len(calls), 1)
        skipped = [r for r in rets if calls and must_pass(b, 0, {r}, set(calls)) is not None]
        ctx.check(bool(calls) and not skipped, R, ("unconditional", step.split("::")[-1]), b.where(calls[0]) if calls else None,
                  "%s runs on every path through init" % step.split("::")[-1],
                  "%s can be skipped: a path through PtraceDumper::init does not call it (whatever the earlier steps reported, the later ones must still be tried)" % step.split("::")[-1])


AUXV_OWN_STEP = ("linux::dso_debug::write_dso_debug_stream",)


def _tests_auxv_presence(a):
    """the atom is the presence test of an auxv getter's result, directly or through Option/Result adapters (a condition on what a
    later call makes of the value, e.g. a failed conversion of a value that IS there, is not)"""
    e = strip(a)
    for _ in range(12):
        if not isinstance(e, tuple) or not e:
            return False
        if e[0] == "call" and "AuxvDumpInfo::get_" in e[1]:
            return True
        if e[0] in ("discr", "try", "okval", "some", "residual", "ref", "deref") and len(e) > 1:
            e = strip(e[1])
        elif e[0] == "call" and e[1].split("::")[-1] in ("map", "copied", "cloned", "ok_or", "ok_or_else", "as_ref", "and_then", "branch", "filter", "is_some", "is_none", "ok", "map_err", "unwrap_or", "unwrap_or_default") and e[2]:
            e = strip(e[2][0])
        else:
            return False
    return False


def rule_absent_auxv_tolerated(ctx, R="C11/absent-auxv-tolerated"):
    """`absent auxv values ... it still succeeds with all other streams intact`: an auxv value is optional everywhere it is consumed.
    Outside the linker-debug step (whose own failure is a reported soft error), no failure exit of a function that asks AuxvDumpInfo
    for a value is conditioned on that value being there: a target without AT_SYSINFO_EHDR (vdso=0, gVisor, qemu-user) or AT_ENTRY
    still gets its mappings, and with them its modules, stacks and memory list."""
    from engine.paths import conditions
    n = 0
    for b in ctx.prog.bodies:
        if b.short.startswith("bin::") or "::tests::" in b.short or "::test::" in b.short:
            continue
        sites = list(b.calls(lambda c: "AuxvDumpInfo::get_" in (c.short or "")))
        if not sites:
            continue
        fn = b.short.split("::{closure")[0]
        if fn in AUXV_OWN_STEP:
            ctx.ok(R, ("own-step", fn.split("::")[-1]), b.where(sites[0][0]), "%s consumes auxv values inside its own best-effort step (a missing value is that step's reported soft error)" % fn.split("::")[-1], nontrivial=False)
            continue
        o = Origin(b)
        ex = Exits(b)
        n += len(sites)
        bad = []
        for eb in sorted(ex.err_blocks()):
            dnf = conditions(b, eb, origin=o, relevant=_tests_auxv_presence)
            for c in dnf or []:
                for (q, v) in c:
                    bad.append((b.where(eb), show(q)[:80]))
        ctx.check(not bad, R, ("consumer", fn.split("::")[-1]), b.where(sites[0][0]), "%s fails for no reason that depends on an auxv value being present" % fn.split("::")[-1],
                  "%s gives up (%s) depending on %s: a target whose auxv lacks the value loses everything this function produces, although the dump still reports success" % (fn.split("::")[-1], bad[0][0] if bad else "", bad[0][1] if bad else ""))
    ctx.floor(R, "consumers of optional auxv values outside the linker-debug step", n, 2)


def rule_complete_auxv_needs_no_file(ctx, R="C11/complete-auxv-needs-no-file"):
    """`an empty list when nothing failed`: when the caller supplied every auxv value (set_direct_auxv_dump_info — the documented remedy
    for an unreadable /proc/<pid>/auxv) there is nothing to complete, so nothing can fail: every failure exit of
    try_filling_missing_info and every soft error it pushes lies behind `!self.is_complete()`.  (Otherwise a flawless dump of a
    sandboxed target lists FillMissingAuxvInfoFailed although no value was missing.)"""
    from engine.paths import conditions
    b = ctx.body(R, "linux::auxv::AuxvDumpInfo::try_filling_missing_info")
    if b is None:
        return
    o = Origin(b)
    ex = Exits(b)

    def rel(a):
        a = core(a)
        return a[0] == "call" and a[1] == "linux::auxv::AuxvDumpInfo::is_complete"
    targets = [(eb, "failure exit") for eb in sorted(ex.err_blocks())]
    targets += [(x, "soft error") for x, t in b.calls(lambda c: is_push(c))]
    ctx.floor(R, "failure exits and soft-error pushes in try_filling_missing_info", len(targets), 2)
    for x, what in targets:
        dnf = conditions(b, x, origin=o, relevant=rel)
        ok = bool(dnf) and all(any(v == 0 for (q, v) in c) for c in dnf)
        ctx.check(ok, R, (what, "behind-incomplete"), b.where(x), "reached only when the information is incomplete",
                  "a %s of try_filling_missing_info can be reached although every value was supplied (no `!is_complete()` on the way): the step reports a failure of completing information that needed no completing" % what)


def rule_stop_state_source(ctx, R="C11/stop-state-source"):
    """`lists each failure that occurred ... an empty list when nothing failed` for the stop step: stop_process reports success exactly
    when the kernel says the process is stopped.  The state it waits for is `Stat::state()` of procfs's own parser applied to
    /proc/<pid>/stat (which finds the comm field by its LAST `)`: the name is printed unescaped and may contain `) S`), compared with
    ProcState::Stopped, and that test governs the only Ok exit."""
    from rules.c18 import literal_pieces
    b = ctx.body(R, "linux::ptrace_dumper::PtraceDumper::stop_process")
    if b is None:
        return
    o = Origin(b)
    oks = sorted(Exits(b).ok_blocks())
    ctx.floor(R, "success exits of stop_process", len(oks), 1)
    for k, ob in enumerate(oks):
        dnf = conditions(b, ob, origin=o, relevant=lambda a: a[0] == "discr" and any(q[0] == "call" and q[1].split("::")[-1] == "state" for q in walk(a)))
        good = bool(dnf)
        for c in dnf or []:
            hit = False
            for (a, v) in c:
                st = [q for q in walk(a) if q[0] == "call" and q[1] == "procfs_core::process::Stat::state"]
                src = [q for q in walk(a) if q[0] == "call" and q[1] in ("procfs_core::FromRead::from_file", "procfs_core::FromRead::from_read", "procfs_core::FromBufRead::from_buf_read")]
                inner = a[1] if len(a) > 1 else None
                on_value = isinstance(inner, tuple) and inner and inner[0] == "okval" and strip(inner)[0] == "call" and strip(inner)[1] == "procfs_core::process::Stat::state"
                if st and src and sorted(literal_pieces(src[0])) == ["/proc/", "/stat"] and any(z == ("field", ("param", 1), "pid") for z in walk(src[0])) and on_value and v == PROCSTATE_STOPPED:
                    hit = True
            good = good and hit
        ctx.check(good, R, ("ok-exit", k + 1), b.where(ob), "stop_process succeeds only when Stat::state() of /proc/<pid>/stat is Stopped",
                  "stop_process can report success (or keep waiting) on something other than procfs's parsed state of /proc/<pid>/stat == Stopped: a hand-made parse of the stat line mistakes a `)` inside the process name for the end of the comm field")


# procfs_core::process::ProcState (foreign enum, variants in declaration order: Running, Sleeping, Waiting, Zombie, Stopped, ...)
PROCSTATE_STOPPED = 4


def run(ctx):
    rule_error_turned_success(ctx)
    rule_complete_auxv_needs_no_file(ctx)
    rule_stop_state_source(ctx)
    rule_absent_auxv_tolerated(ctx)
    rule_every_step_attempted(ctx)
    rule_discarded_results(ctx)
    rule_soft_errors_serialisable(ctx)
    rule_serialisers_total(ctx)
    rule_soft_sites(ctx)
    rule_subwriter_map(ctx)
    rule_stream_always(ctx)
    rule_no_dontcare(ctx)
    rule_steps_total(ctx)
    rule_partial_results_kept(ctx)
    # a failed thread-name read costs the name, not the thread (same rule instance as C04/every-tid-listed)
    from rules import c04
    c04.rule_every_tid_listed(ctx, R="C11/name-failure-keeps-thread")
    # the stream is attempted in every dump: its writer is on every success path of generate_dump (same rule instance as C01/every-stream-attempted)
    from rules import c01 as _c01
    _c01.rule_stream_attempted(ctx, R="C11/stream-attempted", only=("minidump_writer::write_soft_errors",))
    # the stream reaches the caller's file where the directory says, wherever in the destination the dump starts (rules/families.py)
    from rules import families as _famd
    _famd.destination(ctx, "C11")
    # the small accessors and pass-through wrappers the rules above look through by name return what their names say (rules/accessors.py)
    from rules import accessors as _acc
    _acc.rule_accessors(ctx, "C11")
    # a failed thread-name read leaves "all other streams intact" only if the name stream still counts and places its entries right when some
    # threads have no name (same rule instances as C15/index-bound, C01/count-array restricted to the thread-name stream)
    from rules import c01 as _c01n
    n_ib = _c01n.index_bound_sites(ctx, "C11/name-stream-index-bound", only_fn="linux::sections::thread_names_stream::write")
    ctx.floor("C11/name-stream-index-bound", "set_value_at call sites in the thread-name stream", n_ib, 1)
    # "absent auxv values" are reported under the auxv step only if the pair iterator turns a vector that ends before AT_NULL into an error item
    # (same rule instance as C18/auxv-pairs)
    from rules import c18 as _c18p
    _c18p.rule_auxv_pairs(ctx, R="C11/auxv-pairs")
